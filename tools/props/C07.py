"""C07 - Interface integrals split conservatively into same-side and mixed-side kernels.

theorems      : coq/Props/C07.v (model of _split_expr_over_interface + interface loop of TerminalExpr.eval:
                the four kernels are the four pieces; the pieces sum to the integrand for every integrand
                bilinear in the restricted arguments; linear forms; several interfaces)
correspondence: real TerminalExpr(form, domain) on generated DG forms over multi-patch domains (single and PRODUCT spaces:
                2-3 scalar / vector functions per slot, several coupled (trial, test) pairs per face; restrictions of
                compound expressions; components minus(F)[i], nn[i]); every kernel is compared inside Coq (tequiv) with
                the model's kernel for the same target / tag
oracle        : independent of the model: the implementation's kernels, read in the two-sided environment, are
                the specification pieces of the independently lowered integrand and sum to it
                (tequiv inside Coq; exact rational evaluation on explicit polynomials as the search oracle);
                every kernel mentions only the sides claimed by its tag
"""
import copy
import json

from vlib import coq_list, coq_str, canon_hash
import exprlib as X

# ----------------------------------------------------------------------------------------------- Coq side
HEADER = """From Coq Require Import String ZArith List Bool.
From V Require Import Core.Terminal Core.SExpr Model.InterfaceM.
Import ListNotations. Open Scope string_scope.
Set Printing Width 1000000. Set Printing Depth 1000000.
Definition mat := list (list sx).
Definition msum (m : mat) : texpr := tsum (map sx2t (concat m)).
Definition b2n (b : bool) : nat := if b then 0 else 1.
Fixpoint bfind (f : string) (l : list (string * mat)) : texpr :=
  match l with [] => TZ 0 | (f', m) :: r => if String.eqb f f' then msum m else bfind f r end.
Fixpoint ifind (k : key3) (l : list (key3 * mat)) : texpr :=
  match l with [] => TZ 0 | (k', m) :: r => if key3_eqb k k' then msum m else ifind k r end.
Fixpoint rfind (n : string) (l : list (string * texpr)) : texpr :=
  match l with [] => TZ 0 | (n', t) :: r => if String.eqb n n' then t else rfind n r end.
Fixpoint gfind (n : string) (d : list (string * (iface * iex))) : iex :=
  match d with [] => IT (TZ 0) | (n', x) :: r => if String.eqb n n' then snd x else gfind n r end.
Definition mixed_keys (trials tests : list string) : list key2 :=
  flat_map (fun u => flat_map (fun v => [((u, SMinus), (v, SPlus)); ((u, SPlus), (v, SMinus))]) tests) trials.
Definition nth_row (m : mat) (i : nat) : list sx := nth i m [].
(* entry (i,j) of a kernel matrix is the kernel with the other components set to zero *)
Definition entries_ok (lin : bool) (cols rows : list comp) (m : mat) : bool :=
  match m with
  | [[_]] => true
  | _ =>
    let k := msum m in
    forallb (fun ir => forallb (fun jc =>
        tequiv (sx2t (nth (fst jc) (nth_row m (fst ir)) (SNum 0 1)))
               (if lin then entry_lin rows (snd ir) k else entry cols rows (snd ir) (snd jc) k))
      (if lin then [(0, ("", 0))] else combine (seq 0 (length cols)) cols))
      (combine (seq 0 (length rows)) rows)
  end.
Definition chk_iface (c : cfg) (trials : option (list string)) (tests : list string)
           (K : kernels) (G : list (string * (iface * iex))) (refs : list (string * texpr))
           (ibnd : list (string * mat)) (iint : list (key3 * mat)) (i : iface) : list nat :=
  let n := iname i in
  let ref := rfind n refs in
  let e0 := gfind n G in
  let bm := bfind (fminus i) ibnd in
  let bp := bfind (fplus i) ibnd in
  let mbm := bnd_kernel (lookup String.eqb (fminus i) (k_bnd K)) in
  let mbp := bnd_kernel (lookup String.eqb (fplus i) (k_bnd K)) in
  let mine := filter (fun km => String.eqb (fst (fst km)) n) iint in
  match trials with
  | Some tr =>
      let keys := mixed_keys tr tests in
      [ b2n (tequiv ref (iden e0));
        b2n (tequiv mbm bm);
        b2n (tequiv mbp bp);
        b2n (forallb (fun k => tequiv (oiden (lookup key3_eqb (n, k) (k_int K))) (ifind (n, k) iint)) keys);
        b2n (forallb (fun km => existsb (key2_eqb (snd (fst km))) keys) mine);
        b2n (tequiv (TAdd (TAdd (read_minus bm) (read_plus bp)) (tsum (map (fun km => msum (snd km)) mine))) ref);
        b2n (tequiv (read_minus bm) (piece tr tests SMinus SMinus ref));
        b2n (tequiv (read_plus bp) (piece tr tests SPlus SPlus ref));
        b2n (forallb (fun k => tequiv (ifind (n, k) iint) (piece_key tr tests k ref)) keys);
        b2n (fields_on SNone bm && fields_on SNone bp &&
             forallb (fun km => only_key tr tests (snd (fst km)) (msum (snd km))) mine) ]
  | None =>
      [ b2n (tequiv ref (iden e0));
        b2n (tequiv mbm bm);
        b2n (tequiv mbp bp);
        b2n (forallb (fun k => match lookup key3_eqb (n, k) (k_int K) with None => true | Some _ => false end)
                     (mixed_keys tests tests));
        b2n (match mine with [] => true | _ => false end);
        b2n (tequiv (TAdd (read_minus bm) (read_plus bp)) ref);
        b2n (tequiv (read_minus bm) (piece_lin tests SMinus ref));
        b2n (tequiv (read_plus bp) (piece_lin tests SPlus ref));
        0;
        b2n (fields_on SNone bm && fields_on SNone bp) ]
  end.
Definition chk_case (c : cfg) (trials : option (list string)) (tests : list string)
           (integrals : list (iface * iex)) (refs : list (string * texpr))
           (ibnd : list (string * mat)) (iint : list (key3 * mat)) (ifs : list iface)
           (cols rows : list comp) (vol : texpr) (idom : list mat) : list (list nat) :=
  let K := lower_form c trials tests integrals in
  let G := group integrals [] in
  map (chk_iface c trials tests K G refs ibnd iint) ifs ++
  [[ b2n (forallb (fun bm => entries_ok (match trials with None => true | _ => false end) cols rows (snd bm)) ibnd);
     b2n (forallb (fun km => entries_ok false cols rows (snd km)) iint);
     b2n (forallb (fun m => tequiv (msum m) vol) idom) ]].
"""

SIDE = {"-": "SMinus", "+": "SPlus", "0": "SNone"}
CODE_NAMES = ["lowering", "model:bnd-minus", "model:bnd-plus", "model:int", "tags", "oracle:sum", "oracle:minus",
              "oracle:plus", "oracle:mixed", "oracle:sides"]


def coq_iex(j):
    k = j["k"]
    if k == "it":
        return "(IT (sx2t %s))" % X.coq_sx(j["t"])
    if k == "jump":
        return "(IJump (sx2t %s))" % X.coq_sx(j["w"])
    if k == "avg":
        return "(IAvg (sx2t %s))" % X.coq_sx(j["w"])
    if k in ("add", "mul"):
        c = "IAdd" if k == "add" else "IMul"
        items = [coq_iex(a) for a in j["a"]]
        if not items:
            return "(IT (TZ %d))" % (0 if k == "add" else 1)
        r = items[0]
        for it in items[1:]:
            r = "(%s %s %s)" % (c, r, it)
        return r
    raise ValueError(k)


def coq_mat(m):
    return coq_list([coq_list([X.coq_sx(x) for x in row]) for row in m])


def coq_iface(i):
    return "{| iname := %s; fminus := %s; fplus := %s |}" % (coq_str(i["name"]), coq_str(i["minus"]), coq_str(i["plus"]))


def coq_rsym(t):
    return "(%s, %s)" % (coq_str(t["name"]), SIDE[t["side"]])


def coq_comp(c):
    return "(%s, %d)" % (coq_str(c[0]), c[1])


def coq_case(case, r):
    """the chk_case term of one evaluated case (r = runner result without error)"""
    bil = case["form"] == "bilinear"
    ifs = {i["name"]: i for i in r["ifaces"]}
    integrals = coq_list(["(%s, %s)" % (coq_iface(ifs[x["iface"]]), coq_iex(x["iex"])) for x in r["integrals"]])
    refs = coq_list(["(%s, sx2t %s)" % (coq_str(n), X.coq_sx(v["ref"])) for n, v in sorted(r["integrand"].items())])
    ibnd = coq_list(["(%s, %s)" % (coq_str(k["target"]), coq_mat(k["mat"])) for k in r["kernels"] if k["type"] == "bnd"])
    iint = coq_list(["((%s, (%s, %s)), %s)" % (coq_str(k["target"]), coq_rsym(k["trial"]), coq_rsym(k["test"]), coq_mat(k["mat"]))
                     for k in r["kernels"] if k["type"] == "int"])
    idom = coq_list([coq_mat(k["mat"]) for k in r["kernels"] if k["type"] == "dom"])
    vol = "(sx2t %s)" % X.coq_sx(r["volume_ref"]) if r.get("volume_ref") else "(TZ 0)"
    return "chk_case the_code %s %s %s %s %s %s %s %s %s %s %s" % (
        "(Some %s)" % coq_list([coq_str(n) for n in case["trials"]]) if bil else "None",
        coq_list([coq_str(n) for n in case["tests"]]),
        integrals, refs, ibnd, iint, coq_list([coq_iface(i) for i in r["ifaces"]]),
        coq_list([coq_comp(c) for c in (r["cols"] or [])]), coq_list([coq_comp(c) for c in r["rows"]]), vol, idom)


# ----------------------------------------------------------------------------------------------- generator
def fn(n):
    return {"k": "fn", "name": n}


def op(name, *a):
    return {"k": "op", "name": name, "a": list(a)}


def mul(*a):
    a = [x for x in a if x is not None]
    return a[0] if len(a) == 1 else {"k": "mul", "a": list(a)}


def add(*a):
    return a[0] if len(a) == 1 else {"k": "add", "a": list(a)}


def gnum(p, q=1):
    return {"k": "num", "p": p, "q": q}


NN = {"k": "nn"}


def comp(x, i):
    return {"k": "comp", "a": [x], "i": i}


class Gen:
    def __init__(self, rng, tier):
        self.r, self.tier = rng, tier
        self.feat = set()
        self.p_compound = 0.0
        self.dim = 2

    def R(self, x, allow_avg=True):
        r = self.r
        c = r.random()
        if c < 0.40:
            self.feat.add("jump")
            return op("jump", x)
        if c < 0.52 and allow_avg:
            self.feat.add("avg")
            return op("avg", x)
        if c < 0.77:
            self.feat.add("minus")
            return op("minus", x)
        self.feat.add("plus")
        return op("plus", x)

    def Rs(self, x, side=None):
        s = side or self.r.choice(["minus", "plus"])
        self.feat.add(s)
        return op(s, x)

    def inner_coef(self, coeffn):
        """a factor that may stand INSIDE a restriction next to the argument: coordinate, free coefficient field (it is
        then restricted to the side of the argument), its square, constant, number"""
        r = self.r
        c = r.random()
        if coeffn and c < 0.6:
            self.feat.add("coef-field")
            self.feat.add("R(field*..)")
            return fn(coeffn) if r.random() < 0.7 else {"k": "pow", "b": fn(coeffn), "e": 2}
        if c < 0.65:
            self.feat.add("R(coord*..)")
            x = {"k": "coord", "i": r.randrange(self.dim)}
            if r.random() < 0.25:
                x = mul(x, {"k": "coord", "i": r.randrange(self.dim)})
            return x
        if c < 0.85:
            return {"k": "const", "name": r.choice(["kappa", "beta"])}
        return gnum(r.choice([2, 3, -1]), r.choice([1, 2]))

    def compound(self, name, vec, side, coeffn):
        """scalar-valued, linear in `name`: the restriction of a COMPOUND expression (the restriction acts on every
        function and on the normal vector inside)"""
        r = self.r
        f = fn(name)
        R = (lambda x: self.Rs(x, side)) if side else (lambda x: self.R(x))
        c = r.random()
        self.feat.add("compound-restriction")
        if not vec:
            if c < 0.45:
                self.feat.add("R(grad.nn)")
                return R(op("dot", op("grad", f), NN))
            if c < 0.75:
                self.feat.add("R(f*u)")
                return R(mul(self.inner_coef(coeffn), f))
            if c < 0.88:
                self.feat.add("R(f*grad.nn)")
                return R(mul(self.inner_coef(coeffn), op("dot", op("grad", f), NN)))
            self.feat.add("R(div grad)")
            return R(op("div", op("grad", f)))
        if c < 0.55:
            self.feat.add("R(vec.nn)")
            return R(op("dot", f, NN))
        if c < 0.8:
            self.feat.add("R(f*vec.nn)")
            return R(mul(self.inner_coef(coeffn), op("dot", f, NN)))
        self.feat.add("R(f*vec).nn")
        return op("dot", R(mul(self.inner_coef(coeffn), f)), NN)

    def S_part(self, name, vec, side=None, coeffn=None):
        """scalar-valued, linear in the function `name`"""
        r = self.r
        f = fn(name)
        if r.random() < self.p_compound:
            return self.compound(name, vec, side, coeffn)
        if not vec:
            c = r.random()
            if c < 0.45:
                return self.Rs(f, side) if side else self.R(f)
            if c < 0.75:
                self.feat.add("Dn")
                return self.Rs(op("Dn", f), side) if side else self.R(op("Dn", f))
            if c < 0.985 or side:
                self.feat.add("grad.nn")
                return op("dot", op("grad", self.Rs(f, side)), NN)
            self.feat.add("restriction-of-derivative")
            return op("dot", self.R(op("grad", f), allow_avg=False), NN)
        c = r.random()
        if c < 0.12:
            # an explicit component of the restricted vector function, minus(F)[i] / plus(F)[i]
            self.feat.add("R(F)[i]")
            x = comp(self.Rs(f, side), r.randrange(self.dim))
            if r.random() < 0.5:
                self.feat.add("nn[i]")
                x = mul(x, comp(NN, r.randrange(self.dim)))
            return x
        if c < 0.6:
            self.feat.add("vec.nn")
            return op("dot", self.Rs(f, side) if side else self.R(f), NN)
        if c < 0.985 or side:
            self.feat.add("div")
            return op("div", self.Rs(f, side))
        self.feat.add("restriction-of-derivative")
        return self.R(op("div", f), allow_avg=False)

    def V_part(self, name, vec, side=None):
        f = fn(name)
        if vec:
            return self.Rs(f, side) if side else self.R(f)
        self.feat.add("grad")
        return op("grad", self.Rs(f, side))

    def coef(self, dim, coeffn, side=None):
        r = self.r
        fs = []
        if r.random() < 0.35:
            fs.append(gnum(r.choice([2, 3, -1, -2, 5]), r.choice([1, 1, 2, 3])))
        if r.random() < 0.45:
            self.feat.add("const")
            fs.append({"k": "const", "name": r.choice(["kappa", "beta"])})
        if r.random() < 0.25:
            self.feat.add("coord")
            x = {"k": "coord", "i": r.randrange(dim)}
            if r.random() < 0.3:
                x = add(mul(x, {"k": "coord", "i": r.randrange(dim)}), gnum(1, 2))
            fs.append(x)
        if r.random() < 0.08:
            self.feat.add("nn.nn")
            fs.append(op("dot", NN, NN))
        if r.random() < 0.08:
            # an explicit component of the normal vector
            self.feat.add("nn[i]")
            fs.append(comp(NN, r.randrange(dim)))
        if coeffn and side:
            self.feat.add("coef-field")
            if r.random() < 0.25:
                self.feat.add("R(f**2)")
                fs.append(op(side, {"k": "pow", "b": fn(coeffn), "e": 2}))
            else:
                fs.append(op(side, fn(coeffn)))
        return fs

    def term(self, case, u=None, v=None):
        r = self.r
        dim = case["dim"]
        bil = case["form"] == "bilinear"
        v = v or r.choice(case["tests"])
        vv = case["funcs"][v]["vec"]
        coeffn = "f" if "f" in case["funcs"] else None
        side = None
        cside = None
        if coeffn and r.random() < 0.6:
            cside = r.choice(["minus", "plus"])
            if r.random() < 0.5:
                side = cside                # a clean use: everything on the side of the coefficient
        cf = self.coef(dim, coeffn, cside)
        # a coefficient field INSIDE a restriction always sits on the side of the argument next to it
        inner = coeffn
        if not bil:
            return mul(*(cf + [self.S_part(v, vv, side, inner)]))
        u = u or r.choice(case["trials"])
        uv = case["funcs"][u]["vec"]
        if r.random() < 0.7:
            return mul(*(cf + [self.S_part(u, uv, side, inner), self.S_part(v, vv, side, inner)]))
        self.feat.add("dot")
        return mul(*(cf + [op("dot", self.V_part(u, uv, side), self.V_part(v, vv, side))]))

    def coupling(self, case, u, v):
        """an interior-penalty style coupling of one (trial, test) pair: two-sided, with normal derivatives, so that the
        pair contributes to BOTH faces and to both interface kernels"""
        r = self.r
        uv, vv = case["funcs"][u]["vec"], case["funcs"][v]["vec"]
        self.feat.add("coupling")

        def J(n, vec):                      # jump-like, scalar-valued
            return op("jump", fn(n)) if not vec else op("dot", op("jump", fn(n)), NN)

        def A(n, vec):                      # average of the normal flux, scalar-valued
            c = r.random()
            if vec:
                return op("avg", op("div", fn(n))) if c < 0.5 else op("dot", op("avg", fn(n)), NN)
            if c < 0.6:
                return op("avg", op("Dn", fn(n)))
            if c < 0.8:
                self.feat.add("compound-restriction")
                self.feat.add("R(grad.nn)")
                return op("avg", op("dot", op("grad", fn(n)), NN))
            return op("dot", op("grad", op(r.choice(["minus", "plus"]), fn(n))), NN)

        ts = [mul({"k": "const", "name": "kappa"}, J(u, uv), J(v, vv))]
        if r.random() < 0.85:
            ts.append(mul(gnum(-1), J(u, uv), A(v, vv)))
        if r.random() < 0.7:
            ts.append(mul(gnum(-1), A(u, uv), J(v, vv)))
        r.shuffle(ts)
        return ts


def gen_case(rng, tier, idx):
    g = Gen(rng, tier)
    dim = rng.choice([2, 2, 2, 3])
    g.dim = dim
    npatch = rng.choice([2, 2, 3])
    mapped = tier == "thorough" and rng.random() < 0.35
    conn = []
    for k in range(npatch - 1):
        a = rng.randrange(dim)
        if rng.random() < 0.7:
            conn.append([[k, a, 1], [k + 1, a, -1]])
        else:
            conn.append([[k + 1, a, -1], [k, a, 1]])
    form = "bilinear" if rng.random() < 0.75 else "linear"
    funcs, trials, tests = {}, [], []
    product = rng.random() < 0.4
    g.p_compound = 0.0 if rng.random() < 0.45 else rng.choice([0.15, 0.3, 0.6])
    if product:
        # product spaces: 2 or 3 components per slot, scalar and vector functions
        nte = rng.choice([2, 2, 3])
        ntr = nte if rng.random() < 0.8 else rng.choice([2, 3])
        tests = ["v%d" % (i + 1) for i in range(nte)]
        for n in tests:
            funcs[n] = {"vec": rng.random() < 0.3}
        if form == "bilinear":
            trials = ["u%d" % (i + 1) for i in range(ntr)]
            for n in trials:
                funcs[n] = {"vec": rng.random() < 0.3}
    else:
        tests = ["v"]
        funcs["v"] = {"vec": rng.random() < 0.35}
        if form == "bilinear":
            trials = ["u"]
            funcs["u"] = {"vec": rng.random() < 0.35}
    if rng.random() < 0.3:
        funcs["f"] = {"vec": False}
    case = {"dim": dim, "npatch": npatch, "mapped": mapped, "conn": conn, "form": form, "funcs": funcs,
            "trials": trials, "tests": tests, "terms": [], "volume": "mass" if rng.random() < 0.2 else None,
            "seed": rng.randrange(1 << 30)}
    nif = npatch - 1
    if nif == 1 or rng.random() < 0.5:
        targets = ["all"]
    else:
        targets = [rng.randrange(nif) for _ in range(rng.randint(1, 2))] + (["all"] if rng.random() < 0.3 else [])
    for t in targets:
        if product and form == "bilinear" and rng.random() < 0.75:
            # several (trial, test) pairs, each contributing to the same faces: the blocks accumulate per face
            pairs = [(u, v) for u in trials for v in tests]
            rng.shuffle(pairs)
            pairs = pairs[: rng.randint(2, min(len(pairs), 4 if tier == "quick" else 6))]
            summands = []
            for u, v in pairs:
                if rng.random() < 0.6:
                    cs = g.coupling(case, u, v)
                    c = rng.choice([1, 2, 3, -1])
                    summands += [mul(gnum(c), x) if c != 1 else x for x in cs]
                else:
                    summands += [g.term(case, u, v) for _ in range(rng.randint(1, 2))]
            g.feat.add("pairs:%d" % len(pairs))
            case["terms"].append({"iface": t, "expr": add(*summands)})
        elif product and form == "linear" and rng.random() < 0.75:
            vs = list(tests)
            rng.shuffle(vs)
            vs = vs[: rng.randint(2, len(vs))]
            summands = []
            for v in vs:
                summands += [g.term(case, None, v) for _ in range(rng.randint(1, 2))]
            g.feat.add("pairs:%d" % len(vs))
            case["terms"].append({"iface": t, "expr": add(*summands)})
        else:
            nt = rng.randint(1, 3 if tier == "quick" else 4)
            case["terms"].append({"iface": t, "expr": add(*[g.term(case) for _ in range(nt)])})
    case["features"] = sorted(g.feat)
    return case


# ----------------------------------------------------------------------------------------------- helpers on G trees
def g_ops(g, acc=None):
    acc = {} if acc is None else acc
    k = g["k"]
    if k == "op":
        acc[g["name"]] = acc.get(g["name"], 0) + 1
    elif k in ("nn", "coord", "const", "comp", "pow"):
        acc[k] = acc.get(k, 0) + 1
    for a in g.get("a", []):
        g_ops(a, acc)
    return acc


def g_has(g, pred):
    if pred(g):
        return True
    return any(g_has(a, pred) for a in g.get("a", []))


def has_restricted_derivative(g):
    def p(x):
        return x["k"] == "op" and x["name"] in ("jump", "avg", "minus", "plus") and \
            g_has(x["a"][0], lambda y: y["k"] == "op" and y["name"] in ("grad", "div"))
    return g_has(g, p)


def has_avg(g):
    return g_has(g, lambda x: x["k"] == "op" and x["name"] == "avg")


def has_normal(g):
    return g_has(g, lambda x: x["k"] == "nn" or (x["k"] == "op" and x["name"] == "Dn"))


def has_component(g):
    return g_has(g, lambda x: x["k"] == "comp")


def has_coef_field(g):
    return g_has(g, lambda x: x["k"] == "fn" and x["name"] == "f")


def classify(case, r):
    """the mechanism that explains a failure of the oracle on this input.  Only `cross-side-coefficient` is a recorded
    (still open) finding: it is chosen only when the exact oracle passes once the side of the coefficient fields is
    ignored, i.e. when nothing else is wrong.  The three repaired defects are recognised so that a regression is named."""
    gs = [t["expr"] for t in case["terms"]]
    orc = (r or {}).get("oracle") or {}
    expl = orc.get("explained_by") or {}
    err = (r or {}).get("err") or {}
    flags = (r or {}).get("flags") or err.get("flags") or []
    expl = dict(expl, **((r or {}).get("explained_by") or {}))
    if expl.get("coefficient-side-blind"):
        return "cross-side-coefficient"
    if err.get("stage") == "TerminalExpr" and err.get("kind") == "TypeError" and \
            any(g_has(g, lambda x: x["k"] == "comp" and x["a"][0] == NN) for g in gs):
        return "normal-component"             # repaired: the reversal of the normal rebuilt Indexed(-nn, i)
    if any(g_has(g, lambda x: x["k"] == "comp" and x["a"][0] != NN) for g in gs) and not expl.get("compound-pushed-inward"):
        return "restricted-component"         # repaired: minus(F)[i] was not nullified with minus(F)
    if expl.get("compound-pushed-inward"):
        # the same form with every restriction of a compound expression written out on the atoms is split correctly
        return "restriction-of-compound"
    if "unlowered-Average" in flags or "Average" in err.get("msg", ""):
        return "avg-not-expanded"
    if "restriction-of-derivative" in flags and any(has_restricted_derivative(g) for g in gs):
        return "restriction-of-derivative"
    if expl.get("plus-face-not-reversed"):
        return "linear-plus-normal-not-reversed"
    return "split-mismatch"


def shrink_candidates(case):
    """smaller cases: fewer terms, fewer summands / factors, fewer patches, lower dimension, no volume term"""
    out = []
    if case.get("volume"):
        out.append(dict(case, volume=None))
    if len(case["terms"]) > 1:
        for i in range(len(case["terms"])):
            out.append(dict(case, terms=case["terms"][:i] + case["terms"][i + 1:]))
    for ti, t in enumerate(case["terms"]):
        e = t["expr"]
        subs = []
        if e["k"] == "add":
            subs += [add(*(e["a"][:i] + e["a"][i + 1:])) for i in range(len(e["a"]))]
        if e["k"] == "mul" and len(e["a"]) > 2:
            for i, a in enumerate(e["a"]):
                if a["k"] in ("num", "const", "coord") or (a["k"] == "comp" and a["a"][0] == NN) or \
                        (a["k"] == "op" and a["name"] == "dot" and a["a"][0] == NN and a["a"][1] == NN):
                    subs.append(mul(*(e["a"][:i] + e["a"][i + 1:])))
        for s in subs:
            terms = copy.deepcopy(case["terms"])
            terms[ti] = dict(t, expr=s)
            out.append(dict(case, terms=terms))
    if case["npatch"] == 3:
        c2 = dict(case, npatch=2, conn=case["conn"][:1])
        c2["terms"] = [dict(t, iface=("all" if t["iface"] == "all" else 0)) for t in case["terms"] if t["iface"] in ("all", 0)]
        if c2["terms"]:
            out.append(c2)
    if case["dim"] == 3:
        c2 = copy.deepcopy(case)
        c2["dim"] = 2
        c2["conn"] = [[[p, min(a, 1), e] for p, a, e in c] for c in case["conn"]]
        ok = not g_has({"k": "add", "a": [t["expr"] for t in case["terms"]]}, lambda x: x["k"] in ("coord", "comp") and x["i"] > 1)
        if ok:
            out.append(c2)
    if case.get("mapped"):
        out.append(dict(case, mapped=False))
    return out


# ----------------------------------------------------------------------------------------------- main
def main(run, replay=None):
    rng = run.rng
    quick = run.tier == "quick"
    n = 288 if quick else 4500
    proof_ok = run.coq_props()

    corpus_f = run.work.parents[1] / "corpus" / "C07.json"
    cases = []
    if replay:
        cases = [json.load(open(replay))["case"]]
    else:
        if corpus_f.exists():
            cases += json.load(open(corpus_f))
        cases += [gen_case(rng, run.tier, i) for i in range(n)]

    nb = 16
    outs = run.impl_parallel("C07_impl", [{"cases": cases[i::nb]} for i in range(nb) if cases[i::nb]], timeout=3000)
    results = [None] * len(cases)
    for bi, (res, log) in enumerate(outs):
        idxs = list(range(len(cases)))[bi::nb]
        if res is None:
            run.report({"kind": "runner-crash"}, "implementation runner crashed", {"log": log[-2000:]},
                       found_input=False, theorem_or_case="C07 runner")
            continue
        for i, r in zip(idxs, res["results"]):
            results[i] = r

    # ---- Coq: model vs implementation, oracle on the implementation's kernels
    terms, owners = [], []
    for ci, (c, r) in enumerate(zip(cases, results)):
        if r is None or "crash" in r or "err" in r:
            continue
        try:
            terms.append(coq_case(c, r))
            owners.append(ci)
        except Exception as e:  # noqa
            r["coq_text_error"] = str(e)[:200]
    files, index = {}, []
    per = 8
    for k in range(0, len(terms), per):
        name = "cases_C07_%d" % (k // per)
        files[name] = HEADER + "Eval vm_compute in %s.\n" % coq_list(terms[k:k + per])
        index.append((name, owners[k:k + per]))
    coq_out = run.coq_eval_many(files, timeout=1500)
    codes = {}
    for name, own in index:
        rc, out = coq_out[name]
        vals = parse_nested(out) if rc == 0 else None
        if vals is None or len(vals) != len(own):
            run.report({"kind": "cases-file"}, "generated case file did not evaluate", {"file": name, "log": out[-1500:]},
                       found_input=False, theorem_or_case=name)
            continue
        for ci, v in zip(own, vals):
            codes[ci] = v

    # ---- decide
    stats = {"cases_compared": 0, "interfaces_compared": 0, "model_agrees": 0, "oracle_proved": 0, "checker_incomplete": 0,
             "refused_or_crashed": 0, "unsupported_node": 0, "oracle_numeric_checked": 0, "known_mechanism_hits": {},
             "model_mismatch": 0}
    failing = []          # (ci, kind, message)

    for ci, (c, r) in enumerate(zip(cases, results)):
        if r is None:
            continue
        if "crash" in r:
            failing.append((ci, "crash", "the runner crashed on this input: " + r["crash"][-300:]))
            continue
        if "err" in r:
            e = r["err"]
            if e["kind"] == "unsupported-node":
                if e["stage"] == "serialise":
                    failing.append((ci, classify(c, r), "a kernel contains an operator the lowering left behind: " + e["msg"]))
                else:
                    stats["unsupported_node"] += 1
                continue
            if e["kind"] == "zero-form":
                stats["trivial_zero_form"] = stats.get("trivial_zero_form", 0) + 1
                continue
            stats["refused_or_crashed"] += 1
            failing.append((ci, classify(c, r) if e["stage"] == "TerminalExpr" else "refused:" + e["stage"],
                            "%s raised %s on an interface form built from the listed constructors: %s" % (e["stage"], e["kind"], e["msg"])))
            continue
        orc = r.get("oracle", {})
        if orc.get("ok") is not None:
            stats["oracle_numeric_checked"] += 1
        v = codes.get(ci)
        if v is None:
            continue
        stats["cases_compared"] += 1
        per_if, tail = v[:-1], v[-1]
        oracle_bad, model_bad, incomplete = [], [], []
        for idd, cs in zip(r["ifaces"], per_if):
            stats["interfaces_compared"] += 1
            nchk = orc.get("per_iface", {}).get(idd["name"]) or {}
            num_bad = [k for k, ok in nchk.items() if ok is False]
            if cs[0] != 0:
                incomplete.append("lowering")
            # a check that the kernel-checked comparison does not prove is decided by the exact-rational oracle
            for k, nk in ((5, "sum"), (6, "minus"), (7, "plus"), (8, "mixed")):
                if cs[k] != 0:
                    (oracle_bad if nchk.get(nk) is False else incomplete).append((idd["name"], CODE_NAMES[k]))
            for nk in num_bad:
                if nk != "sides" and (idd["name"], "oracle:" + nk) not in oracle_bad:
                    oracle_bad.append((idd["name"], "oracle:numeric-" + nk))
            if cs[9] != 0 or cs[4] != 0 or nchk.get("sides") is False:
                oracle_bad.append((idd["name"], CODE_NAMES[9] if (cs[9] or nchk.get("sides") is False) else CODE_NAMES[4]))
            for k in (1, 2, 3):
                if cs[k] != 0:
                    model_bad.append((idd["name"], CODE_NAMES[k]))
            if all(x == 0 for x in cs[1:4]):
                stats["model_agrees"] += 1
            if all(x == 0 for x in cs[4:]):
                stats["oracle_proved"] += 1
        if num_ok_false(orc) and not oracle_bad:
            oracle_bad.append((orc.get("iface"), "oracle:numeric"))
        if tail[0] != 0 or tail[1] != 0:
            oracle_bad.append(("*", "oracle:matrix-entries"))
        if tail[2] != 0:
            oracle_bad.append(("*", "oracle:volume-kernel"))
        # kernels on targets that no integral refers to
        exp_faces = set()
        for idd in r["ifaces"]:
            if idd["name"] in r["integrand"]:
                exp_faces |= {idd["minus"], idd["plus"], idd["name"]}
        for k in r["kernels"]:
            if k["type"] in ("bnd", "int") and k["target"] not in exp_faces:
                oracle_bad.append((k["target"], "oracle:kernel-on-foreign-target"))
            if k["type"] == "dom" and not r.get("volume_ref"):
                oracle_bad.append((k["target"], "oracle:unexpected-domain-kernel"))
        if r.get("volume_ref") and len([k for k in r["kernels"] if k["type"] == "dom"]) != c["npatch"]:
            oracle_bad.append(("*", "oracle:volume-kernel-missing"))
        if incomplete and not oracle_bad:
            stats["checker_incomplete"] += 1
        if oracle_bad:
            kind = classify(c, r)
            failing.append((ci, kind, "the kernels are not the pieces of the integrand: %s" % json.dumps(oracle_bad[:6])))
        elif model_bad:
            stats["model_mismatch"] += 1
            failing.append((ci, "correspondence", "model and implementation disagree (no oracle failure): %s" % json.dumps(model_bad[:6])))

    # ---- report (one per kind), shrink unknown ones
    def oracle_fails(c):
        rr, _ = run.impl("C07_impl", {"cases": [c]})
        if not rr:
            return None
        x = rr["results"][0]
        if "crash" in x:
            return None
        if "err" in x:
            return x if x["err"]["stage"] in ("TerminalExpr", "serialise") else None
        return x if x.get("oracle", {}).get("ok") is False else None

    reported = set()
    for ci, kind, msg in failing:
        c = cases[ci]
        stats["known_mechanism_hits"][kind] = stats["known_mechanism_hits"].get(kind, 0) + 1
        if kind in reported:
            continue
        reported.add(kind)
        sig = {"kind": kind}
        best = {k: v for k, v in c.items() if k != "features"}
        found = kind != "correspondence"
        if found and run.match_known(sig) is None and not replay and kind not in ("crash",):
            budget = 30
            improved = True
            while improved and budget > 0:
                improved = False
                for c2 in shrink_candidates(best):
                    budget -= 1
                    if budget < 0:
                        break
                    x2 = oracle_fails(c2)
                    if x2 is not None and classify(c2, x2) == kind:
                        best = c2
                        improved = True
                        break
        obs = results[ci] if best is c else (oracle_fails(best) or results[ci])
        obs = {k: obs.get(k) for k in ("err", "kernels", "oracle", "flags", "integrand")} if isinstance(obs, dict) else obs
        run.report(sig, "C07 fails on the implementation: " + msg, best, observed=obs,
                   required="per interface: boundary kernel on the minus face = piece(-,-); on the plus face = piece(+,+) with the "
                            "normal reversed; interface kernels tagged (trial side, test side) = the mixed pieces; all together = "
                            "the integrand (jump/avg/minus/plus/Dn lowered by their definitions)",
                   python="import json, subprocess, os\n"
                          "case = json.loads(%r)\n"
                          "json.dump({'cases': [case]}, open('/tmp/c07_in.json', 'w'))\n"
                          "env = dict(os.environ, PYTHONPATH='/repo:/verif/tools/impl', PYTHONHASHSEED='0')\n"
                          "subprocess.run(['/venv/bin/python', '/verif/tools/impl/C07_impl.py', '/tmp/c07_in.json', '/tmp/c07_out.json'], env=env, check=True)\n"
                          "r = json.load(open('/tmp/c07_out.json'))['results'][0]\n"
                          "print(r.get('err')); print(r.get('oracle'))   # oracle['ok'] is False / err is set: the kernels are not the pieces\n"
                          "for k in r.get('kernels', []): print(k['type'], k['target'], k.get('trial'), k.get('test'))\n"
                          % json.dumps(best),
                   theorem_or_case=("oracle:%s" % kind) if found else "correspondence model/implementation (Model/InterfaceM.v)",
                   found_input=found)
    if not proof_ok:
        fo = run.failing_obligation()
        run.report({"kind": "proof"}, "a proof obligation of Props/C07.v no longer checks", fo,
                   found_input=False, theorem_or_case="%s (%s)" % (fo["lemma"], fo["where"]))

    # ---- evidence
    distinct = set()
    h_ops, h_if, h_args, h_dim, h_form, h_map, h_feat, h_terms, h_flags, h_pairs = {}, {}, {}, {}, {}, {}, {}, {}, {}, {}
    for c, r in zip(cases, results):
        if r is None or "crash" in r:
            continue
        for t in c["terms"]:
            for k, v in g_ops(t["expr"]).items():
                h_ops[k] = h_ops.get(k, 0) + v
        bump_h(h_if, str(c["npatch"] - 1))
        kinds = sorted({"vector" if d["vec"] else "scalar" for nme, d in c["funcs"].items() if nme != "f"})
        bump_h(h_args, "+".join(kinds) + ("/product%dx%d" % (len(c["trials"]) or 1, len(c["tests"])) if len(c["tests"]) > 1 else ""))
        bump_h(h_dim, str(c["dim"]))
        bump_h(h_form, c["form"])
        bump_h(h_map, "mapped" if c.get("mapped") else "plain")
        bump_h(h_terms, str(sum(len(t["expr"]["a"]) if t["expr"]["k"] == "add" else 1 for t in c["terms"])))
        for f in c.get("features", []):
            bump_h(h_feat, f)
        for f in (r.get("flags") or []):
            bump_h(h_flags, f)
        if r.get("compound"):
            bump_h(h_flags, "input-with-compound-restriction")
        if len(c["tests"]) > 1 and "err" not in r:
            # product spaces: how many scalar (test, trial) blocks of the accumulated face kernels are non-zero
            for k in r.get("kernels", []):
                if k["type"] == "bnd":
                    nz = sum(1 for row in k["mat"] for x in row if not (x["k"] == "num" and x["p"] == 0))
                    bump_h(h_pairs, str(nz))
        if "err" not in r and len(r.get("kernels", [])) >= 2:
            distinct.add(canon_hash([c["dim"], c["conn"], c["form"], c["terms"], c["funcs"], c.get("mapped")]))
    cov = {
        "evaluations": len([r for r in results if r is not None]),
        "distinct_nontrivial": len(distinct),
        "rule": "one evaluation = one generated form lowered by the real TerminalExpr(form, domain); non-trivial = at least two "
                "kernels were produced; distinct = canonical JSON of (dimension, connectivity, form kind, integrands, functions, mapped)",
        "traces_validated_against_impl": stats["model_agrees"],
        "decisions": stats,
        "model_variant": "Model/InterfaceM.v the_code = cfg_repaired (sympde after dace187 / 6d0684b / 4ecfb40 / b51ca38: the "
                         "restriction of ANY expression reaches the atoms, [restrict] is a homomorphism)",
        "operators": h_ops, "interfaces_per_domain": h_if, "arguments": h_args, "dimension": h_dim, "form_kind": h_form,
        "patches": h_map, "summands_per_case": h_terms, "generator_features": h_feat, "kernel_flags": h_flags,
        "nonzero_blocks_per_face_kernel_product_spaces": h_pairs,
        "samples": [{k: v for k, v in c.items() if k != "features"} for c in cases[:2]],
        "exhaustive": False,
        "trusted_base": ["tools/impl/C07_impl.py (builder, kernel serialiser, the independent lowering `Lower` of dot/grad/div/Dn/"
                         "jump/avg/minus/plus by their definitions, exact-rational oracle), tools/props/C07.py, tools/exprlib.py",
                         "the reading of a boundary kernel on the plus face: normal atoms denote the reversed interface normal "
                         "(the property's 'interface normal reversed on the plus side')",
                         "sympy's Add/Mul canonicalisation and subs (modelled by zero_out / reside on atoms)",
                         "DESIGN 4.2: a differential field (record dfield) as the reading of 'all smooth functions and points'"],
    }
    assumptions = [
        "Theorems are about coq/Model/InterfaceM.v; the tie to sympde/expr/evaluation.py is this run's correspondence: for every "
        "interface of every generated form the implementation's kernels are proved equal (tequiv) to the model's kernels.",
        "The integrand handed to the model and to the oracle is the CONSTRUCTED integrand, lowered by the harness from the real "
        "sympde tree by the definitions of the operators (not by the code under test).",
        "The model is scalar: tensor operators are expanded in components by the harness; kernels that are matrices are compared "
        "through the sum of their entries plus the entry rule of _to_matrix_form.",
        "Inputs stay inside the documented domain: jump/avg/minus/plus of arguments, of Dn(argument), of constant multiples, and of "
        "COMPOUND expressions (dot(grad(w), nn), dot(F, nn), div(grad(w)), c*w with c a coordinate / constant / free coefficient field, "
        "f**2); grad/div of restricted arguments; coordinates and constants as outer coefficients; explicitly restricted coefficient "
        "fields; product spaces with 2 or 3 scalar / vector functions per slot and up to 4 (quick) / 6 (thorough) coupled pairs.",
        "A restricted coordinate minus(x) / plus(x) in an interface kernel is read as the coordinate x (one position per point of "
        "the interface); counted in coverage.kernel_flags['restricted-coordinate'].",
        "tequiv=false is 'not proved': such cases are decided by the exact-rational oracle and counted as checker_incomplete.",
    ]
    return run.finish(cov, assumptions)


def bump_h(h, k):
    h[k] = h.get(k, 0) + 1


def num_ok_false(orc):
    return orc.get("ok") is False


def parse_nested(out):
    """`= [[[0; 1]; [0]]; ...] : list (list (list nat))` -> python lists"""
    import re
    m = re.search(r"=\s*(\[.*\])\s*:\s*list", out, re.S)
    if not m:
        return None
    txt = m.group(1).replace(";", ",")
    try:
        return json.loads(txt)
    except Exception:  # noqa
        return None
