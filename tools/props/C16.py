"""C16 - Analytical mappings are coherent, symbolically and numerically.

theorems      : coq/Props/C16.v
                (A) symbolic coherence of EVERY catalogue class x admissible dimension with symbolic parameters
                    (coq/Gen/Catalogue.v is regenerated from the repo by tools/translate/catalogue.py on every run; the finite
                    sweep `forallb check_entry all_entries = true` is lifted to all differential fields / parameters / points),
                (B) numpy broadcasting of shapes and the two wrappers of lambdify_sympde (all shapes, by induction).
                (A') classes that supply their own Jacobian / inverse Jacobian (class attributes _jac / _inv_jac, the four arms of
                    Mapping.__new__, Model/CatalogueM.v `supplied`): the object exposes the supplied matrix unchanged, the other
                    matrix of the pair is its inverse when the arm computes it, metric / determinant are those of the STORED
                    Jacobian (C16_supplied_sound); a consistent class gets a coherent object, an inconsistent one is not repaired
                    into a second inconsistency (C16_supplied_consistent_coherent / C16_supplied_inconsistent_kept),
correspondence: (A) the same verified check evaluated inside Coq on the real objects built with concrete integer / rational
                    parameters and on random user-defined subclasses (each `true` is a kernel-checked proof for that mapping);
                    the dimension given as int / tuple / list / Tuple / Matrix of length 1, coordinates= with user names (str or
                    Symbol), curves and surfaces (pdim > ldim), mappings WITHOUT expressions (atoms d M[i]/d x_j), copy() through
                    evaluate=False, the constructor's refusals as an enum;
                (A') generated classes with _jac / _inv_jac / both (polynomial, trigonometric, written with the physical
                    coordinates), consistent or with one planted entry: `check_supplied_parts` inside Coq on the real object and
                    the supplied matrices in the runner's own reading; the symbols of the stored quantities must be the mapping's
                    own logical coordinates / parameter objects;
                (B) model vs numpy / the real lambdify_sympde / get_callable_mapping on random shapes, decided inside Coq.
oracle        : the property itself on the implementation's outputs: exact rational evaluation (sympy.diff, explicit inverse,
                J^T J, det) at random parameter sets x points; output shape == component shape + np.broadcast_shapes.
                the symbolic information of the callable mapping (ldim / pdim / params / symbolic_mapping) against the mapping
                it was built from and the parameters bound at construction (also CallableMapping(mapping, **params)).
sampling only : (C) floating-point values of the callable mapping against 40-digit evaluation (a theorem cannot exhibit
                floating-point behaviour) - labelled as sampling in the evidence.
"""
import copy
import json
import re
import threading

from vlib import coq_list, coq_str, canon_hash
import vlib
import exprlib as X
from translate import catalogue as T

FUNCS = {"sin", "cos", "tan", "exp", "log", "sqrt", "pi", "Abs", "atan", "atan2", "x1", "x2", "x3", "E", "I"}

HEADER_A = """From Coq Require Import String ZArith List Bool.
From V Require Import Core.Terminal Core.SExpr Model.CatalogueM.
Import ListNotations. Local Open Scope string_scope.
Set Printing Width 1000000. Set Printing Depth 1000000.
"""

HEADER_B = """From Coq Require Import List Bool Arith.
From V Require Import Model.BroadcastM.
Import ListNotations.
Set Printing Width 1000000. Set Printing Depth 1000000.
Definition oseq (a b : option shape) : bool :=
  match a, b with Some x, Some y => shape_eqb x y | None, None => true | _, _ => false end.
Fixpoint all2o (a b : list (option shape)) : bool :=
  match a, b with [] , [] => true | x :: r, y :: s => oseq x y && all2o r s | _, _ => false end.
"""

PARTS = ["shape/plan", "jacobian = d expressions", "J*Jinv = Jinv*J = I", "metric = J^T J", "metric_det = det(J^T J)"]


# ------------------------------------------------------------------------------------------------ generators
def consts_of(expressions):
    names = set()
    for v in expressions.values():
        for m in re.finditer(r"[A-Za-z_]\w*", v):
            if m.group(0) not in FUNCS:
                names.add(m.group(0))
    return sorted(names)


def gen_value(rng, kind, lo, hi):
    if kind == "int":
        a, b = int(lo) if lo == int(lo) else int(lo) + 1, int(hi)
        cands = [n for n in range(min(a, b), max(a, b) + 1) if n != 0 and lo <= n <= hi]
        if cands:
            return ["int", rng.choice(cands)]
        kind = "rat"
    if kind == "npint":
        cands = [n for n in range(int(lo) - 1, int(hi) + 2) if n != 0 and lo <= n <= hi]
        if cands:
            return ["npint", rng.choice(cands)]
        kind = "npfloat"
    if kind == "rat":
        den = rng.choice([2, 3, 4, 5, 7, 10, 12])
        a, b = int(lo * den) + 1, int(hi * den)
        n = rng.randint(min(a, b), max(a, b)) or 1
        return ["rat", n, den]
    x = round(rng.uniform(lo, hi), rng.choice([2, 3, 6]))
    if x == 0.0:
        x = 0.5
    return [kind if kind in ("float", "npfloat") else "float", repr(x)]


def gen_params(rng, cls, names, kind):
    ranges = T.ranges_for(cls)
    out = {}
    for n in names:
        lo, hi = ranges.get(n, (-2.0, 2.0) if cls == "AffineMapping" else T.DEFAULT_RANGE)
        k = kind if kind != "mixed" else rng.choice(["int", "rat", "float"])
        out[n] = gen_value(rng, k, lo, hi)
    if cls == "AffineMapping":       # keep the linear part well conditioned: dominant diagonal
        for i in "123":
            d = "a" + i + i
            if d in out:
                v = rng.choice([2, 3, -3, 4])
                out[d] = {"int": ["int", v], "npint": ["npint", v], "rat": ["rat", 2 * v + 1, 2],
                          "float": ["float", repr(v + 0.25)], "npfloat": ["npfloat", repr(v + 0.25)]}[out[d][0]]
        for n in out:
            if n[0] == "a" and n[1] != n[2] and out[n][0] in ("float", "npfloat"):
                out[n] = [out[n][0], repr(round(float(out[n][1]) / 3, 3))]
            elif n[0] == "a" and n[1] != n[2] and out[n][0] in ("int", "npint"):
                out[n] = [out[n][0], rng.choice([-1, 1])]
            elif n[0] == "a" and n[1] != n[2] and out[n][0] == "rat":
                out[n] = ["rat", rng.choice([-1, 1, 2]), rng.choice([2, 3, 5])]
    return out


def gen_points(rng, ldim, n, wide=False):
    pts = []
    for _ in range(n):
        pt = []
        for i in range(ldim):
            lo, hi = (0.15, 0.95) if (i == 0 or not wide) else (0.2, 2.9)
            den = rng.choice([8, 16, 10, 7, 64])
            pt.append(rng.randint(int(lo * den) + 1, int(hi * den)) / den)
        pts.append(pt)
    return pts


def gen_grids(rng, ldim, n):
    grids = []
    for _ in range(n):
        g = []
        for i in range(ldim):
            style = rng.choice(["vec", "col", "scalar", "mat"])
            vals = lambda k: [round(rng.uniform(0.2, 0.9), 3) for _ in range(k)]
            if style == "scalar":
                g.append(vals(1)[0])
            elif style == "vec":
                g.append(vals(rng.choice([1, 2, 3])))
            elif style == "col":
                g.append([[v] for v in vals(2)])
            else:
                g.append([vals(2), vals(2)])
        grids.append(g)
    return grids


def catalogue_param_cases(rng, classes, tier, want_numeric=True):
    """One case per (entry, parameter kind): the real class built with concrete parameters."""
    cases = []
    kinds_exact = ["int", "rat"] if tier == "quick" else ["int", "rat", "rat", "mixed_exact"]
    kinds_float = ["float"] if tier == "quick" else ["float", "npfloat", "float", "mixed"]
    for c in classes:
        names_all = consts_of(c["expressions"])
        for label, args in T.admissible(c):
            ldim, pdim = [int(v) for v in label.split("_")]
            sub = {k: v for k, v in c["expressions"].items() if k in T.COORDS[:pdim]}
            names = consts_of(sub)
            names = [n for n in names if not re.fullmatch(r"a\d\d", n) or int(n[2]) <= ldim]   # a13 multiplies x3 := 0
            slow = c["name"] == "CzarnyMapping"
            kinds = []
            if names:
                kinds += [rng.choice(kinds_exact)] if tier == "quick" else kinds_exact
                kinds += [rng.choice(kinds_float)] if tier == "quick" else kinds_float
            else:
                kinds = ["none"]
            for kind in kinds:
                k = {"mixed_exact": "rat"}.get(kind, kind)
                params = gen_params(rng, c["name"], names, k) if names else {}
                if kind == "mixed_exact":
                    for n in params:
                        if rng.random() < 0.5:
                            lo, hi = T.ranges_for(c["name"]).get(n, T.DEFAULT_RANGE)
                            params[n] = gen_value(rng, "int", lo, hi)
                exact = all(v[0] in ("int", "rat", "npint") for v in params.values())
                extra = {"want_dims": [ldim, pdim]}
                if args and rng.random() < 0.6:     # the dimension given as a tuple / list / Tuple / Matrix of length 1
                    extra["dim_as"] = rng.choice(["tuple", "list", "Tuple", "Matrix"])
                if rng.random() < 0.35:             # user names for the physical coordinates
                    extra["coordinates"] = rng.choice(COORD_NAMES)[:pdim]
                    extra["coord_as"] = rng.choice(["list", "tuple", "Tuple", "symbols", "mixed"])
                case = dict(args, **extra, mode="full", cls=c["name"], params=params, kind="catalogue-params", entry="%s_%s" % (c["name"], label),
                            param_kind=kind, seed=rng.randrange(1 << 30), nparams=1, npoints=3 if tier == "quick" else 6,
                            ranges=T.ranges_for(c["name"]),
                            want=(["entry", "oracle"] if exact else []) + (["numeric"] if want_numeric else []),
                            points=gen_points(rng, ldim, 3 if tier == "quick" else 8, wide=(tier != "quick")),
                            grids=gen_grids(rng, ldim, 1 if tier == "quick" else 3),
                            timeout=((60 if not exact else 400) if tier == "quick" else 1500) if slow else 300, slow=slow)
                cases.append(case)
    return cases


MONO2 = ["x1", "x2", "x1*x2", "x1**2", "x2**2"]
MONO3 = MONO2 + ["x3", "x1*x3", "x2*x3", "x3**2"]


def gen_user(rng, idx, tier):
    """A random user-defined subclass: _expressions strings, polynomial or trigonometric, generically regular."""
    ldim, pdim = rng.choice([(1, 1), (2, 2), (2, 2), (2, 2), (3, 3), (1, 2), (2, 3), (1, 3)])
    style = rng.choice(["poly", "poly", "trig", "trig", "mixed"])
    xs = ["x1", "x2", "x3"][:ldim]
    monos = {1: ["x1", "x1**2"], 2: MONO2, 3: MONO3}[ldim]
    symbolic = rng.random() < 0.5
    pnames = ["p", "q", "r"]
    exprs = {}
    used = set()
    for i, key in enumerate(T.COORDS[:pdim]):
        lead = xs[i % ldim]
        terms = []
        if symbolic and rng.random() < 0.6:
            nm = rng.choice(pnames)
            used.add(nm)
            terms.append("%s*%s" % (nm, lead) if rng.random() < 0.7 else "(1+%s)*%s" % (nm, lead))
        else:
            terms.append("%d*%s" % (rng.choice([2, 3, 4]), lead))
        if style in ("poly", "mixed"):
            for _ in range(rng.randint(1, 2)):
                terms.append("%s%d*%s/%d" % (rng.choice("+-"), rng.choice([1, 2, 3]), rng.choice(monos), rng.choice([2, 3, 5, 7])))
        if style in ("trig", "mixed"):
            a = rng.choice(xs)
            f = rng.choice(["sin", "cos"])
            amp = rng.choice(["1/4", "1/3", "1/5"])
            if symbolic and rng.random() < 0.4:
                nm = rng.choice(pnames)
                used.add(nm)
                amp = nm
            t = "%s*%s(%s)" % (amp, f, a)
            if rng.random() < 0.3 and ldim > 1:
                t += "*%s(%s)" % (rng.choice(["sin", "cos"]), rng.choice(xs))
            terms.append("+" + t)
        if rng.random() < 0.5:
            c = "c%d" % (i + 1)
            if symbolic:
                used.add(c)
                terms.append("+" + c)
            else:
                terms.append("+%d" % rng.randint(1, 4))
        exprs[key] = " ".join(terms)
    if style == "trig" and (ldim, pdim) == (2, 2) and rng.random() < 0.4:
        exprs = {"x": "(1 + x1)*cos(x2)", "y": "(1 + x1)*sin(x2)"} if not symbolic else \
            {"x": "c1 + (p + x1)*cos(x2)", "y": "c2 + (p + x1)*sin(x2)"}
        used = {"c1", "c2", "p"} if symbolic else set()
    params = {}
    kind = "symbolic"
    if used and rng.random() < 0.35:   # bind the parameters with concrete values
        kind = rng.choice(["int", "rat"])
        for n in sorted(used):
            params[n] = gen_value(rng, kind, 0.5, 2.5)
    ranges = {n: (0.5, 2.5) for n in used}
    extra = {"want_dims": [ldim, pdim]}
    if rng.random() < 0.3:
        extra["coordinates"] = rng.choice(COORD_NAMES)[:pdim]
        extra["coord_as"] = rng.choice(["list", "tuple", "Tuple", "symbols", "mixed"])
    return {**extra, "mode": "full", "kind": "user", "user": {"name": "User%d" % idx, "expressions": exprs, "ldim": ldim, "pdim": pdim},
            "params": params, "param_kind": kind, "style": style, "seed": rng.randrange(1 << 30), "nparams": 2, "npoints": 2,
            "ranges": ranges, "want": ["entry", "oracle"] + (["numeric"] if not (set(used) - set(params)) else []),
            "points": gen_points(rng, ldim, 2), "grids": gen_grids(rng, ldim, 1),
            "timeout": 90, "entry": "User%d" % idx}


# ---- classes that supply their own Jacobian / inverse Jacobian (class attributes _jac, _inv_jac: string matrices)
# structured terms  coef * prod(factors), factor = ("pow", var, n) | ("sin", var) | ("cos", var), so that the generator can
# write the true Jacobian of its own expressions without any computer algebra
LOGI = ["x1", "x2", "x3"]
COORD_NAMES = [["u", "v", "w"], ["X", "Y", "Z"], ["r", "s", "t"], ["xp", "yp", "zp"]]


def _factor_str(f):
    if f[0] == "pow":
        return f[1] if f[2] == 1 else "%s**%d" % (f[1], f[2])
    return "%s(%s)" % (f[0], f[1])


def term_str(t):
    return "*".join(["(%s)" % t[0]] + [_factor_str(f) for f in t[1]])


def terms_str(ts):
    return " + ".join(term_str(t) for t in ts) if ts else "0"


def term_diff(t, v):
    c, fs = t
    out = []
    for k, f in enumerate(fs):
        if f[1] != v:
            continue
        rest = fs[:k] + fs[k + 1:]
        if f[0] == "pow":
            n = f[2]
            out.append((c if n == 1 else "%d*(%s)" % (n, c), rest + ([("pow", v, n - 1)] if n > 1 else [])))
        elif f[0] == "sin":
            out.append((c, rest + [("cos", v)]))
        else:
            out.append(("-(%s)" % c, rest + [("sin", v)]))
    return out


def jac_strings(exprs_terms, ldim):
    return [[terms_str([d for t in ts for d in term_diff(t, LOGI[j])]) for j in range(ldim)] for ts in exprs_terms]


def _minor(m, r, c):
    return [[x for j, x in enumerate(row) if j != c] for i, row in enumerate(m) if i != r]


def det_str(m):
    n = len(m)
    if n == 1:
        return "(%s)" % m[0][0]
    return "(" + " + ".join("%s(%s)*%s" % ("-" if j % 2 else "", m[0][j], det_str(_minor(m, 0, j))) for j in range(n)) + ")"


def inv_strings(m):
    """the inverse as strings: adjugate / determinant (cofactor expansion), nothing simplified"""
    n = len(m)
    if n == 1:
        return [["1/(%s)" % m[0][0]]]
    d = det_str(m)
    return [["%s%s/%s" % ("-" if (i + j) % 2 else "", det_str(_minor(m, j, i)) if n > 1 else "1", d) for j in range(n)] for i in range(n)]


def gen_supplied_terms(rng, ldim, pdim, fam, symbolic, tri, used):
    xs = LOGI[:ldim]
    out = []
    for i in range(pdim):
        lead = xs[i % ldim]
        allowed = xs[:(i % ldim) + 1] if tri else xs
        if symbolic and rng.random() < 0.6:
            nm = rng.choice(["p", "q"])
            used.add(nm)
            coef = nm if rng.random() < 0.7 else "1+%s" % nm
        else:
            coef = str(rng.choice([2, 3, 4]))
        ts = [(coef, [("pow", lead, 1)])]
        if fam in ("poly", "mixed"):
            for _ in range(rng.randint(1, 2)):
                a = rng.choice(allowed)
                b = rng.choice(allowed)
                mono = rng.choice([[("pow", a, 1)], [("pow", a, 2)]] + ([[("pow", a, 1), ("pow", b, 1)]] if a != b else []))
                if mono == [("pow", lead, 1)]:
                    mono = [("pow", lead, 2)]
                ts.append(("%s%d/%d" % (rng.choice(["", "-"]), rng.choice([1, 2, 3]), rng.choice([2, 3, 5, 7])), mono))
        if fam in ("trig", "mixed"):
            amp = rng.choice(["1/4", "1/3", "1/5"])
            if symbolic and rng.random() < 0.4:
                amp = rng.choice(["p", "q"])
                used.add(amp)
            a = rng.choice(allowed)
            fs = [(rng.choice(["sin", "cos"]), a)]
            others = [v for v in allowed if v != a]
            if others and rng.random() < 0.35:
                fs.append((rng.choice(["sin", "cos"]), rng.choice(others)))
            ts.append((amp, fs))
        if rng.random() < 0.5:
            if symbolic:
                used.add("c%d" % (i + 1))
                ts.append(("c%d" % (i + 1), []))
            else:
                ts.append((str(rng.randint(1, 4)), []))
        out.append(ts)
    return out


def physical_template(rng, names, symbolic, used):
    """classes whose Jacobian is written with the PHYSICAL coordinates (names X, Y, Z = the coordinate names of the
    instance): Mapping.__new__ replaces them by the coordinate expressions"""
    X, Y, Z = names
    a = str(rng.choice([2, 3, 4]))
    c = str(rng.choice([1, 2]))
    if symbolic:
        a, c = rng.choice(["p", "q"]), "c1"
        used.update([a, c])
    b = str(rng.choice([1, 2, 3]))
    k = rng.choice(["P1", "P1", "P2", "P3", "P4", "P5", "P6"])
    x1 = "((%s - %s)/%s)" % (X, c, a)
    if k == "P1":
        return k, 2, 2, {"x": "%s*x1 + %s" % (a, c), "y": "x1*x2 + %s*x2" % b}, \
            [[a, "0"], ["%s/(%s + %s)" % (Y, x1, b), "%s + %s" % (x1, b)]]
    if k == "P2":
        return k, 1, 1, {"x": "%s*x1**2 + %s" % (a, c)}, [["2*(%s - %s)/x1" % (X, c)]]
    if k == "P3":
        x1 = "(%s/%s)" % (X, a)
        x2 = "(%s/(%s + 1))" % (Y, x1)
        return k, 3, 3, {"x": "%s*x1" % a, "y": "x2*(x1 + 1)", "z": "x3 + x1*x2 + %s" % c}, \
            [[a, "0", "0"], [x2, "%s + 1" % x1, "0"], [x2, x1, "1"]]
    if k == "P4":
        return k, 2, 3, {"x": "%s*x1" % a, "y": "x2 + %s" % c, "z": "x1*x2"}, [[a, "0"], ["0", "1"], ["%s - %s" % (Y, c), "%s/%s" % (X, a)]]
    if k == "P5":
        return k, 2, 2, {"x": "%s + %s*x1*cos(x2)" % (c, a), "y": "%s*x1*sin(x2)" % a}, \
            [["%s*cos(x2)" % a, "-%s" % Y], ["%s*sin(x2)" % a, "%s - %s" % (X, c)]]
    return k, 1, 2, {"x": "%s*x1" % a, "y": "x1**2 + %s" % c}, [[a], ["2*%s/%s" % (X, a)]]


def gen_supplied(rng, idx, tier):
    """A user class that supplies _jac and / or _inv_jac: the TRUE matrices of its expressions (consistent), or with one
    planted entry (inconsistent: what does the object expose then?)."""
    fam = rng.choice(["poly", "poly", "trig", "mixed", "physical", "physical"])
    symbolic = rng.random() < 0.55
    used = set()
    coords = None
    if fam == "physical" or rng.random() < 0.3:
        coords = rng.choice(COORD_NAMES + ([["x", "y", "z"]] if fam == "physical" else []))
    if fam == "physical":
        tmpl, ldim, pdim, exprs, J = physical_template(rng, coords, symbolic, used)
        if coords == ["x", "y", "z"]:
            coords_arg = None
        else:
            coords_arg = coords[:pdim]
    else:
        ldim, pdim = rng.choice([(1, 1), (2, 2), (2, 2), (2, 2), (3, 3), (1, 2), (2, 3), (1, 3)])
        tri = ldim == 3 or rng.random() < 0.3
        tts = gen_supplied_terms(rng, ldim, pdim, fam, symbolic, tri, used)
        exprs = {k: terms_str(ts) for k, ts in zip(T.COORDS, tts)}
        J = jac_strings(tts, ldim)
        tmpl = "tri" if tri else "full"
        coords_arg = coords[:pdim] if coords else None
    square = ldim == pdim
    mode = rng.choice(["jac", "jac", "inv", "both"]) if square else "jac"
    planted = None
    if rng.random() < 0.3:
        planted = "jac" if mode != "both" else rng.choice(["jac", "inv"])
    Jt = [list(r) for r in J]
    Jp = [list(r) for r in J]
    if planted:
        Jp[0][0] = "(%s) + 1" % Jp[0][0]
    user = {"name": "Sup%d" % idx, "expressions": exprs, "ldim": ldim, "pdim": pdim}
    if mode == "jac":
        user["jac"] = Jp
    elif mode == "inv":
        user["inv_jac"] = inv_strings(Jp)
    else:
        user["jac"] = Jp if planted == "jac" else Jt
        user["inv_jac"] = inv_strings(Jp if planted == "inv" else Jt)
    dims_by = "class"
    if rng.random() < 0.35:            # dimensions given to the constructor instead of class attributes, possibly wrapped
        dims_by = "dim" if square and rng.random() < 0.6 else "ldim_pdim"
        user["ldim"] = user["pdim"] = None
    params, kind = {}, "symbolic"
    if used and rng.random() < 0.5:
        kind = rng.choice(["int", "rat"])
        for n in sorted(used):
            params[n] = gen_value(rng, kind, 0.5, 2.5)
    case = {"mode": "full", "kind": "supplied", "user": user, "params": params, "param_kind": kind, "style": fam, "template": tmpl,
            "supplied": mode, "planted": planted, "base": "stored", "want_dims": [ldim, pdim],
            "seed": rng.randrange(1 << 30), "nparams": 2, "npoints": 2, "ranges": {n: (0.5, 2.5) for n in used},
            "want": ["entry", "oracle", "copy"] + (["numeric"] if not (set(used) - set(params)) and not planted else []),
            "points": gen_points(rng, ldim, 2), "grids": gen_grids(rng, ldim, 1), "timeout": 120, "entry": "Sup%d" % idx}
    if dims_by == "dim":
        case["dim"] = ldim
    elif dims_by == "ldim_pdim":
        case["ldim"], case["pdim"] = ldim, pdim
    if dims_by != "class":
        case["dim_as"] = rng.choice(["int", "tuple", "list", "Tuple", "Matrix"])
    if coords_arg:
        case["coordinates"] = coords_arg
        case["coord_as"] = rng.choice(["list", "tuple", "Tuple", "symbols", "mixed"])
    return case


def gen_abstract_cases(rng, tier):
    """Mapping objects WITHOUT analytical expressions: the stored Jacobian is the matrix of the atoms d M[i]/d x_j."""
    cases = []
    for (l, p) in [(1, 1), (2, 2), (3, 3), (1, 2), (2, 3), (1, 3)]:
        c = {"mode": "full", "kind": "abstract", "cls": "Mapping", "mname": rng.choice(["M", "F", "Phi"]), "params": {}, "param_kind": "none",
             "want_dims": [l, p], "want": ["entry", "oracle", "copy"], "seed": rng.randrange(1 << 30), "timeout": 120,
             "entry": "Mapping_%d_%d" % (l, p)}
        if l == p and rng.random() < 0.7:
            c["dim"] = l
        else:
            c["ldim"], c["pdim"] = l, p
        c["dim_as"] = rng.choice(["int", "tuple", "list", "Tuple", "Matrix"])
        if rng.random() < 0.5:
            c["coordinates"] = rng.choice(COORD_NAMES)[:p]
            c["coord_as"] = rng.choice(["list", "tuple", "Tuple", "symbols", "mixed"])
        cases.append(c)
    return cases


def ctor_expected(c):
    """The constructor's refusals, arm by arm (Mapping.__new__): dimension wrappers first, then the assertions on the
    dimensions, then evaluate=False (bare object, nothing else is looked at), then the coordinates."""
    raw = c.get("raw") or {}
    dims = {}
    for k in ("dim", "ldim", "pdim"):
        v = raw.get(k, c.get(k))
        if isinstance(v, list):
            if len(v) != 1:
                return "ValueError"
            v = v[0]
        dims[k] = v
    if dims["dim"] is None:
        cl, cp = c.get("class_dims", [None, None])
        l = dims["ldim"] if dims["ldim"] is not None else cl
        p = dims["pdim"] if dims["pdim"] is not None else cp
        if l is None or p is None or p < l:
            return "AssertionError"
    if c.get("evaluate") is False:
        return "unevaluated"
    if "coordinates" in raw:
        v = raw["coordinates"]
        if not isinstance(v, list):
            return "TypeError"
        if any(not isinstance(a, str) for a in v):
            return "TypeError"
    return "ok"


def ctor_dims(c):
    raw = c.get("raw") or {}
    d = {}
    for k in ("dim", "ldim", "pdim"):
        v = raw.get(k, c.get(k))
        d[k] = v[0] if isinstance(v, list) and len(v) == 1 else v
    if d["dim"] is not None:
        return [d["dim"], d["dim"]]
    cl, cp = c.get("class_dims", [None, None])
    l, p = d["ldim"] if d["ldim"] is not None else cl, d["pdim"] if d["pdim"] is not None else cp
    return [l, p] if l is not None and p is not None else None


def gen_ctor_cases(rng):
    base = [
        {"cls": "Mapping", "raw": {"dim": [2, 3]}, "raw_tuple": True},
        {"cls": "Mapping", "raw": {"dim": [2, 3]}},
        {"cls": "Mapping", "raw": {"dim": []}},
        {"cls": "Mapping", "raw": {"ldim": [1, 2], "pdim": 2}},
        {"cls": "Mapping", "raw": {"ldim": 1, "pdim": [2, 2, 2]}, "raw_tuple": True},
        {"cls": "Mapping", "raw": {"dim": [3]}},
        {"cls": "Mapping", "raw": {"ldim": [2], "pdim": [3]}, "raw_tuple": True},
        {"cls": "Mapping", "raw": {}},
        {"cls": "Mapping", "raw": {"ldim": 2}},
        {"cls": "Mapping", "raw": {"ldim": 3, "pdim": 2}},
        {"cls": "Mapping", "dim": 2, "raw": {"coordinates": "uv"}},
        {"cls": "Mapping", "dim": 2, "raw": {"coordinates": [1, 2]}},
        {"cls": "Mapping", "dim": 2, "raw": {"coordinates": ["u", 2]}},
        {"cls": "Mapping", "dim": 2, "raw": {"coordinates": ["u", "v"]}},
        {"cls": "Mapping", "raw": {"dim": [2, 3], "coordinates": "uv"}},
        {"cls": "Mapping", "dim": 2, "coordinates": ["u", "v"], "coord_as": "symbols"},
        {"cls": "Mapping", "ldim": 1, "pdim": 3, "coordinates": ["r", "s", "t"], "coord_as": "Tuple"},
        {"cls": "Mapping", "dim": 1, "coordinates": ["r"], "coord_as": "mixed"},
        {"cls": "PolarMapping", "coordinates": ["X", "Y"], "coord_as": "tuple", "class_dims": [2, 2]},
        {"cls": "Mapping", "dim": 2, "evaluate": False},
        {"cls": "Mapping", "dim": 2, "evaluate": False, "raw": {"coordinates": "uv"}},
        {"cls": "PolarMapping", "evaluate": False, "class_dims": [2, 2]},
        {"cls": "PolarMapping", "raw": {"coordinates": 7}, "class_dims": [2, 2]},
        {"cls": "IdentityMapping", "raw": {"dim": [2, 2]}},
        {"cls": "IdentityMapping", "raw": {"dim": [2]}},
        {"cls": "AffineMapping", "raw": {"ldim": 3, "pdim": 2}},
    ]
    return [dict(c, mode="ctor", kind="ctor", timeout=60) for c in base]


def gen_kwargs_probes(rng, classes, tier):
    """CallableMapping(mapping, **params) on mappings whose parameters were left symbolic: values of all quantities and the
    symbolic information (params / ldim / pdim / symbolic_mapping)."""
    out = []
    for c in classes:
        if c["name"] == "CzarnyMapping" and tier == "quick":
            continue
        label, args = rng.choice(T.admissible(c))
        ldim, pdim = [int(v) for v in label.split("_")]
        sub = {k: v for k, v in c["expressions"].items() if k in T.COORDS[:pdim]}
        names = [n for n in consts_of(sub) if not re.fullmatch(r"a\d\d", n) or int(n[2]) <= ldim]
        if not names:
            continue
        params = gen_params(rng, c["name"], names, rng.choice(["int", "rat", "float", "mixed"]))
        out.append(dict(args, mode="probe", kind="callable-kwargs", cls=c["name"], params=params, want_dims=[ldim, pdim],
                        point=gen_points(rng, ldim, 1)[0], grids=gen_grids(rng, ldim, 1), entry="%s_%s" % (c["name"], label),
                        timeout=300))
    return out


def gen_shape_list(rng, n, compat=True):
    """n shapes (as input specs) that broadcast together (or not)."""
    target = [rng.choice([1, 2, 3, 4]) for _ in range(rng.randint(0, 3))]
    if rng.random() < 0.08 and target:
        target[rng.randrange(len(target))] = 0
    specs = []
    for _ in range(n):
        r = rng.random()
        if r < 0.2 or not target:
            specs.append(rng.choice([{"t": "py"}, {"t": "0d"}, {"t": "pyint"}]) if r < 0.2 or rng.random() < 0.6 else {"t": "arr", "shape": [1]})
            continue
        k = rng.randint(1, len(target))
        sh = list(target[-k:])
        for i in range(len(sh)):
            if rng.random() < 0.3:
                sh[i] = 1
        if rng.random() < 0.08:
            sh = [1] + sh
        specs.append({"t": "arr", "shape": sh, "int": rng.random() < 0.1})
    if not compat:
        arrs = [s for s in specs if s["t"] == "arr" and s["shape"]]
        if len(arrs) >= 1:
            s = rng.choice(arrs)
            i = rng.randrange(len(s["shape"]))
            s["shape"][i] = s["shape"][i] + rng.choice([1, 2]) + 3
            specs.append({"t": "arr", "shape": [7] * len(s["shape"])}) if n < 3 and rng.random() < 0.3 else None
    for i, s in enumerate(specs):
        s["v"] = round(0.2 + 0.13 * i, 3)
    return specs


def spec_shape(s):
    return list(s["shape"]) if s["t"] == "arr" else []


def gen_shape_cases(rng, n):
    cases = []
    for i in range(n):
        r = rng.random()
        compat = rng.random() < 0.82
        if r < 0.3:
            specs = gen_shape_list(rng, rng.randint(1, 4), compat)
            shapes = [spec_shape(s) for s in specs]
            asg = []
            for _ in range(2):
                a, b = rng.choice(shapes), rng.choice(shapes)
                asg.append([a, b])
                asg.append([[1] * rng.randint(0, 2) + a, b])
            cases.append({"mode": "shape", "kind": "numpy", "shapes": shapes, "assign": asg})
        else:
            nv = rng.randint(1, 3)
            specs = gen_shape_list(rng, nv, compat)[:nv]
            nv = len(specs)
            cs = rng.choice([[], [], [2, 2], [nv, nv], [3, 2], [2], [3], [1, 1]])
            ncomp = 1
            for d in cs:
                ncomp *= d
            masks = []
            for k in range(ncomp):
                style = rng.random()
                if style < 0.25:
                    masks.append([False] * nv)                 # constant component
                elif style < 0.5:
                    masks.append([True] * nv)
                else:
                    masks.append([rng.random() < 0.5 for _ in range(nv)])
            cases.append({"mode": "shape", "kind": "lambdify", "cshape": cs, "masks": masks, "inputs": specs,
                          "linear": rng.random() < 0.7})
    return cases


def gen_callable_shape_cases(rng, classes, tier):
    cases = []
    for c in classes:
        if c["name"] == "CzarnyMapping" and tier == "quick":
            continue
        for label, args in T.admissible(c):
            ldim, pdim = [int(v) for v in label.split("_")]
            if tier == "quick" and c["pdim"] is None and (ldim, pdim) not in ((1, 1), (2, 2), (3, 3), (2, 3)):
                continue
            sub = {k: v for k, v in c["expressions"].items() if k in T.COORDS[:pdim]}
            names = [n for n in consts_of(sub) if not re.fullmatch(r"a\d\d", n) or int(n[2]) <= ldim]
            params = gen_params(rng, c["name"], names, rng.choice(["rat", "float", "int"]))
            if c["name"] == "AffineMapping" and rng.random() < 0.5 and ldim >= 2:
                params["a12"] = ["int", 0]          # more constant components
            sets = []
            for _ in range(4 if tier == "quick" else 10):
                specs = gen_shape_list(rng, ldim, rng.random() < 0.85)[:ldim]
                while len(specs) < ldim:
                    specs.append({"t": "py", "v": 0.4})
                sets.append(specs)
            cases.append(dict(args, mode="shape", kind="callable", cls=c["name"], params=params, input_sets=sets,
                              entry="%s_%s" % (c["name"], label), timeout=200))
    return cases


# ------------------------------------------------------------------------------------------------ Coq text
def coq_shape(s):
    return coq_list(["%d" % d for d in s])


def coq_oshape(s):
    return "None" if s is None else "(Some %s)" % coq_shape(s)


def coq_mask(m):
    return coq_list([X.coq_bool(b) for b in m])


def coq_entry_term(name, d):
    jinv = "None" if d["jinv"] is None else "(Some %s)" % T.coq_mat(d["jinv"])
    return "(mk_entry %s %d %d %s %s %s %s %s)" % (
        coq_str(name), d["ldim"], d["pdim"], coq_list([X.coq_sx(x) for x in d["expr"]]), T.coq_mat(d["jac"]), jinv,
        T.coq_mat(d["metric"]), X.coq_sx(d["mdet"]))


def coq_omat(m):
    return "None" if m is None else "(Some %s)" % T.coq_mat(m)


def entry_nontrivial(d):
    ops = {}
    for x in d["expr"]:
        X.sx_ops(x, ops)
    return any(k.startswith("fn:") for k in ops) or ops.get("at", 0) >= 3


# ------------------------------------------------------------------------------------------------ reference pin
REF_JSON = vlib.VERIF / "corpus" / "C16_reference.json"
REF_V = vlib.COQ / "Model" / "CatalogueRefM.v"


def render_reference(ref):
    head = ("(* Pinned REFERENCE definitions of the catalogue mappings (coordinate expressions per class x dimension), as\n"
            "   read from sympde/topology/analytical_mapping.py at the baseline commit.  Hand-maintained regression reference:\n"
            "   rendered from corpus/C16_reference.json by `python3 tools/props/C16.py --write-reference` (never at check time);\n"
            "   the check verifies on every run that this file is the rendering of that JSON.  An upstream change of a\n"
            "   mapping's DEFINITION (not of its spelling) must be accompanied by a new reference. *)\n"
            "From Coq Require Import String ZArith List.\n"
            "From V Require Import Core.Terminal Core.SExpr.\n"
            "Import ListNotations. Local Open Scope string_scope.\n\n")
    rows = ["  (%s, map sx2t %s)" % (coq_str(n), coq_list([X.coq_sx(x) for x in ref[n]])) for n in sorted(ref)]
    return head + "Definition reference : list (string * list texpr) := [\n%s\n].\n" % ";\n".join(rows)


def write_reference():
    info = T.build()
    assert not info["problems"], info["problems"]
    ref = {e["name"]: e["data"]["expr"] for e in info["entries"]}
    REF_JSON.write_text(json.dumps(ref, indent=0, sort_keys=True))
    REF_V.write_text(render_reference(ref))
    print("reference written: %d entries" % len(ref))


# ------------------------------------------------------------------------------------------------ main
def python_replay(case):
    return ("# PYTHONHASHSEED=0 PYTHONPATH=%s:/verif/tools/impl /venv/bin/python /verif/tools/impl/C16_impl.py in.json out.json\n"
            "# with in.json = {\"cases\": [<case>]}  (mode full/shape/probe); compare with 'required'" % vlib.REPO)


def run_batches(run, cases, nb=16):
    """cases -> results (same order); slow cases get their own subprocess."""
    if not cases:
        return []
    slow = [i for i, c in enumerate(cases) if c.get("slow")]
    fast = [i for i, c in enumerate(cases) if not c.get("slow")]
    groups = [[i] for i in slow]
    k = max(1, min(nb - len(groups), len(fast))) if fast else 0
    groups += [fast[j::k] for j in range(k)] if k else []
    outs = run.impl_parallel("C16_impl", [{"cases": [cases[i] for i in g]} for g in groups], timeout=3000)
    results = [None] * len(cases)
    for g, (res, log) in zip(groups, outs):
        if res is None:
            for i in g:
                results[i] = {"crash": "runner process failed: " + log[-800:], "runner": True}
            continue
        for i, r in zip(g, res["results"]):
            results[i] = r
    return results


def main(run, replay=None):
    rng = run.rng
    quick = run.tier == "quick"
    src = str(vlib.REPO / T.SRC_REL)
    classes, ast_problems = T.parse_source(src)

    # ---------------- generate the implementation-side work and start it in the background
    if replay:
        rp = json.load(open(replay))
        all_cases = [rp["case"]["payload"]] if "payload" in rp.get("case", {}) else []
    else:
        param_cases = catalogue_param_cases(rng, classes, run.tier)
        user_cases = [gen_user(rng, i, run.tier) for i in range(24 if quick else 160)]
        shape_cases = gen_shape_cases(rng, 260 if quick else 2500)
        cshape_cases = gen_callable_shape_cases(rng, classes, run.tier)
        probe_cases = [{"mode": "probe", "kind": "callable-kwargs", "cls": "PolarMapping", "want_dims": [2, 2], "entry": "PolarMapping_2_2",
                        "params": {"c1": ["float", "0.5"], "c2": ["float", "-0.25"], "rmin": ["float", "0.25"], "rmax": ["float", "1.5"]},
                        "point": [0.5, 0.75]},
                       {"mode": "probe", "kind": "callable-kwargs", "cls": "AffineMapping", "dim": 1, "want_dims": [1, 1], "entry": "AffineMapping_1_1",
                        "params": {"c1": ["int", 1], "a11": ["int", 3]}, "point": [0.5]}]
        probe_cases += gen_kwargs_probes(rng, classes, run.tier)
        supplied_cases = [gen_supplied(rng, i, run.tier) for i in range(36 if quick else 240)]
        abstract_cases = gen_abstract_cases(rng, run.tier)
        ctor_cases = gen_ctor_cases(rng)
        corpus_f = vlib.VERIF / "corpus" / "C16.json"
        corpus = json.load(open(corpus_f)) if corpus_f.exists() else []
        all_cases = corpus + param_cases + user_cases + supplied_cases + abstract_cases + ctor_cases + shape_cases + cshape_cases + probe_cases
    box = {}
    import time
    t_start = time.time()
    timeline = {}

    def bg():
        box["results"] = run_batches(run, all_cases)
        timeline["impl_batches_done_s"] = round(time.time() - t_start, 1)
    th = threading.Thread(target=bg)
    th.start()

    # ---------------- translate + prove
    ref = json.load(open(REF_JSON)) if REF_JSON.exists() else {}
    info = T.generate(oracle_seed=run.seed, jobs=6, refs=ref)
    timeline["translator_done_s"] = round(time.time() - t_start, 1)
    run.coq_build(["Gen/Catalogue.vo"])
    proof_ok = run.coq_props()
    timeline["proofs_done_s"] = round(time.time() - t_start, 1)
    th.join()
    results = box.get("results", [])

    reported = set()

    def report(sig, what, case, **kw):
        key = json.dumps(sig, sort_keys=True)
        if key in reported:
            return
        reported.add(key)
        run.report(sig, what, case, python=python_replay(case), **kw)

    stats = {"catalogue_entries": len(info["entries"]), "catalogue_entries_proved": 0, "catalogue_parts_true": 0,
             "param_cases": 0, "param_cases_proved": 0, "user_cases": 0, "user_cases_proved": 0, "checker_incomplete": 0,
             "oracle_points": 0, "oracle_refused_points": 0, "unsupported_node": 0, "timeouts": 0, "degenerate_user_mappings": 0,
             "shape_numpy": 0, "shape_lambdify": 0, "shape_callable_runs": 0, "shape_model_agree": 0, "shape_refusals": 0,
             "oracle_unavailable_but_proved": 0, "numeric_cases": 0, "numeric_points": 0, "numeric_values_compared": 0, "float_param_cases": 0,
             "supplied_cases": 0, "supplied_cases_proved": 0, "supplied_inconsistent": 0, "supplied_inconsistent_kept_proved": 0,
             "supplied_inconsistent_kept_oracle": 0, "abstract_cases": 0, "abstract_cases_proved": 0, "ctor_cases": 0, "ctor_agree": 0,
             "meta_checked": 0, "dim_wrapped_cases": 0, "custom_coordinate_cases": 0, "copies_checked": 0,
             "callable_props_checked": 0, "kwargs_probes": 0, "kwargs_probe_values": 0}
    incomplete_list, skipped = [], list(info["skipped"])

    # ---------------- (A1) the generated catalogue: per entry / per part, inside Coq
    files = {}
    files["cat_parts"] = HEADER_A + "From V Require Import Gen.Catalogue Model.CatalogueRefM.\n" \
        "Eval vm_compute in concat (map (fun e => chk_ref reference e :: check_parts e) all_entries).\n"
    # (A2) concrete parameter sets and user subclasses
    entry_terms, owners = [], []
    for ci, (c, r) in enumerate(zip(all_cases, results)):
        if c.get("mode") != "full" or r is None or "entry" not in r or "err" in r.get("entry", {}):
            continue
        if c.get("kind") == "supplied":
            if "given_err" in r["entry"]:
                continue
            # the arm of Mapping.__new__ taken by this class, with the supplied matrices in the runner's own reading
            entry_terms.append("check_supplied_parts (mk_sup %s %s) %s" % (
                coq_omat(r["entry"].get("given_jac")), coq_omat(r["entry"].get("given_inv")), coq_entry_term(c["entry"], r["entry"])))
            owners.append((ci, 6))
        else:
            entry_terms.append("check_parts %s" % coq_entry_term(c["entry"], r["entry"]))
            owners.append((ci, 5))
    per = 6
    eindex = []
    for k in range(0, len(entry_terms), per):
        name = "cases_C16_A_%d" % (k // per)
        files[name] = HEADER_A + "Eval vm_compute in concat %s.\n" % coq_list(entry_terms[k:k + per])
        eindex.append((name, owners[k:k + per]))
    # (B) shapes
    sterms, sown = [], []
    for ci, (c, r) in enumerate(zip(all_cases, results)):
        if c.get("mode") != "shape" or r is None or "crash" in r or "timeout" in r:
            continue
        if c["kind"] == "numpy":
            sterms.append("oseq (broadcast %s) %s" % (coq_list([coq_shape(s) for s in c["shapes"]]), coq_oshape(r["broadcast"])))
            sown.append((ci, "broadcast"))
            for (a, b), ok in zip(c["assign"], r["assign"]):
                sterms.append("Bool.eqb (assignable %s %s) %s" % (coq_shape(a), coq_shape(b), X.coq_bool(ok)))
                sown.append((ci, "assign"))
        elif c["kind"] == "lambdify":
            inp = coq_list([coq_shape(spec_shape(s)) for s in c["inputs"]])
            if "err" in r and r["err"] != "refused:broadcast":
                continue
            obs = coq_oshape(None if "err" in r else r["shape"])
            if c["cshape"] == []:
                sterms.append("oseq (wrap_scalar %s %s) %s" % (coq_mask(c["masks"][0]), inp, obs))
            else:
                sterms.append("oseq (wrap_array %s %s %s) %s" % (coq_shape(c["cshape"]), coq_list([coq_mask(m) for m in c["masks"]]), inp, obs))
            sown.append((ci, "wrapper"))
        elif c["kind"] == "callable":
            for ri, (specs, rr) in enumerate(zip(c["input_sets"], r["runs"])):
                inp = coq_list([coq_shape(spec_shape(s)) for s in specs])
                l, p = r["ldim"], r["pdim"]

                def obs(v):
                    return coq_oshape(None if isinstance(v, dict) else v)
                ts = []
                if isinstance(rr.get("call"), dict):
                    ts.append("forallb (fun m => oseq (wrap_scalar m %s) None) %s" % (inp, coq_list([coq_mask(m) for m in r["m_expr"]])))
                else:
                    ts.append("all2o (map (fun m => wrap_scalar m %s) %s) %s" % (
                        inp, coq_list([coq_mask(m) for m in r["m_expr"]]), coq_list([coq_oshape(s) for s in rr["call"]])))
                ts.append("oseq (wrap_array [%d; %d] %s %s) %s" % (p, l, coq_list([coq_mask(m) for m in r["m_jac"]]), inp, obs(rr["jacobian"])))
                if r["m_jinv"] is not None and "jacobian_inv" in rr:
                    ts.append("oseq (wrap_array [%d; %d] %s %s) %s" % (l, p, coq_list([coq_mask(m) for m in r["m_jinv"]]), inp, obs(rr["jacobian_inv"])))
                ts.append("oseq (wrap_array [%d; %d] %s %s) %s" % (l, l, coq_list([coq_mask(m) for m in r["m_metric"]]), inp, obs(rr["metric"])))
                ts.append("oseq (wrap_scalar %s %s) %s" % (coq_mask(r["m_mdet"]), inp, obs(rr["metric_det"])))
                sterms.append("forallb (fun b => b) %s" % coq_list(ts))
                sown.append((ci, "callable:%d" % ri))
    sindex = []
    per = 150
    for k in range(0, len(sterms), per):
        name = "cases_C16_B_%d" % (k // per)
        files[name] = HEADER_B + "Eval vm_compute in %s.\n" % coq_list(sterms[k:k + per])
        sindex.append((name, sown[k:k + per]))
    coq_out = run.coq_eval_many(files, timeout=1500)
    timeline["case_files_done_s"] = round(time.time() - t_start, 1)

    def vals_of(name, n=None):
        rc, out = coq_out[name]
        v = run.parse_list_output(out) if rc == 0 else None
        if v is None or (n is not None and len(v) != n):
            report({"kind": "cases-file", "file": name.rstrip("0123456789")}, "generated case file did not evaluate",
                   {"file": name, "log": out[-1500:]}, found_input=False, theorem_or_case=name)
            return None
        return [x == "true" for x in v]

    # ---------------- decide (A1)
    entries = info["entries"]
    cat_vals = vals_of("cat_parts", 6 * len(entries)) if entries else []
    cat_samples = []
    unpinned = [e["name"] for e in entries if e["name"] not in ref]
    if not REF_V.exists() or REF_V.read_text() != render_reference(ref):
        report({"part": "reference", "kind": "reference-file"}, "coq/Model/CatalogueRefM.v is not the rendering of corpus/C16_reference.json",
               {"file": str(REF_V)}, found_input=False, theorem_or_case="C16_catalogue_matches_reference")
    for ei, e in enumerate(entries):
        parts = cat_vals[6 * ei + 1:6 * ei + 6] if cat_vals else [False] * 5
        ref_ok = cat_vals[6 * ei] if cat_vals else False
        rc = e["data"].get("ref_cmp") or {}
        refcase = {"part": "reference", "entry": e["name"], "payload": dict(e["args"], mode="entry", cls=e["cls"], ref=ref.get(e["name"]),
                                                                            oracle={"seed": run.seed, "nparams": 0, "npoints": 0, "ranges": T.ranges_for(e["cls"])})}
        if rc.get("fails"):
            f = rc["fails"][0]
            report({"part": "reference", "cls": e["cls"], "kind": "definition-changed"},
                   "C16: the coordinate expressions of %s are not the pinned reference definition of that mapping (component %s differs)" % (
                       e["name"], f.get("component")), dict(refcase, values=f.get("values")), observed=f,
                   required="the reference definition of the mapping (corpus/C16_reference.json, Model/CatalogueRefM.v), equal as functions of the "
                            "logical coordinates and parameters", theorem_or_case="C16_catalogue_matches_reference; oracle: exact evaluation")
        elif "err" in rc:
            report({"part": "reference", "kind": "oracle-error", "cls": e["cls"]}, "the reference comparison could not be evaluated on %s" % e["name"],
                   refcase, observed=rc, found_input=False, theorem_or_case="C16_catalogue_matches_reference")
        elif not ref_ok:
            report({"part": "reference", "kind": "not-proved", "cls": e["cls"]},
                   "the coordinate expressions of %s are no longer proved equal to the pinned reference definition and no differing input was found" % e["name"],
                   refcase, observed=rc, found_input=False, theorem_or_case="chk_ref reference E_%s" % e["name"])
        orc = e["data"].get("oracle") or {}
        stats["oracle_points"] += orc.get("tried", 0)
        stats["oracle_refused_points"] += orc.get("refused", 0)
        stats["catalogue_parts_true"] += sum(parts)
        if all(parts):
            stats["catalogue_entries_proved"] += 1
        cat_samples.append({"entry": e["name"], "build_s": e["data"]["build_s"], "parts_proved": parts, "matches_reference_proved": ref_ok,
                            "oracle": {k: orc.get(k) for k in ("tried", "refused")}, "reference_points": rc.get("tried")})
        case = {"part": "symbolic", "entry": e["name"], "payload": dict(e["args"], mode="oracle", cls=e["cls"], seed=run.seed, nparams=4, npoints=4,
                                                                        ranges=T.ranges_for(e["cls"]))}
        fails = orc.get("fails") or []
        if not all(parts) and not fails and "err" not in orc:
            # a check that no longer proves: search a concrete failing parameter set + point on the real object
            rr, _ = run.impl("C16_impl", {"cases": [dict(case["payload"], nparams=6, npoints=6, timeout=900)]}, timeout=1000)
            if rr and "fails" in rr["results"][0]:
                fails = rr["results"][0]["fails"]
        if fails:
            f = fails[0]
            report({"part": "symbolic", "cls": e["cls"], "quantity": f["bad"][0][0]},
                   "C16 fails on the implementation: the stored %s of %s is not coherent with the coordinate expressions" % (f["bad"][0][0], e["name"]),
                   dict(case, params=f["params"], point=f["point"]), observed=f["bad"],
                   required="J = d(expressions)/d(x_j), J*Jinv = I, metric = J^T J, metric_det = det(J^T J) (exact rational evaluation, 50 digits)",
                   theorem_or_case="oracle: coherence of %s; Coq parts %s" % (e["name"], parts))
        elif "err" in orc and all(parts):
            stats["oracle_unavailable_but_proved"] += 1      # the kernel-checked proof stands; the numeric oracle is only a search aid
        elif "err" in orc:
            report({"part": "symbolic", "kind": "oracle-error", "cls": e["cls"]}, "the coherence of %s is not proved and the oracle could not be evaluated" % e["name"],
                   case, observed=orc, found_input=False, theorem_or_case="oracle of %s" % e["name"])
        elif not all(parts):
            bad = [PARTS[i] for i, b in enumerate(parts) if not b]
            report({"part": "symbolic", "kind": "not-proved", "cls": e["cls"]},
                   "the coherence of %s is no longer proved (%s) and no failing parameter set / point was found" % (e["name"], "; ".join(bad)),
                   case, observed={"parts": parts}, found_input=False, theorem_or_case="check_parts E_%s (Gen/Catalogue.v)" % e["name"])
    for p in info["problems"]:
        report({"part": "translator", "problem": p[:60]}, "the catalogue translator failed closed: " + p, {"problem": p},
               found_input=False, theorem_or_case="translation_complete (Proofs/CatalogueP.v)")

    # ---------------- decide (A2), (C)
    eparts = {}
    for name, own in eindex:
        v = vals_of(name, sum(w for _, w in own))
        if v is None:
            continue
        pos = 0
        for ci, w in own:
            eparts[ci] = v[pos:pos + w]
            pos += w
    def frac_of(pv):
        import fractions
        if pv[0] in ("int", "npint"):
            return str(fractions.Fraction(int(pv[1])))
        if pv[0] == "rat":
            return str(fractions.Fraction(int(pv[1]), int(pv[2])))
        return str(fractions.Fraction(float(pv[1])))

    def check_props(c, props, case, want_params):
        """the symbolic information of the callable mapping: ldim / pdim / params / symbolic_mapping"""
        if props is None or "want_dims" not in c:
            return
        stats["callable_props_checked"] += 1
        l, p = c["want_dims"]
        bad = None
        if [props["ldim"], props["pdim"]] != [l, p] or props["symbolic_dims"] != [l, p]:
            bad = ("ldim/pdim", [props["ldim"], props["pdim"]], [l, p])
        elif props["params"] != want_params:
            bad = ("params", props["params"], want_params)
        elif not props["symbolic_is_mapping"]:
            bad = ("symbolic_mapping", "another object", "the mapping it was built from")
        elif props.get("cached") is False:
            bad = ("get_callable_mapping", "a new callable on the second call", "the cached one")
        if bad:
            report({"part": "callable-props", "quantity": bad[0]},
                   "C16 fails on the implementation: the callable mapping of %s exposes %s = %s, required %s" % (c["entry"], bad[0], bad[1], bad[2]),
                   case, observed=props, required="ldim, pdim of the symbolic mapping; params = the parameter values bound at construction of the "
                   "callable (name -> value); symbolic_mapping = the Mapping object", theorem_or_case="oracle:callable properties")

    numeric_hist = {}
    distinct = set()
    TAGS = {"user": "user", "supplied": "user-supplied", "abstract": "abstract", "catalogue-params": "param"}
    supplied_hist = {}

    def check_meta(c, r, case, tag):
        """what the object exposes besides the five quantities; returns True when the root cause of everything else was reported"""
        m = r.get("meta")
        if not m or "want_dims" not in c:
            return False
        stats["meta_checked"] += 1
        stats["dim_wrapped_cases"] += 1 if c.get("dim_as") not in (None, "int") else 0
        stats["custom_coordinate_cases"] += 1 if c.get("coordinates") else 0
        l, p = c["want_dims"]
        cls = c.get("cls", "user")
        if [m["ldim"], m["pdim"]] != [l, p]:
            report({"part": "ctor", "kind": "dimension", "dim_as": c.get("dim_as", "int")},
                   "C16 fails on the implementation: %s built with dimensions %s (given as %s) has ldim, pdim = %s" % (
                       c["entry"], [l, p], c.get("dim_as", "int"), [m["ldim"], m["pdim"]]), case, observed=m,
                   required="ldim, pdim = %s" % [l, p], theorem_or_case="oracle:constructor (dimension of length-1 tuple/list/Tuple = the number)")
            return True
        names = c.get("coordinates") or T.COORDS[:p]
        if m["coordinates"] != list(names) or not all(m["coordinates_real"]) or m["coordinates_seq"] != (p > 1):
            report({"part": "ctor", "kind": "coordinates", "custom": bool(c.get("coordinates"))},
                   "C16 fails on the implementation: the physical coordinates of %s are %s (real: %s, sequence: %s), required the real symbols %s" % (
                       c["entry"], m["coordinates"], m["coordinates_real"], m["coordinates_seq"], list(names)), case, observed=m,
                   required="real Symbols named %s (%s)" % (list(names), "a tuple" if p > 1 else "the symbol itself"),
                   theorem_or_case="oracle:constructor (coordinates=)")
        if m["logical"] != LOGI[:l] or not all(m["logical_real"]) or m["name"] != c.get("mname", "M"):
            report({"part": "ctor", "kind": "logical-coordinates-or-name"}, "C16: %s exposes logical coordinates %s / name %s" % (
                c["entry"], m["logical"], m["name"]), case, observed=m, required="x1.. real, name as given", theorem_or_case="oracle:constructor")
        if "copy_same" in r:
            stats["copies_checked"] += 1
            if not r["copy_same"]:
                report({"part": "ctor", "kind": "copy"}, "C16 fails on the implementation: the copy() of %s (built through evaluate=False) does not expose "
                       "the same expressions / Jacobian / inverse / metric / determinant" % c["entry"], case, observed=m,
                       required="identical stored quantities", theorem_or_case="oracle:constructor (evaluate=False + copy)")
        if m.get("stray_symbols"):
            if c["kind"] == "supplied":
                report({"part": "user-supplied", "kind": "supplied-matrix-not-read-like-expressions"},
                       "C16 fails on the implementation: the Jacobian / inverse supplied by class %s (%s) is not read like its coordinate "
                       "expressions: the stored quantities contain the symbols %s, which are neither the mapping's logical coordinates nor "
                       "the parameter objects / values of its expressions" % (c["entry"], c["supplied"], m["stray_symbols"]),
                       case, observed={"stray_symbols": m["stray_symbols"], "oracle": (r.get("oracle") or {}).get("fails", [])[:1],
                                       "numeric": {k: v for k, v in (r.get("numeric") or {}).items() if k in ("err", "msg")}},
                       required="stored Jacobian = derivative of the coordinate expressions, as expressions of the mapping's logical coordinates "
                                "and parameters; the callable mapping evaluates them",
                       theorem_or_case="oracle:user-supplied (symbols of the stored quantities); C16_supplied_sound")
            else:
                report({"part": tag, "kind": "stray-symbols", "cls": cls}, "C16: the stored quantities of %s contain foreign symbols %s" % (
                    c["entry"], m["stray_symbols"]), case, observed=m, required="only logical coordinates and parameters",
                    theorem_or_case="oracle:%s" % tag)
            return True
        return False

    def kinds_of(orc):
        return sorted({b[0] for f in (orc or {}).get("fails", []) for b in f["bad"]})

    for ci, (c, r) in enumerate(zip(all_cases, results)):
        if c.get("mode") != "full":
            continue
        is_user = c["kind"] in ("user", "supplied")
        tag = TAGS.get(c["kind"], "param")
        counter = {"user": "user_cases", "user-supplied": "supplied_cases", "abstract": "abstract_cases", "param": "param_cases"}[tag]
        case = {"part": tag, "entry": c["entry"], "payload": c}
        if r is None or r.get("runner"):
            report({"kind": "runner-crash"}, "implementation runner crashed", {"log": (r or {}).get("crash", "")[-1500:]},
                   found_input=False, theorem_or_case="C16 runner")
            continue
        if "timeout" in r:
            stats["timeouts"] += 1
            skipped.append("%s (%s parameters): timeout %ss" % (c["entry"], c.get("param_kind"), r["timeout"]))
            continue
        if "crash" in r:
            if is_user and ("NonInvertible" in r["crash"] or "ZeroDivision" in r["crash"]):
                stats["degenerate_user_mappings"] += 1
                continue
            if c.get("coord_as") in ("symbols", "mixed", "Tuple") and r.get("errkind") == "TypeError":
                report({"part": "ctor", "kind": "coordinates-given-as-symbols"},
                       "C16 fails on the implementation: %s cannot be built with coordinates= given as Symbol objects (%s), which the "
                       "constructor's own type check admits: %s" % (c["entry"], c["coordinates"], r["crash"].strip().splitlines()[-1][:160]),
                       case, observed=r["crash"][-800:], required="the mapping with real coordinate symbols of these names",
                       theorem_or_case="oracle:constructor (coordinates= : str or Symbol)")
                continue
            report({"part": tag, "kind": "exception", "cls": c.get("cls", "user"), "err": r.get("errkind")},
                   "building / evaluating %s raised %s" % (c["entry"], r["crash"].strip().splitlines()[-1][:200]), case,
                   observed=r["crash"][-800:], required="a mapping object with coherent stored quantities",
                   theorem_or_case="oracle:%s" % tag)
            continue
        stats[counter] += 1
        if check_meta(c, r, case, tag):
            continue
        ent = r.get("entry")
        orc = r.get("oracle") or {}
        stats["oracle_points"] += orc.get("tried", 0)
        stats["oracle_refused_points"] += orc.get("refused", 0)
        if ent is not None and "err" in ent:
            stats["unsupported_node"] += 1
            skipped.append("%s (%s parameters): symbolic check not applicable, %s" % (c["entry"], c.get("param_kind"), ent.get("msg", "")[:80]))
        proved_key = {"user": "user_cases_proved", "user-supplied": "supplied_cases_proved", "abstract": "abstract_cases_proved",
                      "param": "param_cases_proved"}[tag]
        if c["kind"] == "supplied":
            # [plan/shape; stored = supplied; J Jinv = I; metric; det; J = d expr]: what the arm guarantees / what a consistent class adds
            mode, planted = c["supplied"], c.get("planted")
            key = "%s/%s" % (mode, "planted-" + planted if planted else "consistent")
            supplied_hist[key] = supplied_hist.get(key, 0) + 1
            inner = r.get("internal") or {}
            stats["oracle_points"] += inner.get("tried", 0)
            want_parts = [True, True, not (mode == "both" and planted), True, True, not planted or (mode == "both" and planted == "inv")]
            kin, kref = kinds_of(inner), kinds_of(orc)
            allowed_in = ["jinv"] if (mode == "both" and planted) else []
            broken = [k for k in kin if k not in allowed_in and not k.startswith("given-")]
            replaced = [k for k in kin if k.startswith("given-")]
            if "err" in orc or "err" in inner:
                report({"part": tag, "kind": "oracle-error"}, "the oracle could not be evaluated on %s" % c["entry"], case,
                       observed={"oracle": orc, "internal": inner}, found_input=False, theorem_or_case="oracle:user-supplied")
                continue
            if planted:
                stats["supplied_inconsistent"] += 1
            if broken or (not planted and kref):
                f = (inner.get("fails") or orc.get("fails"))[0]
                q = (broken or kref)[0]
                report({"part": tag, "supplied": mode, "consistent": not planted, "quantity": q},
                       "C16 fails on the implementation: class %s supplies %s (%s); the stored %s of the object is not coherent with %s" % (
                           c["entry"], {"jac": "_jac", "inv": "_inv_jac", "both": "_jac and _inv_jac"}[mode],
                           "consistent with its expressions" if not planted else "one entry changed: inconsistent class",
                           q, "the coordinate expressions" if not planted else "the stored Jacobian (a second inconsistency)"),
                       dict(case, params=f["params"], point=f["point"]), observed={"against_expressions": kref, "internal": kin, "bad": f["bad"]},
                       required="consistent class: J = d(expressions), J*Jinv = I, metric = J^T J, det; inconsistent class: the supplied matrix "
                                "is exposed unchanged, the derived inverse / metric / determinant are those of the STORED Jacobian",
                       theorem_or_case="oracle:user-supplied; C16_supplied_sound / C16_supplied_inconsistent_kept")
                continue
            if replaced:
                report({"part": tag, "kind": "stored-differs-from-supplied", "supplied": mode},
                       "the object built from class %s does not expose the matrix the class supplied (%s), but its quantities are coherent among "
                       "themselves: the model of the arm (stored = supplied) disagrees with the implementation" % (c["entry"], replaced),
                       case, observed=inner.get("fails", [])[:1], found_input=False,
                       theorem_or_case="correspondence CatalogueM.chk_supplied vs Mapping.__new__ (arms _jac / _inv_jac)")
                continue
            if planted and ("jinv" if (mode == "both" and planted == "inv") else "jac") not in kref:
                report({"part": tag, "kind": "planted-inconsistency-not-visible", "supplied": mode},
                       "the inconsistent matrix supplied by %s is not visible in what the object exposes" % c["entry"], case,
                       observed={"against_expressions": kref}, found_input=False, theorem_or_case="oracle:user-supplied (generator)")
                continue
            if planted:
                stats["supplied_inconsistent_kept_oracle"] += 1
            if ci in eparts:
                got = eparts[ci]
                need = [g for g, w in zip(got, want_parts) if w]
                if all(need):
                    stats[proved_key] += 1
                    if planted and not got[5]:
                        stats["supplied_inconsistent_kept_proved"] += 1
                else:
                    stats["checker_incomplete"] += 1
                    incomplete_list.append({"entry": c["entry"], "param_kind": c.get("param_kind"), "parts": got, "expected": want_parts,
                                            "supplied": key, "expressions": c["user"]["expressions"]})
                if ent and entry_nontrivial(ent):
                    distinct.add(canon_hash(["sup", mode, planted, ent["expr"], ent["mdet"]]))
        elif orc.get("fails"):
            f = orc["fails"][0]
            report({"part": tag, "cls": c.get("cls", "user"), "quantity": f["bad"][0][0]},
                   "C16 fails on the implementation: the stored %s of %s is not coherent" % (f["bad"][0][0], c["entry"]),
                   dict(case, params=f["params"], point=f["point"]), observed=f["bad"],
                   required="exact rational evaluation: J = d(expressions), J*Jinv = I, metric = J^T J, det = det(J^T J)",
                   theorem_or_case="oracle:%s" % tag)
        elif "err" in orc and ci in eparts and all(eparts[ci]):
            stats["oracle_unavailable_but_proved"] += 1
            stats[proved_key] += 1
        elif "err" in orc:
            report({"part": tag, "kind": "oracle-error", "cls": c.get("cls", "user")}, "the coherence of %s is not proved and the oracle could not be evaluated" % c["entry"],
                   case, observed=orc, found_input=False, theorem_or_case="oracle:%s" % tag)
        elif ci in eparts:
            if all(eparts[ci]):
                stats[proved_key] += 1
            elif tag == "abstract":
                report({"part": tag, "kind": "not-proved"}, "the coherence of the stored quantities of the mapping without expressions %s is not proved "
                       "(a field identity over the atoms d M[i]/d x_j) although the exact oracle found nothing" % c["entry"], case,
                       observed={"parts": eparts[ci]}, found_input=False, theorem_or_case="check_parts (abstract mapping)")
            else:
                stats["checker_incomplete"] += 1
                incomplete_list.append({"entry": c["entry"], "param_kind": c.get("param_kind"), "parts": eparts[ci],
                                        "expressions": c.get("user", {}).get("expressions")})
            if ent and entry_nontrivial(ent):
                distinct.add(canon_hash(ent["expr"] + [ent["mdet"]]))
        num = r.get("numeric")
        if num is not None:
            fl = any(v[0] in ("float", "npfloat") for v in (c.get("params") or {}).values())
            if "err" in num:
                report({"part": "numeric", "kind": "exception", "cls": c.get("cls", "user"), "err": num["err"]},
                       "the callable mapping of %s raised %s" % (c["entry"], num["msg"].strip().splitlines()[-1][:200]), case,
                       observed=num["msg"][-800:], required="values of the mapping, Jacobian, inverse, metric, determinant",
                       theorem_or_case="sampling:numeric")
                continue
            check_props(c, num.get("props"), case, {})
            stats["numeric_cases"] += 1
            stats["float_param_cases"] += 1 if fl else 0
            stats["numeric_points"] += num["points"]
            stats["numeric_values_compared"] += num["compared"]
            for q, w in num["worst"].items():
                b = "<=1e-14" if w <= 1e-14 else "<=1e-12" if w <= 1e-12 else "<=1e-9" if w <= 1e-9 else ">1e-9"
                numeric_hist.setdefault(q, {}).setdefault(b, 0)
                numeric_hist[q][b] += 1
            seen_q = set()
            for f in num["fails"]:
                if f["quantity"] in seen_q:
                    continue
                seen_q.add(f["quantity"])
                sig = {"part": "numeric", "cls": c.get("cls", "user"), "quantity": f["quantity"],
                       "param_kind": "float" if fl else "exact", "what": "shape" if "want_shape" in f else "value"}
                report(sig, "C16 fails on the implementation: the callable mapping of %s returns a wrong %s (%s parameters)" % (
                    c["entry"], f["quantity"], sig["param_kind"]), dict(case, failing=f), observed=f,
                    required="|value - exact| <= 1e-9 (1+|exact|) kappa with the exact value from sympy.diff of the coordinate expressions at "
                             "the exact rational point (40 digits); shape = component shape + broadcast shape",
                    theorem_or_case="sampling:numeric (no theorem covers floating-point values)")

    # ---------------- decide (B)
    svals = {}
    for name, own in sindex:
        v = vals_of(name, len(own))
        if v is None:
            continue
        for (ci, lab), b in zip(own, v):
            svals.setdefault(ci, []).append((lab, b))
    shape_hist = {}
    for ci, (c, r) in enumerate(zip(all_cases, results)):
        if c.get("mode") != "shape":
            continue
        case = {"part": "shape", "payload": c}
        if r is None or "crash" in r or "timeout" in r:
            if r and "timeout" in r:
                stats["timeouts"] += 1
                continue
            report({"part": "shape", "kind": "exception", "call": c["kind"]}, "shape run crashed: %s" % ((r or {}).get("crash", "")[-300:]), case,
                   observed=(r or {}).get("crash", "")[-800:], required="shape or refusal", theorem_or_case="oracle:shape")
            continue
        agree = all(b for _, b in svals.get(ci, []))
        if c["kind"] == "numpy":
            stats["shape_numpy"] += 1
            if r["broadcast"] is None:
                stats["shape_refusals"] += 1
            if not agree:
                report({"part": "shape", "kind": "model-vs-numpy"}, "the broadcasting model disagrees with numpy", case, observed=r,
                       found_input=False, theorem_or_case="correspondence BroadcastM.broadcast/assignable vs numpy")
            else:
                stats["shape_model_agree"] += 1
            distinct.add(canon_hash(["np", c["shapes"]])) if len({tuple(s) for s in c["shapes"]}) >= 2 else None
        elif c["kind"] == "lambdify":
            stats["shape_lambdify"] += 1
            key = "scalar" if c["cshape"] == [] else "array%dd" % len(c["cshape"])
            shape_hist[key] = shape_hist.get(key, 0) + 1
            if any(not any(m) for m in c["masks"]):
                shape_hist["with_constant_component"] = shape_hist.get("with_constant_component", 0) + 1
            if any(any(m) and not all(m) for m in c["masks"]):
                shape_hist["with_component_ignoring_variables"] = shape_hist.get("with_component_ignoring_variables", 0) + 1
            sig = None
            if "err" in r:
                if r["err"] == "refused:broadcast":
                    stats["shape_refusals"] += 1
                else:
                    sig, msg = {"part": "shape", "kind": "exception", "call": "lambdify_sympde", "err": r["err"]}, "lambdify_sympde raised %s: %s" % (r["err"], r.get("msg"))
            elif r.get("oracle") == "should-have-refused":
                sig, msg = {"part": "shape", "kind": "accepted-unbroadcastable", "call": "lambdify_sympde"}, "lambdify_sympde accepted inputs that do not broadcast"
            elif r.get("oracle") != "ok":
                sig, msg = {"part": "shape", "kind": "wrong-shape-or-value", "call": "lambdify_sympde", "scalar": c["cshape"] == [],
                            "constant_component": any(not any(m) for m in c["masks"])}, \
                    "lambdify_sympde returned shape %s, required %s (component shape + broadcast shape)" % (r.get("shape"), r.get("want_shape"))
            if sig:
                small = shrink_lambdify(run, c) if not replay else c
                rr, _ = run.impl("C16_impl", {"cases": [small]})
                report(sig, "C16 fails on the implementation: " + msg, {"part": "shape", "payload": small},
                       observed=(rr or {}).get("results", [None])[0], required="output shape = component shape ++ np.broadcast_shapes(inputs); values = elementwise evaluation",
                       theorem_or_case="oracle:shape (C16_scalar_wrapper_shape / C16_array_wrapper_shape)")
            elif not agree:
                report({"part": "shape", "kind": "model-vs-impl", "call": "lambdify_sympde"}, "the wrapper model disagrees with lambdify_sympde but the property oracle holds",
                       case, observed=r, found_input=False, theorem_or_case="correspondence BroadcastM.wrap_scalar/wrap_array vs lambdify_sympde")
            else:
                stats["shape_model_agree"] += 1
            if len({tuple(spec_shape(s)) for s in c["inputs"]}) >= 2 or c["cshape"]:
                distinct.add(canon_hash(["lam", c["cshape"], c["masks"], [spec_shape(s) for s in c["inputs"]]]))
        else:
            import itertools
            for ri, (specs, rr) in enumerate(zip(c["input_sets"], r["runs"])):
                stats["shape_callable_runs"] += 1
                b = rr["broadcast"]
                l, p = r["ldim"], r["pdim"]
                want = {"call": [b] * p, "jacobian": [p, l] + (b or []), "jacobian_inv": [l, p] + (b or []), "metric": [l, l] + (b or []),
                        "metric_det": b}
                bad = None
                for q in ("call", "jacobian", "jacobian_inv", "metric", "metric_det"):
                    if q not in rr:
                        continue
                    v = rr[q]
                    if b is None:
                        if not (isinstance(v, dict) and v["err"] == "refused:broadcast"):
                            bad = (q, v, "refusal (inputs do not broadcast)")
                    elif isinstance(v, dict):
                        bad = (q, v, want[q])
                    elif v != want[q]:
                        bad = (q, v, want[q])
                    elif rr.get(q + ":values") is False:
                        bad = (q, "values differ from the scalar calls", "same values as at each point")
                    if bad:
                        break
                if b is None:
                    stats["shape_refusals"] += 1
                if bad:
                    report({"part": "shape", "kind": "callable", "cls": c["cls"], "quantity": bad[0]},
                           "C16 fails on the implementation: %s.%s on input shapes %s gives %s, required %s" % (
                               c["entry"], bad[0], [spec_shape(s) for s in specs], bad[1], bad[2]),
                           {"part": "shape", "payload": dict(c, input_sets=[specs])}, observed=rr, required=str(bad[2]),
                           theorem_or_case="oracle:shape (C16_callable_shapes)")
                elif not dict(svals.get(ci, [])).get("callable:%d" % ri, True):
                    report({"part": "shape", "kind": "model-vs-impl", "call": "get_callable_mapping"},
                           "the callable-mapping shape model disagrees with the implementation but the property oracle holds",
                           {"part": "shape", "payload": dict(c, input_sets=[specs])}, observed=rr, found_input=False,
                           theorem_or_case="correspondence BroadcastM.callable vs CallableMapping")
                else:
                    stats["shape_model_agree"] += 1
                distinct.add(canon_hash(["call", c["entry"], [spec_shape(s) for s in specs]]))

    # ---------------- replayed reference cases
    for ci, (c, r) in enumerate(zip(all_cases, results)):
        if c.get("mode") == "entry" and r and (r.get("ref_cmp") or {}).get("fails"):
            f = r["ref_cmp"]["fails"][0]
            report({"part": "reference", "cls": c.get("cls"), "kind": "definition-changed"},
                   "C16: the coordinate expressions of %s are not the pinned reference definition" % c.get("cls"),
                   {"part": "reference", "payload": c, "values": f.get("values")}, observed=f, required="the reference definition",
                   theorem_or_case="C16_catalogue_matches_reference")

    # ---------------- replayed symbolic-oracle cases
    for ci, (c, r) in enumerate(zip(all_cases, results)):
        if c.get("mode") == "oracle" and r and r.get("fails"):
            f = r["fails"][0]
            report({"part": "symbolic", "cls": c.get("cls", "user"), "quantity": f["bad"][0][0]},
                   "C16 fails on the implementation: the stored %s of %s is not coherent" % (f["bad"][0][0], c.get("cls")),
                   {"part": "symbolic", "payload": c, "params": f["params"], "point": f["point"]}, observed=f["bad"],
                   required="exact rational evaluation: J = d(expressions), J*Jinv = I, metric = J^T J, det = det(J^T J)",
                   theorem_or_case="oracle: coherence")

    # ---------------- probes
    for ci, (c, r) in enumerate(zip(all_cases, results)):
        if c.get("mode") != "probe":
            continue
        if r is None or "crash" in r or r.get("ok") is False:
            surface = bool(c.get("want_dims")) and c["want_dims"][0] < c["want_dims"][1]
            report({"part": "numeric", "call": "CallableMapping(mapping, **params)", "kind": "params-not-bound", "surface_or_curve": surface},
                   "C16 fails on the implementation: CallableMapping(mapping, **params) on a mapping whose parameters were left symbolic does not "
                   "bind the parameters (%s)" % ((r or {}).get("what") or (r or {}).get("crash", "").strip().splitlines()[-1][:160]),
                   {"part": "probe", "payload": c}, observed=r, required="the values of the mapping with the given parameters",
                   theorem_or_case="sampling:numeric (parameter substitution of CallableMapping)")
        elif c.get("kind") == "callable-kwargs" and "want_dims" in c:
            stats["kwargs_probes"] += 1
            num = r.get("numeric") or {}
            case = {"part": "probe", "payload": c}
            if "err" in num:
                report({"part": "numeric", "call": "CallableMapping(mapping, **params)", "kind": "exception", "err": num["err"]},
                       "CallableMapping(mapping, **params) of %s raised %s" % (c["entry"], num["msg"].strip().splitlines()[-1][:200]), case,
                       observed=num["msg"][-800:], required="values of all five quantities", theorem_or_case="sampling:numeric")
                continue
            stats["kwargs_probe_values"] += num.get("compared", 0)
            stats["numeric_values_compared"] += num.get("compared", 0)
            if num.get("fails"):
                f = num["fails"][0]
                report({"part": "numeric", "call": "CallableMapping(mapping, **params)", "quantity": f["quantity"],
                        "what": "shape" if "want_shape" in f else "value"},
                       "C16 fails on the implementation: CallableMapping(mapping, **params) of %s returns a wrong %s" % (c["entry"], f["quantity"]),
                       dict(case, failing=f), observed=f, required="the values of the mapping built with these parameters",
                       theorem_or_case="sampling:numeric (parameter substitution of CallableMapping)")
            check_props(c, num.get("props"), case, {k: frac_of(v) for k, v in c["params"].items()})

    # ---------------- the constructor as a small enum
    for ci, (c, r) in enumerate(zip(all_cases, results)):
        if c.get("mode") != "ctor":
            continue
        stats["ctor_cases"] += 1
        want = ctor_expected(c)
        got = "crash" if (r is None or "crash" in r or "timeout" in r) else r.get("outcome")
        case = {"part": "ctor", "payload": c}
        detail = None
        if got == "TypeError" and want == "ok" and c.get("coord_as") in ("symbols", "mixed", "Tuple"):
            report({"part": "ctor", "kind": "coordinates-given-as-symbols"},
                   "C16 fails on the implementation: %s cannot be built with coordinates= given as Symbol objects (%s), which the constructor's own "
                   "type check admits" % (c["cls"], c["coordinates"]), case, observed=r, required="the mapping with real coordinate symbols of these names",
                   theorem_or_case="oracle:constructor (coordinates= : str or Symbol)")
            continue
        if got != want:
            detail = "outcome %s, required %s" % (got, want)
        elif want == "unevaluated" and not (r["jac_none"] and r["metric_none"] and r["expressions_raw"]):
            detail = "evaluate=False computed stored quantities: %s" % r
        elif want == "ok":
            d = ctor_dims(c)
            m = r["meta"]
            if d and [m["ldim"], m["pdim"]] != d:
                detail = "ldim, pdim = %s, required %s" % ([m["ldim"], m["pdim"]], d)
            names = (c.get("raw") or {}).get("coordinates") or c.get("coordinates")
            if names and (m["coordinates"] != names or not all(m["coordinates_real"]) or m["coordinates_seq"] != (len(names) > 1)):
                detail = "coordinates %s (real %s), required %s" % (m["coordinates"], m["coordinates_real"], names)
        if detail:
            report({"part": "ctor", "kind": "constructor-enum", "want": want, "got": got},
                   "C16: Mapping.__new__(%s, %s): %s" % (c["cls"], {k: v for k, v in c.items() if k in ("dim", "raw", "evaluate")}, detail), case,
                   observed=r if not (r and "crash" in r) else r["crash"][-600:], required=want, found_input=(got != "crash"),
                   theorem_or_case="oracle:constructor (refusals as an enum: dimension wrappers of length 1, coordinates= types, evaluate=False)")
        else:
            stats["ctor_agree"] += 1

    if not proof_ok:
        fo = run.failing_obligation()
        report({"kind": "proof"}, "a proof obligation of Props/C16.v no longer checks", fo,
               found_input=False, theorem_or_case="%s (%s)" % (fo["lemma"], fo["where"]))

    # ---------------- evidence
    nfull = stats["param_cases"] + stats["user_cases"]
    evaluations = 6 * len(entries) + sum(len(v) for v in eparts.values()) + stats["ctor_cases"] + stats["meta_checked"] + stats["callable_props_checked"] + sum(len(v) for v in svals.values()) + stats["numeric_values_compared"] + stats["oracle_points"]
    for e in entries:
        if entry_nontrivial(e["data"]):
            distinct.add(canon_hash(["cat", e["name"]]))
    cov = {
        "evaluations": int(evaluations),
        "distinct_nontrivial": len(distinct),
        "rule": "evaluations = boolean checks evaluated inside Coq (5 per catalogue entry / per concrete-parameter object / per user subclass / "
                "per mapping without expressions, 6 per class that supplies its own matrices; one per shape comparison) + constructor-enum "
                "cases + objects whose dimensions / coordinates / symbols were compared + callable-property comparisons "
                "+ exact-oracle points + floating-point values compared; non-trivial = a mapping whose coordinate "
                "expressions contain an elementary function or >= 3 atoms, a shape case with >= 2 different input shapes or an array-valued "
                "expression, a callable-mapping shape run; distinct = canonical hash of (expressions, determinant) resp. (component shape, "
                "masks, input shapes)",
        "exhaustive": True,
        "exhaustive_scope": "part (A): the finite family catalogue class x admissible dimension (%d entries, listed in catalogue) is enumerated "
                            "completely on every run; parts (A2), (B) correspondence and (C) numeric are samples" % len(entries),
        "catalogue": cat_samples,
        "catalogue_classes": [c["name"] for c in classes],
        "catalogue_translator": {"seconds": info["seconds"], "problems": info["problems"], "rewritten": info["changed"], "ast_problems": ast_problems},
        "entries_skipped": skipped,
        "entries_without_reference_pin": unpinned,
        "timeline": timeline,
        "numeric_only_entries": [],
        "traces_validated_against_impl": stats["catalogue_entries_proved"] + stats["param_cases_proved"] + stats["user_cases_proved"] + stats["shape_model_agree"]
        + stats["supplied_cases_proved"] + stats["abstract_cases_proved"] + stats["ctor_agree"],
        "supplied_matrix_cases": supplied_hist,
        "constructor_variants": {"dim_as": {k: sum(1 for c in all_cases if c.get("dim_as") == k) for k in ("int", "tuple", "list", "Tuple", "Matrix")},
                                 "coord_as": {k: sum(1 for c in all_cases if c.get("coord_as") == k) for k in ("list", "tuple", "Tuple", "symbols", "mixed")},
                                 "surfaces_or_curves": sum(1 for c in all_cases if c.get("want_dims") and c["want_dims"][0] < c["want_dims"][1])},
        "decisions": stats,
        "checker_incomplete_cases": incomplete_list[:20],
        "numeric_part": {"label": "SAMPLING (no theorem covers floating-point evaluation)", "tolerance": "|a-b| <= 1e-9 (1+|b|) kappa(J for the inverse)",
                         "worst_relative_error_histogram": numeric_hist},
        "shape_case_kinds": shape_hist,
        "param_kinds": {k: sum(1 for c in all_cases if c.get("param_kind") == k) for k in sorted({c.get("param_kind") for c in all_cases if c.get("param_kind")})},
        "samples": [{k: v for k, v in c.items() if k not in ("points", "grids")} for c in
                    ([c for c in all_cases if c.get("kind") == "user"][:2] + [c for c in all_cases if c.get("kind") == "lambdify"][:2]
                     + [c for c in all_cases if c.get("kind") == "catalogue-params"][:1])] or [{"entries": [e["name"] for e in entries]}],
        "trusted_base": [
            "tools/translate/catalogue.py (ast recognition of analytical_mapping.py, cross-checked against the imported module; fail-closed), "
            "tools/impl/C16_impl.py (serialiser ser16: b**(k/2) written as sqrt(b)**k, exact binary floats as rationals, pi as a symbolic "
            "constant; oracles), tools/impl/ser.py, tools/props/C16.py, tools/exprlib.py",
            "sympy's own arithmetic (Matrix.inv, det, subs, diff) is what is being checked on the stored results, not trusted; sympy.diff and "
            "sympy.N (40-50 digits) are trusted in the numeric oracle",
            "numpy's elementwise evaluation rule for lambdified expressions (a component's value has the broadcast shape of the inputs it mentions)",
            "DESIGN 4.2: a differential field (record dfield) as the reading of 'all parameter values and all points'; the relations "
            "sin^2+cos^2=1, sqrt(a)^2=a, sqrt(k^2 a)=k sqrt(a) are hypotheses of the theorems (true of the real functions on their domains)",
        ],
    }
    assumptions = [
        "Part (A) theorem: Gen/Catalogue.v is what tools/translate/catalogue.py read from the REAL objects of this run's working tree "
        "(symbolic parameters); the translator is trusted, fails closed, and is exercised by the exact numeric oracle on the same objects.",
        "The semantic statement holds where the side conditions hold (expressions defined, sin/sqrt compositions exist, the listed "
        "denominators do not vanish): e.g. x1 <> 0 for the polar-type mappings.",
        "Part (B) theorems are about coq/Model/BroadcastM.v; the tie to sympde/utilities/utils.py and callable_mapping.py is this run's "
        "correspondence on random shapes (decided inside Coq) plus the shape oracle against numpy.",
        "Part (C) is sampling: floating-point values cannot be the subject of a theorem here; jacobian_inv of the non-square (surface) "
        "mappings is None in the implementation and is not checked.",
        "tequiv=false is 'not proved': concrete-parameter objects / user subclasses whose check does not evaluate to true are decided by "
        "the exact numeric oracle only and counted as checker_incomplete (no alarm).",
        "Classes that supply _jac / _inv_jac: the property quantifies over consistent definitions; for an INCONSISTENT class (planted "
        "entry) nothing in the code validates the matrix and the property demands nothing but that the object is not made incoherent a "
        "second time: it exposes the supplied matrix unchanged with the inverse / metric / determinant of that matrix (in the arm that "
        "takes both matrices, both are stored as given). The supplied matrices enter the Coq check in the runner's own reading of the "
        "strings (names matched, simultaneous replacement), independent of Mapping.__new__.",
        "A surface / curve class that supplies an inverse (l x p) matrix is not generated (Mapping.__new__ would store it, the model's "
        "shape check expects no inverse for pdim > ldim).",
    ]
    return run.finish(cov, assumptions)


def shrink_lambdify(run, c):
    """Greedy reduction of a failing lambdify_sympde shape case: fewer inputs / components, smaller shapes."""
    def fails(x):
        r, _ = run.impl("C16_impl", {"cases": [x]})
        if not r:
            return False
        r = r["results"][0]
        if "crash" in r:
            return False
        if "err" in r:
            return r["err"] != "refused:broadcast"
        return r.get("oracle") != "ok"
    best = copy.deepcopy(c)
    budget = 14
    changed = True
    while changed and budget > 0:
        changed = False
        cands = []
        if best["cshape"] != []:
            for k in range(len(best["masks"])):
                cands.append(dict(best, cshape=[], masks=[best["masks"][k]]))
        for i in range(len(best["inputs"])):
            if len(best["inputs"]) > 1:
                cands.append(dict(best, inputs=best["inputs"][:i] + best["inputs"][i + 1:],
                                  masks=[m[:i] + m[i + 1:] for m in best["masks"]]))
            s = best["inputs"][i]
            if s["t"] == "arr" and len(s["shape"]) > 1:
                cands.append(dict(best, inputs=best["inputs"][:i] + [dict(s, shape=s["shape"][1:])] + best["inputs"][i + 1:]))
            if s["t"] == "arr" and any(d > 2 for d in s["shape"]):
                cands.append(dict(best, inputs=best["inputs"][:i] + [dict(s, shape=[min(d, 2) for d in s["shape"]])] + best["inputs"][i + 1:]))
        for cand in cands:
            budget -= 1
            if budget <= 0:
                break
            if fails(cand):
                best = cand
                changed = True
                break
    return best


if __name__ == "__main__":
    import sys
    if "--write-reference" in sys.argv:
        write_reference()
