"""C08 - The linearity verdict at form construction is exact.

theorems      : coq/Props/C08.v  (crit_sound: the degree criterion implies additivity and homogeneity in every
                field of characteristic 0 / every differential field; verdict_exact: the model of
                is_linear_expression decides exactly the criterion; completeness per rejected case by a
                kernel-checked rational counter-example)
correspondence: integrands generated WITH THEIR LABEL (linear by construction, or with one planted violation);
                the real LinearForm / BilinearForm accept / refuse vs the model's verdict on the lowered
                integrands (computed inside Coq) vs the label
oracles       : (i) a rational valuation on which additivity or homogeneity fails, checked by vm_compute in Coq
                (qviolates), (ii) explicit polynomials for every field + sympy.diff, evaluated at rational points
                (implementation side, independent of the model)
"""
import copy
import json
import re
from fractions import Fraction

from vlib import coq_list, coq_str, canon_hash
import exprlib as X

HEADER = """From Coq Require Import String ZArith QArith List Bool.
From V Require Import Core.Terminal Core.SExpr Model.LinearityM.
Import ListNotations. Open Scope nat_scope. Open Scope string_scope.
Set Printing Width 1000000. Set Printing Depth 1000000.
Definition vcode (v : verdict) : nat := match v with Accepted => 0 | RefusedLinearity => 1 end.
Definition forms (l : list sx) : list texpr := map sx2t l.
Definition chkL (tests : list string) (l : list sx) : nat :=
  vcode (linear_form tests (forms l)) + 2 * vcode (spec_linear_form tests (forms l)).
Definition chkB (trials tests : list string) (l : list sx) : nat :=
  vcode (bilinear_form trials tests (forms l)) + 2 * vcode (spec_bilinear_form trials tests (forms l)).
(* spec only: the model verdict is equal to it by theorem C08_linear_form_exact / C08_bilinear_form_exact *)
Definition chkLs (tests : list string) (l : list sx) : nat := 3 * vcode (spec_linear_form tests (forms l)).
Definition chkBs (trials tests : list string) (l : list sx) : nat := 3 * vcode (spec_bilinear_form trials tests (forms l)).
Definition critn (args : list string) (e : sx) : nat := if crit args (xexpand (sx2t e)) then 1 else 0.
Definition wit (args : list string) (e : sx) (base v1 v2 : list (atom * Q)) (c : Q) : nat :=
  if qviolates args (sx2t e) base v1 v2 c then 1 else 0.
"""

# ------------------------------------------------------------------------------------------ gx constructors
def num(p, q=1):
    return {"k": "num", "p": p, "q": q}


def mul(*a):
    a = [x for x in a if x is not None]
    return a[0] if len(a) == 1 else {"k": "mul", "a": list(a)}


def add(*a):
    return a[0] if len(a) == 1 else {"k": "add", "a": list(a)}


def pw(b, e):
    return {"k": "pow", "b": b, "e": e}


def op(name, *a):
    return {"k": "op", "name": name, "a": list(a)}


def fn(f, a):
    return {"k": "fn", "f": f, "a": a}


def dd(i, a):
    return {"k": "d", "i": i, "a": a}


NORMAL = {"k": "normal"}


class Gen:
    """Typed generator of integrands with their label."""

    def __init__(self, rng, dim, deep):
        self.r, self.dim, self.deep = rng, dim, deep
        self.spaces = {}

    # ---- leaves
    def sf(self, n):
        self.spaces[n] = "s"
        return {"k": "sf", "name": n}

    def vf(self, n):
        self.spaces[n] = "v"
        return {"k": "vf", "name": n}

    def comp(self, n, i):
        self.spaces[n] = "v"
        return {"k": "comp", "of": n, "i": i}

    def coord(self):
        return {"k": "coord", "i": self.r.randrange(self.dim)}

    def const(self):
        # "eps" and "alpha" are the stems of the auxiliary names of linearize / is_linear_expression
        # (eps_<tag>, alpha_<tag>): a user constant with such a name must stay an ordinary constant
        return {"k": "const", "name": self.r.choice(["kappa", "mu", "kappa", "mu", "eps", "alpha"])}

    def number(self):
        r = self.r
        return num(r.choice([1, -1, 3, 5]), r.choice([2, 3])) if r.random() < 0.3 else num(r.choice([2, 3, -1, -2, 5]))

    # ---- coefficients (free of every argument)
    def cleaf(self):
        r = self.r
        c = r.random()
        if c < 0.25:
            return self.sf(r.choice(["f", "g"]))
        if c < 0.40:
            return self.coord()
        if c < 0.52:
            return self.const()
        if c < 0.64:
            return self.number()
        if c < 0.78:
            return self.comp(r.choice(["A", "B"]), r.randrange(self.dim))
        return dd(r.randrange(self.dim), self.sf(r.choice(["f", "g"])))

    def coef(self, depth):
        r = self.r
        if depth <= 0 or r.random() < 0.35:
            return self.cleaf()
        c = r.random()
        if c < 0.22:
            return mul(self.coef(depth - 1), self.coef(depth - 1))
        if c < 0.36:
            return add(self.coef(depth - 1), self.coef(depth - 1))
        if c < 0.46:
            return pw(self.coef(depth - 1), num(r.choice([2, 3])))
        if c < 0.58:
            return pw(add(num(1), pw(self.coef(depth - 1), num(2))), num(r.choice([-1, -2])))
        if c < 0.64:
            return pw(add(num(1), pw(self.coef(depth - 1), num(2))), num(r.choice([1, -1]), 2))
        if c < 0.68:
            # 1 / sqrt(1 + |grad f|^2), 1 / (1 + A.B): a Dot node directly below a negative / fractional power
            return pw(add(num(1), op("dot", self.vcoef(0), self.vcoef(0))), r.choice([num(-1, 2), num(-1), num(1, 2)]))
        if c < 0.80:
            return fn(r.choice(["sin", "cos", "exp"]), self.cleaf())
        if c < 0.86:
            return pw(self.sf(r.choice(["f", "g"])), self.const())
        if c < 0.94:
            return op("dot", self.vcoef(depth - 1), self.vcoef(depth - 1))
        return op("div", self.vcoef(0))

    def vcoef(self, depth):
        r = self.r
        c = r.random()
        if depth <= 0 or c < 0.4:
            return self.vf(r.choice(["A", "B"]))
        if c < 0.6:
            return op("grad", self.sf(r.choice(["f", "g"])))
        if c < 0.72:
            return {"k": "tuple", "a": [self.cleaf() for _ in range(self.dim)]}
        if c < 0.82:
            return mul(self.cleaf(), self.vf(r.choice(["A", "B"])))
        if c < 0.90:
            return add(self.vcoef(depth - 1), self.vcoef(depth - 1))
        if self.dim == 2:
            return op("rot", self.sf(r.choice(["f", "g"])))
        if self.dim == 3:
            return op("curl", self.vf(r.choice(["A", "B"])))
        return self.vf("A")

    # ---- scalar expressions linear in ONE argument
    def lin(self, name, kind, boundary):
        r, d = self.r, self.dim
        if kind == "s":
            v = self.sf(name)
            opts = ["id", "id", "d", "lap", "gdot", "gdot", "divmul", "dd"]
            if d == 2:
                opts += ["bracket", "rotdot"]
            if boundary:
                opts += ["dn", "dn"]
            o = r.choice(opts)
            if o == "id":
                return v
            if o == "d":
                return dd(r.randrange(d), v)
            if o == "dd":
                return dd(r.randrange(d), dd(r.randrange(d), v))
            if o == "lap":
                return op("laplace", v)
            if o == "gdot":
                a, b = op("grad", v), self.vcoef(1)
                return op("dot", a, b) if r.random() < 0.5 else op("dot", b, a)
            if o == "divmul":
                return op("div", mul(v, self.vf(r.choice(["A", "B"]))))
            if o == "bracket":
                f = self.sf(r.choice(["f", "g"]))
                return op("bracket", v, f) if r.random() < 0.5 else op("bracket", f, v)
            if o == "rotdot":
                return op("dot", op("rot", v), self.vcoef(0))
            if o == "dn":
                return op("dot", op("grad", v), NORMAL)
        w = self.vf(name)
        opts = ["comp", "comp", "div", "dot", "dot", "dcomp"]
        if d >= 2:
            opts += ["inner", "curl"]
        if d == 2:
            opts += ["cross"]      # 3-D cross products with a coefficient do not lower (a finding of C01)
        if boundary:
            opts += ["wn", "wn"]
        o = r.choice(opts)
        if o == "comp":
            return self.comp(name, r.randrange(d))
        if o == "dcomp":
            return dd(r.randrange(d), self.comp(name, r.randrange(d)))
        if o == "div":
            return op("div", w)
        if o == "dot":
            b = self.vcoef(1)
            return op("dot", w, b) if r.random() < 0.5 else op("dot", b, w)
        if o == "inner":
            return op("inner", op("grad", w), op("grad", self.vf(r.choice(["A", "B"]))))
        if o == "curl":
            return op("curl", w) if d == 2 else op("dot", op("curl", w), self.vcoef(0))
        if o == "cross":
            return op("cross", w, self.vf("A")) if d == 2 else op("dot", op("cross", w, self.vf("A")), self.vf("B"))
        return op("dot", w, NORMAL)

    def lin_group(self, group, boundary):
        name = self.r.choice(group)
        return self.lin(name, self.kinds[name], boundary)

    def pair(self, tr, te):
        """classical bilinear pairings of one trial and one test function"""
        r, d = self.r, self.dim
        ks, kt = self.kinds[tr], self.kinds[te]
        if ks == "s" and kt == "s":
            u, v = self.sf(tr), self.sf(te)
            return r.choice([op("dot", op("grad", u), op("grad", v)), mul(u, v), mul(op("laplace", u), op("laplace", v))])
        if ks == "v" and kt == "v":
            u, v = self.vf(tr), self.vf(te)
            opts = [op("dot", u, v), mul(op("div", u), op("div", v))]
            if d >= 2:
                opts.append(op("inner", op("grad", u), op("grad", v)))
            if d == 3:
                opts.append(op("dot", op("curl", u), op("curl", v)))
            if d == 2:
                opts.append(mul(op("curl", u), op("curl", v)))
            return r.choice(opts)
        if ks == "s":
            u, v = self.sf(tr), self.vf(te)
            return r.choice([mul(u, op("div", v)), op("dot", op("grad", u), v)])
        u, v = self.vf(tr), self.sf(te)
        return r.choice([mul(op("div", u), v), op("dot", u, op("grad", v))])

    # ---- one linear / bilinear term
    def term(self, boundary):
        r = self.r
        c = self.coef(self.deep) if r.random() < 0.8 else None
        if self.form == "L":
            return mul(c, self.lin_group(self.tests, boundary))
        if r.random() < 0.35 and not boundary:
            return mul(c, self.pair(r.choice(self.trials), r.choice(self.tests)))
        return mul(c, self.lin_group(self.trials, boundary), self.lin_group(self.tests, boundary))

    def other(self, group, boundary):
        """factor carrying the OTHER argument group of a bilinear form (None for linear forms)"""
        if self.form == "L":
            return None
        og = self.tests if group is self.trials else self.trials
        return self.lin_group(og, boundary)

    VIOLATIONS = ["const", "square", "selfprod", "fn", "conj", "denom", "denom_hom", "expo", "inner_square", "diag", "diag"]

    def same_kind_pair(self, group):
        """two DIFFERENT arguments of the group of the same kind (they live in the same space), or None"""
        for k in ("s", "v"):
            names = [n for n in group if self.kinds[n] == k]
            if len(names) >= 2:
                a, b = self.r.sample(names, 2)
                return k, a, b
        return None

    def diag_violation(self, group, boundary, c, o):
        """non-linear in the group, but the non-linear part VANISHES when the two arguments are given the same value:
        a linearity test that replaces both arguments by the same fresh function cannot see it"""
        r, d = self.r, self.dim
        k, a, b = self.same_kind_pair(group)
        neg = lambda t: mul(num(-1), t)
        if k == "s":
            A, B = self.sf(a), self.sf(b)
            i = r.randrange(d)
            return r.choice([
                mul(c, o, add(A, neg(B)), self.lin(a, "s", boundary)),                 # (v1 - v2) * L(v1)
                mul(c, o, add(mul(A, dd(i, B)), neg(mul(B, dd(i, A))))),               # v1 dx v2 - v2 dx v1
                mul(c, o, pw(add(A, neg(B)), num(2))),                                 # (v1 - v2)^2
                mul(c, o, add(mul(A, B), neg(pw(A, num(2))))),                         # v1 v2 - v1^2
                mul(c, o, fn("sin", add(A, neg(B)))),                                  # sin(v1 - v2)
                mul(c, o, add(op("dot", op("grad", A), op("grad", B)), neg(op("dot", op("grad", B), op("grad", B))))),
            ])
        A, B = self.vf(a), self.vf(b)
        return r.choice([
            mul(c, o, add(op("dot", A, B), neg(op("dot", A, A)))),                     # w1.w2 - w1.w1
            mul(c, o, op("dot", add(A, neg(B)), self.vcoef(0)), op("div", A)),         # ((w1 - w2).F) div w1
            mul(c, o, add(mul(self.comp(a, 0), op("div", B)), neg(mul(self.comp(b, 0), op("div", A))))),
            mul(c, o, pw(op("dot", add(A, neg(B)), self.vf("A")), num(2))),
        ])

    def violation(self, kind, group, boundary):
        r = self.r
        c = self.coef(1) if r.random() < 0.6 else None
        o = self.other(group, boundary)
        l1 = self.lin_group(group, boundary)
        l2 = self.lin_group(group, boundary)
        if kind == "diag":
            if self.same_kind_pair(group) is None:
                return mul(c, o, l1, l2)
            return self.diag_violation(group, boundary, c, o)
        if kind == "const":
            return mul(self.coef(1), o)
        if kind == "square":
            return mul(c, o, pw(l1, num(r.choice([2, 2, 3]))))
        if kind == "selfprod":
            return mul(c, o, l1, l2)
        if kind == "fn":
            f = r.choice(["sin", "cos", "exp", "Abs", "tan", "sqrt", "sqrt1"])
            if f == "sqrt":
                return mul(c, o, pw(l1, num(1, 2)))
            if f == "sqrt1":
                return mul(c, o, pw(add(num(1), pw(l1, num(2))), num(1, 2)))
            return mul(c, o, fn(f, l1))
        if kind == "conj":
            return mul(c, o, fn(r.choice(["conjugate", "re", "im"]), l1))
        if kind == "denom":
            return r.choice([mul(c, o, pw(add(num(1), l1), num(-1))), mul(c, o, l2, pw(add(num(1), pw(l1, num(2))), num(-1))),
                             mul(self.coef(1), o, pw(l1, num(-1)))])
        if kind == "denom_hom":
            # homogeneous of degree one, not additive: a^2 / da, a * da / (a + da)   (a and da are independent atoms)
            name = r.choice(group)
            a = self.sf(name) if self.kinds[name] == "s" else self.comp(name, r.randrange(self.dim))
            da = dd(r.randrange(self.dim), a)
            return r.choice([mul(c, o, pw(a, num(2)), pw(da, num(-1))),
                             mul(c, o, a, da, pw(add(a, da), num(-1))),
                             mul(c, o, pw(da, num(2)), pw(add(a, mul(self.cleaf(), da)), num(-1)))])
        if kind == "expo":
            return r.choice([mul(c, o, pw(num(2), l1)), mul(c, o, pw(self.cleaf(), l1)), mul(c, o, pw(l1, self.const())),
                             mul(c, o, pw(l1, self.sf("f")))])
        if kind == "inner_square":
            name = r.choice([n for n in group if self.kinds[n] == "s"] or [None])
            if name is None:
                return mul(c, o, pw(l1, num(2)))
            return mul(c, o, op("dot", op("grad", pw(self.sf(name), num(2))), self.vcoef(0)))
        raise ValueError(kind)

    def case(self):
        r = self.r
        self.form = r.choice(["L", "B"])
        shapes = r.choice([["s"], ["s"], ["v"], ["s", "v"], ["s", "s"], ["v", "s"], ["s", "s"], ["v", "v"], ["s", "v", "s"]])
        self.tests = ["v", "w", "q"][: len(shapes)]
        self.kinds = {n: k for n, k in zip(self.tests, shapes)}
        self.trials = []
        if self.form == "B":
            tshapes = r.choice([["s"], ["s"], ["v"], ["s", "v"], ["s", "s"], ["v", "v"]])
            self.trials = ["u", "p", "z"][: len(tshapes)]
            self.kinds.update({n: k for n, k in zip(self.trials, tshapes)})
        for n, k in self.kinds.items():
            self.spaces[n] = k
        has_bnd = r.random() < 0.4
        regions = ["domain"] + (["boundary"] if has_bnd else [])
        if has_bnd and r.random() < 0.15:
            regions = ["boundary"]
        integ = {}
        for reg in regions:
            integ[reg] = [self.term(reg == "boundary") for _ in range(r.randint(1, 3))]
        label = "linear"
        if r.random() < 0.55:
            label = r.choice(self.VIOLATIONS)
            reg = r.choice(regions)
            group = self.tests if (self.form == "L" or r.random() < 0.5) else self.trials
            if label == "diag" and self.same_kind_pair(group) is None:
                other = self.trials if group is self.tests else self.tests
                if other and self.same_kind_pair(other) is not None:
                    group = other
                else:
                    label = "selfprod"
            v = self.violation(label, group, reg == "boundary")
            if r.random() < (0.6 if (label == "const" and len(regions) > 1) else 0.25):
                integ[reg] = [v]          # the violation is the whole integral over this region
            else:
                integ[reg].insert(r.randrange(len(integ[reg]) + 1), v)
            self.vgroup = "tests" if group is self.tests else "trials"
        elif r.random() < 0.08:
            # disguised linear: (L + C)^2 - L^2 - C^2 - 2*C*L + L  (needs the expansion to be recognised)
            if self.form == "L" and "domain" in integ:
                l, c = self.lin_group(self.tests, False), self.cleaf()
                integ["domain"].append(add(pw(add(l, c), num(2)), mul(num(-1), pw(l, num(2))), mul(num(-1), pw(c, num(2)))))
                label = "linear_disguised"
        case = {"dim": self.dim, "form": self.form, "tests": self.tests, "trials": self.trials, "spaces": dict(self.spaces),
                "domain": add(*integ["domain"]) if "domain" in integ else None,
                "boundary": add(*integ["boundary"]) if "boundary" in integ else None,
                "label": label}
        return case


def gen_case(rng, tier):
    dim = rng.choice([1, 2, 2, 3, 3])
    g = Gen(rng, dim, 1 if tier == "quick" else 2)
    c = g.case()
    c["seed"] = rng.randrange(1 << 30)
    return c


# ------------------------------------------------------------------------------------------ Coq serialisation
def coq_q(fr):
    fr = Fraction(fr)
    return "(%d # %d)%%Q" % (fr.numerator, fr.denominator)


def coq_val(pairs):
    return coq_list(["(%s, %s)" % (X.coq_atom(a), coq_q(v)) for a, v in pairs])


def coq_names(names):
    return coq_list([coq_str(n) for n in names])


# ------------------------------------------------------------------------------------------ rational structure (mirror of qev)
FCODE = {"sin": 1, "cos": 2, "tan": 3, "exp": 4, "log": 5, "sqrt": 6, "Abs": 7}


class Zero(Exception):
    pass


def qeval(j, val):
    k = j["k"]
    if k == "num":
        return Fraction(j["p"], j["q"])
    if k == "at":
        return val[json.dumps(j, sort_keys=True)]
    if k == "add":
        return sum((qeval(a, val) for a in j["a"]), Fraction(0))
    if k == "mul":
        r = Fraction(1)
        for a in j["a"]:
            r *= qeval(a, val)
        return r
    if k == "fn":
        x = qeval(j["a"], val)
        return x * x + (FCODE[j["f"]] if j["f"] in FCODE else 8 + sum(ord(ch) for ch in j["f"]))
    if k == "pow":
        b = qeval(j["b"], val)
        e = j["e"]
        if e["k"] == "num" and e["q"] == 1:
            n = e["p"]
            if n >= 0:
                return b ** n
            if b == 0:
                raise Zero()
            return Fraction(1) / (b ** (-n))
        ev = qeval(e, val)
        return b * b * ev + b + ev * ev + 1
    raise ValueError(k)


def is_arg_atom(a, args):
    return a["t"] == "fld" and a["f"] in args


def find_witness(sx, args, rng, tries=10):
    atoms = {}
    for a in X.sx_atoms(sx):
        atoms[json.dumps(a, sort_keys=True)] = a
    argk = [k for k, a in atoms.items() if is_arg_atom(a, args)]
    for _ in range(tries):
        base = {k: Fraction(rng.randint(1, 7)) * rng.choice([1, 1, -1]) for k in atoms}
        v1 = {k: Fraction(rng.randint(1, 6)) for k in argk}
        v2 = {k: Fraction(rng.randint(1, 6)) * rng.choice([1, -1]) for k in argk}
        c = Fraction(rng.choice([2, 3, -2, 5]), rng.choice([1, 1, 3]))
        try:
            e1 = qeval(sx, {**base, **v1})
            e2 = qeval(sx, {**base, **v2})
            e12 = qeval(sx, {**base, **{k: v1[k] + v2[k] for k in argk}})
            ec = qeval(sx, {**base, **{k: c * v1[k] for k in argk}})
        except Zero:
            continue
        if e12 != e1 + e2 or ec != c * e1:
            return {"base": [[atoms[k], str(base[k])] for k in atoms if k not in argk],
                    "v1": [[atoms[k], str(v1[k])] for k in argk], "v2": [[atoms[k], str(v2[k])] for k in argk], "c": str(c)}
    return None


# ------------------------------------------------------------------------------------------ shrinking
def shrink_candidates(j):
    """smaller trees: drop a summand / factor, replace a node by a child (typed trees may become ill-typed: filtered by the run)"""
    if j is None:
        return
    k = j["k"]
    if k in ("add", "mul"):
        if len(j["a"]) > 1:
            for i in range(len(j["a"])):
                rest = j["a"][:i] + j["a"][i + 1:]
                yield rest[0] if len(rest) == 1 else {"k": k, "a": rest}
        for i, a in enumerate(j["a"]):
            for s in shrink_candidates(a):
                yield {"k": k, "a": j["a"][:i] + [s] + j["a"][i + 1:]}
    elif k == "pow":
        for s in shrink_candidates(j["b"]):
            yield {"k": "pow", "b": s, "e": j["e"]}
    elif k == "fn":
        for s in shrink_candidates(j["a"]):
            yield {"k": "fn", "f": j["f"], "a": s}


def shrink_batched(evaluate_fn, key_fn, case, rec, candidates_fn, rounds=4, width=14):
    """greedy shrinking; every round evaluates up to `width` smaller candidates in ONE batch and keeps the first
    one that fails in the same way (key_fn(rec) unchanged)"""
    want = key_fn(rec)
    best, best_rec = case, rec
    for rnd in range(rounds):
        cands = []
        for c2 in candidates_fn(best):
            cands.append(c2)
            if len(cands) >= width:
                break
        if not cands:
            break
        recs = evaluate_fn(cands, "shr%d" % rnd)
        hit = next((k for k, r2 in enumerate(recs) if key_fn(r2) == want), None)
        if hit is None:
            break
        best, best_rec = cands[hit], recs[hit]
    return best, best_rec


# ------------------------------------------------------------------------------------------ evaluation of a batch
def max_pow(j):
    k = j["k"]
    if k in ("add", "mul"):
        return max([max_pow(a) for a in j["a"]] + [0])
    if k == "pow":
        e = j["e"]
        here = abs(e["p"]) if (e["k"] == "num" and e["q"] == 1) else 1
        return max(here, max_pow(j["b"]), max_pow(e))
    if k == "fn":
        return max_pow(j["a"])
    return 0


def power_of_dot(case):
    """a Dot / Inner / Cross node directly involved in the base of a negative or fractional power: the shape on which
    sympy's assumption system raises InconsistentAssumptions for sympde's operators, depending on symbol names"""
    def has_dot(j):
        k = j["k"]
        if k == "op":
            return j["name"] in ("dot", "inner", "cross") or any(has_dot(a) for a in j["a"])
        if k in ("add", "mul", "tuple"):
            return any(has_dot(a) for a in j["a"])
        if k == "pow":
            return has_dot(j["b"]) or has_dot(j["e"])
        if k in ("fn", "d"):
            return has_dot(j["a"])
        return False

    def walk(j):
        if j is None:
            return False
        k = j["k"]
        if k == "pow":
            e = j["e"]
            plain = e["k"] == "num" and e["q"] == 1 and e["p"] >= 0
            if not plain and has_dot(j["b"]):
                return True
            return walk(j["b"]) or walk(e)
        if k in ("add", "mul", "op", "tuple"):
            return any(walk(a) for a in j["a"])
        if k in ("fn", "d"):
            return walk(j["a"])
        return False
    return walk(case.get("domain")) or walk(case.get("boundary"))


def groups_of(case):
    g = [("tests", case["tests"])]
    if case["form"] == "B":
        g = [("trials", case["trials"]), ("tests", case["tests"])]
    return g


def evaluate(run, cases, tag="main"):
    """runs the implementation and Coq on the cases; returns per-case records"""
    nb = 16
    batches = [{"cases": cases[i::nb]} for i in range(nb) if cases[i::nb]]
    outs = run.impl_parallel("C08_impl", batches, timeout=3000)
    results = [None] * len(cases)
    for bi, (res, log) in enumerate(outs):
        idxs = list(range(len(cases)))[bi::nb]
        if res is None:
            run.report({"kind": "runner-crash"}, "implementation runner crashed", {"log": log[-2000:]},
                       found_input=False, theorem_or_case="C08 runner")
            continue
        for i, r in zip(idxs, res["results"]):
            results[i] = r
    recs = []
    evals, owners = [], []
    for ci, (c, r) in enumerate(zip(cases, results)):
        rec = {"case": c, "res": r, "coq": None}
        recs.append(rec)
        if r is None or "crash" in r or r.get("stage") != "form":
            continue
        sxs = [i["sx"] for i in r["integrands"]]
        lst = coq_list([X.coq_sx(s) for s in sxs])
        small = sum(X.sx_size(s) for s in sxs) <= 70 and max([max_pow(s) for s in sxs] + [0]) <= 2
        rec["model_computed"] = small
        sfx = "" if small else "s"
        if c["form"] == "L":
            items = ["chkL%s %s %s" % (sfx, coq_names(c["tests"]), lst)]
        else:
            items = ["chkB%s %s %s %s" % (sfx, coq_names(c["trials"]), coq_names(c["tests"]), lst)]
        layout = []
        wrng = run.rng.__class__(canon_hash(c))
        for gname, names in groups_of(c):
            for k, s in enumerate(sxs):
                items.append("critn %s %s" % (coq_names(names), X.coq_sx(s)))
                layout.append(("crit", gname, k))
                w = find_witness(s, names, wrng)
                if w is not None:
                    items.append("wit %s %s %s %s %s %s" % (
                        coq_names(names), X.coq_sx(s), coq_val([(a, Fraction(v)) for a, v in w["base"]]),
                        coq_val([(a, Fraction(v)) for a, v in w["v1"]]), coq_val([(a, Fraction(v)) for a, v in w["v2"]]),
                        coq_q(w["c"])))
                    layout.append(("wit", gname, k, w))
        rec["layout"] = layout
        evals.append("Eval vm_compute in %s." % coq_list(items))
        owners.append(ci)
    files, index = {}, []
    per = 25
    for k in range(0, len(evals), per):
        name = "cases_C08_%s_%d" % (tag, k // per)
        files[name] = HEADER + "\n".join(evals[k:k + per]) + "\n"
        index.append((name, owners[k:k + per]))
    coq_out = run.coq_eval_many(files, timeout=1500) if files else {}
    for name, own in index:
        rc, out = coq_out[name]
        blocks = re.findall(r"=\s*\[(.*?)\]\s*:\s*list", out, re.S) if rc == 0 else []
        if len(blocks) != len(own):
            run.report({"kind": "cases-file"}, "generated case file did not evaluate", {"file": name, "log": out[-1500:]},
                       found_input=False, theorem_or_case=name)
            continue
        for ci, b in zip(own, blocks):
            vals = [int(x.strip().replace("%nat", "")) for x in b.split(";") if x.strip()]
            rec = recs[ci]
            if len(vals) != 1 + len(rec["layout"]):
                continue
            d = {"model": "accept" if vals[0] % 2 == 0 else "reject", "spec": "accept" if vals[0] // 2 == 0 else "reject",
                 "crit": {}, "wit": {}}
            for lay, v in zip(rec["layout"], vals[1:]):
                if lay[0] == "crit":
                    d["crit"]["%s/%d" % (lay[1], lay[2])] = bool(v)
                else:
                    d["wit"]["%s/%d" % (lay[1], lay[2])] = bool(v)
            rec["coq"] = d
    return recs


def classify(rec):
    """-> (status, detail).  status in ok_accept | ok_reject | skipped:* | FALSE_ACCEPT | FALSE_REJECT | EXCEPTION | MODEL_DIFF ..."""
    r = rec["res"]
    if r is None:
        return "skipped:no-result", None
    if "crash" in r:
        return "CRASH", r["crash"][-300:]
    if r.get("stage") == "build":
        return "skipped:ill-typed", r.get("err")
    if r.get("stage") == "zero":
        return "skipped:zero", None
    if r.get("stage") == "lower":
        return "skipped:lowering-failed", r.get("err")
    d = rec["coq"]
    if d is None:
        return "skipped:no-coq", None
    v = r["verdict"]
    num = r.get("numeric") or {}
    numbad = {k for k, o in num.items() if isinstance(o, dict) and (o.get("additive") is False or o.get("homogeneous") is False)}
    numgood = {k for k, o in num.items() if isinstance(o, dict) and o.get("additive") and o.get("homogeneous")}
    rec["numeric_agree"] = sum(1 for k, ok in d["crit"].items() if (ok and k in numgood) or (not ok and k in numbad))
    rec["numeric_conservative"] = sum(1 for k, ok in d["crit"].items() if (not ok and k in numgood))
    if any(ok and k in numbad for k, ok in d["crit"].items()):
        return "ORACLE_CONTRADICTS_CRITERION", None
    bad = [k for k, ok in d["crit"].items() if not ok]
    witnessed = any(d["wit"].values()) or any(k in numbad for k in bad)
    all_bad_witnessed = all(d["wit"].get(k) for k in bad)
    rec["witnessed"] = witnessed
    rec["all_bad_witnessed"] = all_bad_witnessed
    if d["model"] != d["spec"]:
        return "MODEL_SPEC_DIFF", None
    others = r.get("verdict_other_names") or []
    if any(o != v for o in others):
        return "NAME_DEPENDENT", "verdicts %s" % ([v] + others)
    if v.startswith("exc:"):
        return "EXCEPTION", v
    if v == "accept" and d["spec"] == "accept":
        return "ok_accept", None
    if v == "reject" and d["spec"] == "reject":
        return ("ok_reject" if witnessed else "ok_reject_unwitnessed"), None
    if v == "accept":
        return ("FALSE_ACCEPT" if witnessed else "ACCEPT_UNDECIDED"), None
    if not rec["case"].get("label", "linear").startswith("linear"):
        # the planted non-linear term was simplified away by the lowering (e.g. a^2/a): the constructor saw the
        # unsimplified expression with the argument in a denominator / function, outside the generated fragment
        return "plant_simplified_by_lowering", None
    return "FALSE_REJECT", None


def main(run, replay=None):
    rng = run.rng
    quick = run.tier == "quick"
    n = 220 if quick else 2400
    proof_ok = run.coq_props()

    corpus_f = run.work.parents[1] / "corpus" / "C08.json"
    cases, corpus = [], []
    if replay:
        cases = [json.load(open(replay))["case"]]
    else:
        if corpus_f.exists():
            corpus = json.load(open(corpus_f))
        cases += [gen_case(rng, run.tier) for _ in range(n)]

    # the corpus runs first, one fresh interpreter per case (the exceptions of sympy's assumption system on sympde's
    # operators depend on what the interpreter did before)
    recs = (evaluate(run, corpus, tag="corpus") if corpus else []) + evaluate(run, cases)
    cases = corpus + cases
    stats = {}
    failing = []
    for ci, rec in enumerate(recs):
        st, detail = classify(rec)
        rec["status"] = st
        stats[st] = stats.get(st, 0) + 1
        if st.isupper() or st.startswith("FALSE") or st in ("EXCEPTION",):
            failing.append((ci, st, detail))

    skipped = {}
    for rec in recs:
        if rec["status"].startswith("skipped") and rec["res"] is not None:
            k = rec["status"] + " " + str(rec["res"].get("err"))[:90]
            skipped[k] = skipped.get(k, 0) + 1
    # oracle disagreement with the label (information for the generator, never an alarm by itself)
    label_stats = {"linear_accepted": 0, "linear_rejected_by_spec": 0, "violation_rejected": 0, "violation_vanished": 0}
    for rec in recs:
        if rec["coq"] is None:
            continue
        lin = rec["case"].get("label", "linear").startswith("linear")
        acc = rec["coq"]["spec"] == "accept"
        key = ("linear_accepted" if acc else "linear_rejected_by_spec") if lin else \
            ("violation_vanished" if acc else "violation_rejected")
        label_stats[key] += 1
        if lin and not acc and rec["status"].startswith("ok"):
            rec["status_note"] = "generator label says linear but the criterion refuses"

    # ---- report (one per kind, shrunk)
    reported = set()

    def cands8(b):
        if b.get("boundary") is not None and b.get("domain") is not None:
            yield dict(b, boundary=None)
            yield dict(b, domain=None)
        for reg in ("domain", "boundary"):
            for s in shrink_candidates(b.get(reg)):
                yield dict(b, **{reg: s})

    def key8(rec):
        st, _ = classify(rec)
        v = (rec["res"] or {}).get("verdict", "") if st == "EXCEPTION" else ""
        return (st, v)

    tagc = [0]

    def eval8(cs, tag):
        tagc[0] += 1
        return evaluate(run, cs, tag="%s_%d" % (tag, tagc[0]))

    for ci, st, detail in failing:
        rec = recs[ci]
        c = rec["case"]
        exc = rec["res"].get("verdict", "") if rec["res"] else ""
        sig = {"kind": st}
        if st == "EXCEPTION":
            sig["exc"] = exc[4:]
        key = json.dumps({"kind": "constructor-exception"} if (st in ("NAME_DEPENDENT", "EXCEPTION") and power_of_dot(c))
                         else sig, sort_keys=True)
        if key in reported:
            continue
        reported.add(key)
        best, best_rec = copy.deepcopy(c), rec
        if not replay and st in ("FALSE_ACCEPT", "FALSE_REJECT", "EXCEPTION", "ACCEPT_UNDECIDED", "NAME_DEPENDENT"):
            best, best_rec = shrink_batched(eval8, key8, best, rec, cands8)
        found = st in ("FALSE_ACCEPT", "FALSE_REJECT", "EXCEPTION", "CRASH", "NAME_DEPENDENT")
        if st in ("NAME_DEPENDENT", "EXCEPTION") and power_of_dot(best):
            sig = {"kind": "constructor-exception", "pattern": "dot-under-negative-or-fractional-power"}
        what = {"FALSE_ACCEPT": "a non-linear integrand is accepted (additivity or homogeneity fails on the recorded rational valuation)",
                "FALSE_REJECT": "an integrand that meets the degree criterion (hence additive and homogeneous, theorem C08_crit_sound_*) is refused",
                "EXCEPTION": "form construction raised %s instead of accepting / refusing with the linearity error" % exc,
                "ACCEPT_UNDECIDED": "the implementation accepts an integrand that fails the degree criterion; no violating valuation found",
                "ORACLE_CONTRADICTS_CRITERION": "an integrand meets the degree criterion but additivity / homogeneity fails numerically on explicit polynomials (contradicts C08_crit_sound_*: serialisation or lowering is broken)",
                "NAME_DEPENDENT": "the verdict of the constructor depends on the internally drawn auxiliary names: %s" % (detail,),
                "MODEL_SPEC_DIFF": "model verdict differs from the criterion (contradicts theorem C08_verdict_exact)",
                "CRASH": "the runner crashed"}.get(st, st)
        run.report(sig, "C08: " + what, best,
                   observed={"implementation": best_rec["res"], "coq": best_rec.get("coq")},
                   required="accept exactly the integrands that are additive and homogeneous in every argument group; refuse the others with UnconsistentLinearExpressionError",
                   python="PYTHONPATH=/repo:/verif/tools/impl /venv/bin/python /verif/tools/impl/C08_impl.py in.json out.json  # in.json={'cases':[case]}",
                   theorem_or_case="correspondence:%s" % st, found_input=found)
    if not proof_ok:
        fo = run.failing_obligation()
        run.report({"kind": "proof"}, "a proof obligation of Props/C08.v no longer checks", fo,
                   found_input=False, theorem_or_case="%s (%s)" % (fo["lemma"], fo["where"]))

    # ---- evidence
    distinct = set()
    hist = {"form": {}, "dim": {}, "label": {}, "regions": {}, "groups": {}, "size": {}, "verdict": {}}

    def bump(h, k):
        hist[h][str(k)] = hist[h].get(str(k), 0) + 1

    ops = {}
    for rec in recs:
        c, r = rec["case"], rec["res"]
        if r is None or r.get("stage") != "form" or rec["coq"] is None:
            continue
        bump("form", c["form"]); bump("dim", c["dim"]); bump("label", c.get("label", "?"))
        bump("regions", "+".join(i["region"] for i in r["integrands"]))
        bump("groups", "%s|%s" % ("".join(c["spaces"][n] for n in c["trials"]), "".join(c["spaces"][n] for n in c["tests"])))
        bump("verdict", r["verdict"] + "/" + rec["coq"]["spec"])
        sz = sum(X.sx_size(i["sx"]) for i in r["integrands"])
        bump("size", "1-9" if sz <= 9 else "10-29" if sz <= 29 else "30-99" if sz <= 99 else "100+")
        for i in r["integrands"]:
            for k, v in X.sx_ops(i["sx"]).items():
                ops[k] = ops.get(k, 0) + v
        natoms = len({json.dumps(a, sort_keys=True) for i in r["integrands"] for a in X.sx_atoms(i["sx"]) if a["t"] == "fld"})
        if natoms >= 2 and sz >= 4:
            distinct.add(canon_hash([[i["sx"] for i in r["integrands"]], c["tests"], c["trials"], c["form"]]))
    cov = {
        "evaluations": len([r for r in recs if r["res"] is not None]),
        "distinct_nontrivial": len(distinct),
        "rule": "one evaluation = one generated integral expression given to the real LinearForm / BilinearForm constructor; "
                "non-trivial = the form was built up to the linearity check, the lowered integrands have >= 4 nodes and >= 2 "
                "distinct field atoms; distinct = canonical JSON of (lowered integrands, argument groups, form kind)",
        "traces_validated_against_impl": stats.get("ok_accept", 0) + stats.get("ok_reject", 0) + stats.get("ok_reject_unwitnessed", 0),
        "decisions": stats,
        "labels_vs_criterion": label_stats,
        "model_verdict_computed_in_coq": sum(1 for r in recs if r.get("model_computed") and r["coq"] is not None),
        "model_verdict_by_theorem_only": sum(1 for r in recs if r.get("model_computed") is False and r["coq"] is not None),
        "skipped_detail": skipped,
        "rejections_justified_by_a_counterexample": stats.get("ok_reject", 0),
        "kernel_checked_rational_counterexamples": sum(1 for r in recs if r["coq"] and any(r["coq"]["wit"].values())),
        "numeric_oracle_group_integrand_pairs_agreeing": sum(r.get("numeric_agree", 0) for r in recs),
        "numeric_oracle_criterion_conservative": sum(r.get("numeric_conservative", 0) for r in recs),
        "histograms": hist, "node_kinds": ops,
        "samples": [{"case": rec["case"], "implementation": rec["res"].get("verdict"), "coq": rec["coq"]}
                    for rec in recs if rec["coq"] is not None][:2],
        "exhaustive": False,
        "trusted_base": ["tools/impl/ser.py + tools/impl/C08_impl.py (sympy <-> JSON serialiser, lowering of integrands with the "
                         "library's own TerminalExpr, also below elementary functions), tools/props/C08.py, tools/exprlib.py",
                         "sympy's subs / expand modelled as substitution + merged monomial lists (Model/LinearityM.v)",
                         "the integrand is modelled after lowering (TerminalExpr): the operators' own linearity rules are "
                         "covered by the correspondence, not by the theorems"],
    }
    assumptions = [
        "Theorems are about coq/Model/LinearityM.v; the tie to sympde/expr/expr.py is this run's correspondence (real verdict "
        "= model verdict on the lowered integrands, decided inside Coq).",
        "The model expands first and substitutes on the monomial list; the code substitutes first and expands afterwards "
        "(same merged list because expand() is canonical on polynomials in the opaque keys).",
        "Completeness (criterion false -> a violating valuation exists) is per case: a rational counter-example checked by "
        "vm_compute (theorem C08_completeness_partial); ok_reject_unwitnessed counts the rejected cases without one.",
        "Characteristic 0 is assumed in the soundness theorems (rational coefficients are merged).",
    ]
    return run.finish(cov, assumptions)
