#!/usr/bin/env python3
"""tools/seedarchive.py Cxx <seed-dir> <name> : copy a confirmed seeded change into /verif/seeded/<name>/"""
import json, os, shutil, sys
VERIF = os.path.dirname(os.path.dirname(os.path.abspath(__file__)))
pid, sd, name = sys.argv[1:4]
dst = os.path.join(VERIF, "seeded", name)
os.makedirs(dst, exist_ok=True)
for f in ("patch.diff", "demo.py", "README.md"):
    if os.path.exists(os.path.join(sd, f)):
        shutil.copy(os.path.join(sd, f), os.path.join(dst, f))
res = json.load(open(os.path.join(sd, "result.json")))
readme = open(os.path.join(sd, "README.md")).read() if os.path.exists(os.path.join(sd, "README.md")) else ""
meta = {"property": pid, "breaks": pid, "origin": "written by an independent sub-agent that saw only the property text and a scratch worktree",
        "needs_to_manifest": readme[:1500],
        "what_was_run": {
            "demo_without_change_rc": res["demo_without_change"]["rc"],
            "demo_with_change_rc": res["demo_with_change"]["rc"],
            "suite_with_change": res.get("suite_with_change", "seeder ran the relevant test directories (see README); full suite re-run by the coordinator where recorded"),
            "check_runs": [{"seed": c["seed"], "rc": c["rc"], "lines": c["lines"], "first_replay": c["first_replay"]} for c in res["checks"]]},
        "confirmed": res["confirmed"], "detected_by_check": res["detected"]}
json.dump(meta, open(os.path.join(dst, "meta.json"), "w"), indent=1)
print(dst, "confirmed=%s detected=%s" % (res["confirmed"], res["detected"]))
