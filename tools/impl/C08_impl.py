"""Implementation side of C08 (and helpers shared with C09): builds real sympde forms from neutral
JSON trees, records accept / refuse of LinearForm / BilinearForm, and lowers every integrand with
TerminalExpr for the Coq model.

Neutral tree ("gx", what the user writes):
  {"k":"num","p":n,"q":n} {"k":"const","name":s} {"k":"coord","i":n}
  {"k":"sf","name":s} scalar function   {"k":"vf","name":s} vector function   {"k":"comp","of":s,"i":n}
  {"k":"normal"}  {"k":"tuple","a":[gx..]} (vector literal)
  {"k":"add","a":[..]} {"k":"mul","a":[..]} {"k":"pow","b":gx,"e":gx} {"k":"fn","f":name,"a":gx}
  {"k":"op","name":"grad|div|curl|rot|laplace|dot|inner|cross|bracket","a":[..]}
  {"k":"d","i":n,"a":gx}   logical partial derivative dx1/dx2/dx3

case  : {"dim":d, "form":"L"|"B", "tests":[names], "trials":[names], "domain":gx|null, "boundary":gx|null}
result: {"stage":..., "verdict":"accept"|"reject"|"exc:<Type>", "args":{"tests":[..],"trials":[..]},
         "integrands":[{"region":"domain"|"boundary","sx":sx}], ...}
"""
import contextlib
import io
import json
import signal
import sys
import time
import traceback

import ser

FN_EXTRA = {}


def _fn(name):
    import sympy as sp
    table = {"sin": sp.sin, "cos": sp.cos, "tan": sp.tan, "exp": sp.exp, "log": sp.log, "Abs": sp.Abs,
             "sqrt": sp.sqrt, "conjugate": sp.conjugate, "re": sp.re, "im": sp.im}
    return table[name]


class Ctx:
    def __init__(self, dim):
        from sympde.topology import Domain, Boundary, NormalVector, ScalarFunctionSpace, VectorFunctionSpace
        self.dim = dim
        self.domain = Domain("Omega", dim=dim)
        self.boundary = Boundary(r"\Gamma_1", self.domain)
        self.nn = NormalVector("nn")
        self.V = ScalarFunctionSpace("V", self.domain)
        self.W = VectorFunctionSpace("W", self.domain)
        self.funcs = {}
        self.consts = {}
        c = self.domain.coordinates
        self.coords = list(c) if isinstance(c, (tuple, list)) or hasattr(c, "__iter__") else [c]

    def scalar(self, name):
        from sympde.topology import element_of
        if name not in self.funcs:
            self.funcs[name] = element_of(self.V, name=name)
        return self.funcs[name]

    def vector(self, name):
        from sympde.topology import element_of
        if name not in self.funcs:
            self.funcs[name] = element_of(self.W, name=name)
        return self.funcs[name]

    def const(self, name):
        from sympde.core import Constant
        if name not in self.consts:
            self.consts[name] = Constant(name)
        return self.consts[name]


def build_gx(j, ctx):
    import sympy as sp
    from sympde.calculus import grad, div, curl, rot, laplace, dot, inner, cross, bracket
    from sympde.topology.derivatives import dx1, dx2, dx3
    k = j["k"]
    if k == "num":
        return sp.Rational(j["p"], j["q"])
    if k == "const":
        return ctx.const(j["name"])
    if k == "coord":
        return ctx.coords[j["i"]]
    if k == "sf":
        return ctx.scalar(j["name"])
    if k == "vf":
        return ctx.vector(j["name"])
    if k == "comp":
        return ctx.vector(j["of"])[j["i"]]
    if k == "normal":
        return ctx.nn
    if k == "tuple":
        return sp.Tuple(*[build_gx(a, ctx) for a in j["a"]])
    if k == "add":
        r = build_gx(j["a"][0], ctx)
        for a in j["a"][1:]:
            r = r + build_gx(a, ctx)
        return r
    if k == "mul":
        r = build_gx(j["a"][0], ctx)
        for a in j["a"][1:]:
            r = r * build_gx(a, ctx)
        return r
    if k == "pow":
        return build_gx(j["b"], ctx) ** build_gx(j["e"], ctx)
    if k == "fn":
        return _fn(j["f"])(build_gx(j["a"], ctx))
    if k == "d":
        return [dx1, dx2, dx3][j["i"]](build_gx(j["a"], ctx))
    if k == "op":
        ops = {"grad": grad, "div": div, "curl": curl, "rot": rot, "laplace": laplace, "dot": dot,
               "inner": inner, "cross": cross, "bracket": bracket}
        return ops[j["name"]](*[build_gx(a, ctx) for a in j["a"]])
    raise ser.Unsupported("gx node " + k)


# --------------------------------------------------------------------------- lowering + serialisation
def lower(expr, domain):
    """TerminalExpr, also below elementary functions (TerminalExpr.eval does not descend into sin(...), exp(...))."""
    import sympy as sp
    from sympy.core.function import Application
    from sympde.expr.evaluation import TerminalExpr
    from sympde.core.basic import CalculusFunction
    if isinstance(expr, (sp.Add, sp.Mul)):
        return expr.func(*[lower(a, domain) for a in expr.args])
    if isinstance(expr, sp.Pow):
        return sp.Pow(lower(expr.base, domain), lower(expr.exp, domain))
    if isinstance(expr, Application) and not isinstance(expr, CalculusFunction) and \
            isinstance(expr, (sp.sin, sp.cos, sp.tan, sp.exp, sp.log, sp.Abs, sp.conjugate, sp.re, sp.im, sp.sign)):
        return expr.func(*[lower(a, domain) for a in expr.args])
    return TerminalExpr(expr, domain)


def ser_low(expr):
    """ser.ser_sx extended with normal-vector components, sqrt and conjugate / re / im."""
    import sympy as sp
    from sympde.topology import NormalVector
    repl = {}
    for a in expr.atoms(sp.Indexed):
        if isinstance(a.base, NormalVector):
            repl[a] = sp.Symbol("__nn_%d" % int(a.indices[0]))
    for cls, nm in ((sp.conjugate, "conjugate"), (sp.re, "re"), (sp.im, "im"), (sp.sign, "sign")):
        ser.FN.setdefault(nm, cls)
    if repl:
        expr = expr.xreplace(repl)
    j = ser.ser_sx(expr)

    def fix(n):
        if n["k"] == "at":
            if n["t"] == "const" and n["name"].startswith("__nn_"):
                return {"k": "at", "t": "normal", "s": "0", "i": int(n["name"][5:])}
            return n
        if n["k"] in ("add", "mul"):
            return {"k": n["k"], "a": [fix(a) for a in n["a"]]}
        if n["k"] == "pow":
            return {"k": "pow", "b": fix(n["b"]), "e": fix(n["e"])}
        if n["k"] == "fn":
            return {"k": "fn", "f": n["f"], "a": fix(n["a"])}
        return n
    return fix(j)


class CaseTimeout(Exception):
    pass


@contextlib.contextmanager
def time_limit(seconds):
    def handler(signum, frame):
        raise CaseTimeout()
    old = signal.signal(signal.SIGALRM, handler)
    signal.setitimer(signal.ITIMER_REAL, seconds)
    try:
        yield
    finally:
        signal.setitimer(signal.ITIMER_REAL, 0)
        signal.signal(signal.SIGALRM, old)


# --------------------------------------------------------------------------- numeric oracle of linearity
def _has_fn(j, names):
    k = j["k"]
    if k == "fn":
        return j["f"] in names or _has_fn(j["a"], names)
    if k in ("add", "mul"):
        return any(_has_fn(a, names) for a in j["a"])
    if k == "pow":
        return _has_fn(j["b"], names) or _has_fn(j["e"], names)
    return False


def _var_exponent(j):
    k = j["k"]
    if k in ("add", "mul"):
        return any(_var_exponent(a) for a in j["a"])
    if k == "fn":
        return _var_exponent(j["a"])
    if k == "pow":
        e = j["e"]
        has_atom = any(a["t"] in ("fld", "coord", "map") for a in _atoms(e))
        return has_atom or _var_exponent(j["b"])
    return False


def _atoms(j, acc=None):
    acc = [] if acc is None else acc
    k = j["k"]
    if k == "at":
        acc.append(j)
    elif k in ("add", "mul"):
        for a in j["a"]:
            _atoms(a, acc)
    elif k == "pow":
        _atoms(j["b"], acc); _atoms(j["e"], acc)
    elif k == "fn":
        _atoms(j["a"], acc)
    return acc


def _no_normal(j):
    k = j["k"]
    if k == "at":
        return {"k": "at", "t": "const", "name": "nn_%d" % j["i"]} if j["t"] == "normal" else j
    if k in ("add", "mul"):
        return {"k": k, "a": [_no_normal(a) for a in j["a"]]}
    if k == "pow":
        return {"k": "pow", "b": _no_normal(j["b"]), "e": _no_normal(j["e"])}
    if k == "fn":
        return {"k": "fn", "f": j["f"], "a": _no_normal(j["a"])}
    return j


def numeric_linearity(sx, args, dim, seed):
    """explicit polynomials for every field (sympy.diff differentiates them): is e[u1+u2] = e[u1]+e[u2] and
    e[c*u1] = c*e[u1] at rational points?  Independent of the Coq model.  None = not applicable."""
    import random
    import sympy as sp
    if _has_fn(sx, ("conjugate", "re", "im", "sign")):
        return None           # real-linear, not complex-linear: explicit real polynomials cannot tell
    if _var_exponent(sx):
        return None           # b**(polynomial): exact rational evaluation explodes; covered by the rational witness
    sx = _no_normal(sx)
    rng = random.Random(seed)
    base = ser.Concrete(rng, dim=dim, deg=2)
    base.sx(sx, True)
    keys = [k for k in base.polys if k[0] == "fld" and k[1] in args]
    if not keys:
        return {"additive": False, "homogeneous": False, "note": "no argument occurs"}

    def variant(assign):
        c = ser.Concrete(rng, dim=dim, deg=2)
        c.polys = dict(base.polys)
        c.consts = base.consts
        c.polys.update(assign)
        return c.sx(sx, True)
    tmp = ser.Concrete(rng, dim=dim, deg=2)
    p1 = {k: tmp.poly(("a",) + k, True) for k in keys}
    p2 = {k: tmp.poly(("b",) + k, True) for k in keys}
    cst = sp.Rational(7, 3)
    e1, e2 = variant(p1), variant(p2)
    e12 = variant({k: p1[k] + p2[k] for k in keys})
    ec = variant({k: cst * p1[k] for k in keys})
    okA, _ = ser.numeric_equal(e12, e1 + e2, base)
    okH, _ = ser.numeric_equal(ec, cst * e1, base)
    return {"additive": bool(okA), "homogeneous": bool(okH)}


def integrals_of(expr):
    """[(region, integrand)] of an integral expression (Integral or IntAdd)."""
    from sympde.expr.expr import Integral
    from sympde.topology import Boundary
    out = []
    items = expr.args if not isinstance(expr, Integral) else [expr]
    for I in items:
        if not isinstance(I, Integral):
            raise ser.Unsupported("non-integral term %s" % type(I).__name__)
        out.append(("boundary" if isinstance(I.domain, Boundary) else "domain", I))
    out.sort(key=lambda x: x[0], reverse=True)   # domain first
    return out


def lowered_integrands(expr):
    res = []
    for region, I in integrals_of(expr):
        low = lower(I.expr, I.domain)
        res.append({"region": region, "sx": ser_low(low)})
    return res


def make_expr(case, ctx):
    from sympde.expr.expr import integral
    expr = None
    if case.get("domain") is not None:
        expr = integral(ctx.domain, build_gx(case["domain"], ctx))
    if case.get("boundary") is not None:
        b = integral(ctx.boundary, build_gx(case["boundary"], ctx))
        expr = b if expr is None else expr + b
    return expr


def get_args(names, case, ctx):
    out = []
    for n in names:
        out.append(ctx.vector(n) if case["spaces"][n] == "v" else ctx.scalar(n))
    return tuple(out)


class Names:
    """replacement of sympde.core.utils.random_string (which draws from SystemRandom): DISTINCT draws whose first
    letter is forced (Aaab, Aaac, ... / zaab, zaac, ...): upper-case names sort before the user's symbols, lower-case
    z names after them.  (Identical draws would make two arguments of a product group share their l_/r_ functions.)"""

    def __init__(self, tag):
        self.letter, self.k = tag[0], 0

    def __call__(self, n):
        self.k += 1
        k, s = self.k, ""
        for _ in range(max(n - 1, 1)):
            s = chr(ord("a") + k % 26) + s
            k //= 26
        return (self.letter + s)[:max(n, 2)]


def construct(case, tests, trials, expr, tag):
    """the real constructor with the auxiliary names drawn from Names(tag) -> (verdict, info)"""
    import sympde.expr.expr as EX
    from sympde.expr.expr import LinearForm, BilinearForm
    from sympde.expr.errors import UnconsistentLinearExpressionError
    from sympy.core.cache import clear_cache
    old = EX.random_string
    EX.random_string = Names(tag)
    clear_cache()
    buf = io.StringIO()
    info = {}
    try:
        with contextlib.redirect_stdout(buf):
            if case["form"] == "L":
                a = LinearForm(tests if len(tests) > 1 else tests[0], expr)
            else:
                a = BilinearForm((trials if len(trials) > 1 else trials[0], tests if len(tests) > 1 else tests[0]), expr)
        verdict = "accept"
        info["built_type"] = type(a).__name__
    except UnconsistentLinearExpressionError:
        verdict = "reject"
    except Exception as e:  # noqa
        verdict = "exc:" + type(e).__name__
        info["msg"] = str(e)[:300]
    finally:
        EX.random_string = old
    info["printed"] = buf.getvalue()[:300]
    return verdict, info


def run_case(case):
    from sympy.core.cache import clear_cache
    clear_cache()
    from sympde.expr.expr import LinearForm, BilinearForm
    from sympde.expr.errors import UnconsistentLinearExpressionError
    out = {"stage": "build"}
    ctx = Ctx(case["dim"])
    try:
        expr = make_expr(case, ctx)
        tests = get_args(case["tests"], case, ctx)
        trials = get_args(case.get("trials", []), case, ctx)
    except Exception as e:  # noqa  (ill-typed generated tree: not a finding of C08)
        out["err"] = "%s: %s" % (type(e).__name__, str(e)[:200])
        return out
    if expr == 0 or expr is None:
        out["stage"] = "zero"
        return out
    out["stage"] = "lower"
    try:
        out["integrands"] = lowered_integrands(expr)
    except Exception as e:  # noqa  (lowering is C01's business)
        out["err"] = "%s: %s" % (type(e).__name__, str(e)[:200])
        return out
    t1 = time.time()
    try:
        groups = [("tests", case["tests"])] + ([("trials", case["trials"])] if case["form"] == "B" else [])
        orc = {}
        for gname, names in groups:
            for k, itg in enumerate(out["integrands"]):
                try:
                    with time_limit(15):
                        orc["%s/%d" % (gname, k)] = numeric_linearity(itg["sx"], names, case["dim"], case.get("seed", 0) + k)
                except CaseTimeout:
                    orc["%s/%d" % (gname, k)] = {"timeout": True}
        out["numeric"] = orc
    except Exception as e:  # noqa
        out["numeric"] = {"err": "%s: %s" % (type(e).__name__, str(e)[:200])}
    out["t_numeric"] = round(time.time() - t1, 2)
    out["stage"] = "form"
    t2 = time.time()
    verdict, info = construct(case, tests, trials, expr, "z")
    out["verdict"] = verdict
    out.update(info)
    out["verdict_other_names"] = [construct(case, tests, trials, expr, tag)[0] for tag in ("A", "m")]
    out["t_form"] = round(time.time() - t2, 2)
    out["expr"] = str(expr)[:600]
    return out


def run_forked(fn, case, timeout):
    """run fn(case) in a forked child (fresh copy of the freshly imported interpreter for every case, hard
    wall-clock limit: sympy can block inside C code where signals are not delivered)"""
    import os
    import select
    r, w = os.pipe()
    t0 = time.time()
    pid = os.fork()
    if pid == 0:
        os.close(r)
        try:
            try:
                res = fn(case)
            except Exception:  # noqa
                res = {"crash": traceback.format_exc()[-1500:]}
            data = json.dumps(res).encode()
            with os.fdopen(w, "wb") as f:
                f.write(data)
        finally:
            os._exit(0)
    os.close(w)
    chunks = []
    deadline = t0 + timeout
    timed_out = False
    while True:
        left = deadline - time.time()
        if left <= 0:
            timed_out = True
            break
        ready, _, _ = select.select([r], [], [], min(left, 1.0))
        if ready:
            b = os.read(r, 1 << 16)
            if not b:
                break
            chunks.append(b)
    os.close(r)
    if timed_out:
        try:
            os.kill(pid, 9)
        except OSError:
            pass
    os.waitpid(pid, 0)
    if timed_out:
        return {"stage": "timeout", "secs": round(time.time() - t0, 2)}
    try:
        res = json.loads(b"".join(chunks).decode())
    except Exception:  # noqa
        res = {"crash": "child returned no result"}
    res["secs"] = round(time.time() - t0, 2)
    return res


def warm_up():
    import sympy  # noqa
    import sympde.expr.expr  # noqa
    import sympde.expr.evaluation  # noqa
    import sympde.calculus  # noqa
    import sympde.topology  # noqa


def main():
    payload = json.load(open(sys.argv[1]))
    warm_up()
    res = [run_forked(run_case, case, 150) for case in payload["cases"]]
    json.dump({"results": res}, open(sys.argv[2], "w"))


if __name__ == "__main__":
    main()
