"""Implementation side of C18: drives the real sympde EssentialBC / Equation / find on JSON cases.

input : {"cases":[case..]}   (format: see tools/props/C18.py, gen_case)
output: {"results":[res..]}  per case
  res = {"fns":[{"name","vec","ldim","id","space"}..],          id = index of the first == function
         "faces":[{"str","patch","axis","ext","id"}..],          table of every Boundary object met
         "conds":[{"built":bool, "lhs":tree, "lhs_str", "bnd":{"k":"none|face|union","faces":[i..]},
                   "cls":{"ok":{order,var,nc,ic,pos}} | {"err":kind}}..],
         "eq": {"ok":{"bc":None|[tuple..], "bc_raw":"None|list|tuple|Tuple", "lhs_same","rhs_same",
                      "trials":[i..],"tests":[i..]}} | {"err":kind},
         "inputs_after":[pos..],
         "second": None | {"eq":..., "eq1_after":[tuple..], "inputs_after":[..]}}
  tuple = {"face":i,"order","var":fn index (identity),"var_name","pos","ic","nc","lhs":tree,"lhs_str","rhs","alias":input cond or -1}
"""
import json
import sys
import traceback


class Unsupported(Exception):
    pass


NODE_WHITELIST = {"Add", "Mul", "Pow", "Dot", "Grad", "NormalDerivative", "Laplace", "Div", "Inner",
                  "Cross", "Curl", "Rot", "BasicOperatorAdd", "Hessian", "Bracket", "Convect"}


def errkind(e):
    from sympde.expr.errors import (UnconsistentLhsError, UnconsistentRhsError, UnconsistentArgumentsError)
    if isinstance(e, UnconsistentArgumentsError):
        return "ArgsErr"
    if isinstance(e, UnconsistentLhsError):
        return "LhsErr"
    if isinstance(e, UnconsistentRhsError):
        return "RhsErr"
    if isinstance(e, NotImplementedError):
        return "NotImplErr"
    if isinstance(e, AssertionError):
        return "AssertErr"
    if isinstance(e, ValueError):
        return "ValueErr"
    if isinstance(e, TypeError):
        return "TypeErr"
    return "Other:" + type(e).__name__


class ArmTracer:
    """Records which source lines of EssentialBC.__new__ run during one constructor call and names
    the arm from the *text* of those lines (no line numbers are hard-wired)."""

    MARKS = [("raise ValueError('Expecting one test function')", "not-one-function"),
             ("raise TypeError('Trace operator is not allowed')", "trace"),
             ("index_component = list(u.indices)", "order0/component"),
             ("index_component = list(range(u.ldim))", "order0/vector"),
             ("raise NotImplementedError('Indexed case')", "order1/indexed"),
             ("raise ValueError('Wrong lhs')", "wrong-lhs")]

    def __init__(self):
        import inspect
        from sympde.expr.equation import EssentialBC
        self.code = EssentialBC.__new__.__code__
        lines, first = inspect.getsourcelines(EssentialBC.__new__)
        self.text = {first + k: l.strip() for k, l in enumerate(lines)}
        self.hit = set()
        self.enabled = False
        mon = getattr(sys, "monitoring", None)
        if mon is None:
            return
        try:
            mon.use_tool_id(3, "verif-C18")
            mon.register_callback(3, mon.events.LINE, self._line)
            mon.set_local_events(3, self.code, mon.events.LINE)
            self.enabled = True
        except Exception:  # noqa
            self.enabled = False

    def _line(self, code, lineno):
        self.hit.add(lineno)

    def reset(self):
        self.hit = set()

    def tag(self, exc, bc):
        if not self.enabled:
            return "untraced"
        texts = [self.text.get(n, "") for n in sorted(self.hit)]
        for mark, name in self.MARKS:
            if any(mark in t for t in texts):
                if name in ("order0/component", "order0/vector") and exc is not None:
                    continue
                return name
        if exc is not None:
            if isinstance(exc, AssertionError):
                return "two-normals"
            if isinstance(exc, TypeError):
                return "dot-of-component"
            return "other-error"
        if any(t == "order = 1" for t in texts):
            return "order1"
        if any(t == "order = 0" for t in texts):
            return "order0/normal" if bc.normal_component else "order0/scalar"
        return "unknown"


class World:
    """The real objects of one case."""

    def __init__(self, case):
        from sympde.topology import (Domain, Line, Square, Cube, Boundary, NormalVector, TangentVector,
                                     ScalarFunctionSpace, VectorFunctionSpace, element_of)
        from sympde.core import Constant
        self.case = case
        dim = case["dim"]
        self.dim = dim
        self.abstract = case.get("abstract", False)
        if self.abstract:
            self.domain = Domain(case["patches"][0], dim=dim)
            self.patches = [self.domain]
        else:
            cls = {1: Line, 2: Square, 3: Cube}[dim]
            self.patches = [cls(n) for n in case["patches"]]
            if len(self.patches) == 1:
                self.domain = self.patches[0]
            else:
                conn = []
                for k in range(len(self.patches) - 1):
                    ornt = 1 if dim == 2 else (1, 1, 1)
                    conn.append(((k, 0, 1), (k + 1, 0, -1), ornt))
                self.domain = Domain.join(self.patches, conn, case.get("domain_name", "Omega"))
        self.spaces = []
        for s in case["spaces"]:
            mk = VectorFunctionSpace if s["vec"] else ScalarFunctionSpace
            self.spaces.append(mk(s["name"], self.domain))
        self.fns = [element_of(self.spaces[f["space"]], name=f["name"]) for f in case["fns"]]
        self.normals = [NormalVector(n) for n in case.get("normals", ["nn"])]
        self.tangent = TangentVector("tt")
        self.consts = {}
        self.Constant = Constant
        self.Boundary = Boundary
        self.faces = []       # table of Boundary objects met (identity of the == class)
        self._abs = {}

    # ---- faces
    def face(self, spec):
        if "abs" in spec:
            if spec["abs"] not in self._abs:
                self._abs[spec["abs"]] = self.Boundary(spec["abs"], self.domain)
            return self._abs[spec["abs"]]
        return self.patches[spec["p"]].get_boundary(axis=spec["axis"], ext=spec["ext"])

    def face_index(self, b):
        from sympde.topology import Boundary
        if not isinstance(b, Boundary):
            raise Unsupported("boundary member of type %s" % type(b).__name__)
        for i, a in enumerate(self.faces):
            if a == b and hash(a) == hash(b):
                return i
        self.faces.append(b)
        return len(self.faces) - 1

    def face_table(self):
        out = []
        for i, b in enumerate(self.faces):
            out.append({"str": str(b), "patch": str(b.domain), "axis": -1 if b.axis is None else int(b.axis),
                        "ext": 0 if b.ext is None else int(b.ext), "id": i})
        return out

    def boundary(self, specs):
        from sympde.topology import Union
        return Union(*[self.face(s) for s in specs])

    def ser_bnd(self, b):
        from sympde.topology import Union
        if b is None:
            return {"k": "none", "faces": []}
        if isinstance(b, Union):
            return {"k": "union", "faces": [self.face_index(a) for a in b.args]}
        return {"k": "face", "faces": [self.face_index(b)]}

    # ---- functions
    def fn_index(self, f):
        for i, g in enumerate(self.fns):
            if g is f:
                return i
        for i, g in enumerate(self.fns):
            if g == f and g.space is f.space:
                return i
        return -1

    def fn_table(self):
        out = []
        for i, f in enumerate(self.fns):
            from sympde.topology.space import VectorFunction
            cid = min(j for j, g in enumerate(self.fns) if g == f)
            out.append({"name": str(f), "vec": isinstance(f, VectorFunction), "ldim": int(f.ldim), "id": cid,
                        "space": [k for k, sp in enumerate(self.spaces) if sp is f.space][0]})
        return out

    # ---- user-level lhs
    def build(self, t):
        from sympde.calculus import grad, dot, inner, div, laplace, Dn
        from sympde.topology import trace_0, trace_1
        from sympy import Integer
        if "f" in t:
            return self.fns[t["f"]]
        if "idx" in t:
            return self.fns[t["idx"][0]][t["idx"][1]]
        if "n" in t:
            return self.normals[t["n"]]
        if "t" in t:
            return self.tangent
        if "int" in t:
            return Integer(t["int"])
        if "const" in t:
            return self.Constant(t["const"])
        op, args = t["op"], [self.build(a) for a in t["args"]]
        if op == "dot":
            return dot(*args)
        if op == "inner":
            return inner(*args)
        if op == "grad":
            return grad(*args)
        if op == "Dn":
            return Dn(*args)
        if op == "laplace":
            return laplace(*args)
        if op == "div":
            return div(*args)
        if op == "add":
            r = args[0]
            for a in args[1:]:
                r = r + a
            return r
        if op == "mul":
            r = args[0]
            for a in args[1:]:
                r = r * a
            return r
        if op == "pow":
            return args[0] ** args[1]
        if op == "neg":
            return -args[0]
        if op == "trace0":
            return trace_0(args[0], self.face(t["face"]))
        if op == "trace1":
            return trace_1(args[0], self.face(t["face"]))
        raise ValueError(op)

    # ---- observed expression object -> tree
    def ser_expr(self, e):
        from sympy import Integer, Symbol, Number
        from sympy.core.basic import Basic
        from sympde.topology.space import ScalarFunction, VectorFunction, IndexedVectorFunction, Trace
        from sympde.topology import NormalVector, TangentVector
        if isinstance(e, (ScalarFunction, VectorFunction)):
            i = self.fn_index(e)
            if i < 0:
                raise Unsupported("function not in the table: %s" % e)
            return {"k": "fn", "i": i}
        if isinstance(e, IndexedVectorFunction):
            i = self.fn_index(e.base)
            if i < 0 or len(e.indices) != 1 or not isinstance(e.indices[0], (int, Integer)) or int(e.indices[0]) < 0:
                raise Unsupported("indexed: %s" % e)
            return {"k": "idx", "i": i, "j": int(e.indices[0])}
        if isinstance(e, NormalVector):
            return {"k": "n", "name": str(e)}
        if isinstance(e, TangentVector):
            return {"k": "sym", "name": str(e)}
        if isinstance(e, Integer):
            return {"k": "int", "v": int(e)}
        if isinstance(e, (Number, Symbol)):
            return {"k": "sym", "name": str(e)}
        if isinstance(e, Trace):
            return {"k": "node", "h": "Trace", "args": [self.ser_expr(e.args[0])]}
        if isinstance(e, Basic) and type(e).__name__ in NODE_WHITELIST and e.args:
            return {"k": "node", "h": type(e).__name__, "args": [self.ser_expr(a) for a in e.args]}
        raise Unsupported("node %s" % type(e).__name__)

    def rhs_value(self, r):
        from sympy import sympify
        if isinstance(r, int):
            return r
        coords = self.domain.coordinates
        x = list(coords) if isinstance(coords, (tuple, list)) or hasattr(coords, "__getitem__") else [coords]
        if r == "x":
            return x[0]
        if r == "x*x":
            return x[0] * x[0] + 1
        if r == "alpha":
            return self.Constant("alpha")
        return sympify(r)

    # ---- forms
    def forms(self, trials, tests, spec):
        """A block-diagonal bilinear form and a linear form of a simple but varied kind."""
        from sympde.calculus import grad, dot, inner, div
        from sympde.expr import BilinearForm, LinearForm, integral
        from sympde.topology.space import VectorFunction
        D = self.domain
        pairs = list(zip(trials, tests))
        terms_a, terms_l = [], []
        kinds = spec.get("terms", ["mass"])
        for k, (u, v) in enumerate(pairs):
            kind = kinds[k % len(kinds)]
            uv, vv = isinstance(u, VectorFunction), isinstance(v, VectorFunction)
            if uv and vv:
                terms_a.append({"mass": dot(u, v), "stiff": inner(grad(u), grad(v)), "div": div(u) * div(v)}.get(kind, dot(u, v)))
            elif not uv and not vv:
                terms_a.append({"mass": u * v, "stiff": dot(grad(u), grad(v)), "div": u * v + dot(grad(u), grad(v))}.get(kind, u * v))
            elif uv and not vv:
                terms_a.append(div(u) * v)
            else:
                terms_a.append(u * div(v))
            terms_l.append(v[0] if vv else v)
        ea = terms_a[0]
        for t in terms_a[1:]:
            ea = ea + t
        el = terms_l[0]
        for t in terms_l[1:]:
            el = el + t
        coords = D.coordinates
        x = coords[0] if hasattr(coords, "__getitem__") else coords
        if spec.get("weight"):
            el = el * (x + 2)
        a_expr = integral(D, ea)
        l_expr = integral(D, el)
        if spec.get("bnd_term") and self.faces_for_forms:
            b = self.faces_for_forms[0]
            u, v = pairs[0]
            if not isinstance(u, VectorFunction) and not isinstance(v, VectorFunction):
                a_expr = a_expr + integral(b, u * v)
                l_expr = l_expr + integral(b, v)
        tr = trials[0] if len(trials) == 1 else tuple(trials)
        te = tests[0] if len(tests) == 1 else tuple(tests)
        a = BilinearForm((tr, te), a_expr)
        l = LinearForm(te, l_expr)
        return a, l, a_expr, l_expr


def ser_bc(w, b, inputs):
    alias = -1
    for k, o in enumerate(inputs):
        if o is b:
            alias = k
            break
    bn = w.ser_bnd(b.boundary)
    ic = b.index_component
    return {"bnd": bn, "order": int(b.order), "var": w.fn_index(b.variable), "var_name": str(b.variable),
            "pos": None if b.position is None else int(b.position),
            "ic": None if ic is None else [int(i) for i in ic], "nc": bool(b.normal_component),
            "lhs": w.ser_expr(b.lhs), "lhs_str": str(b.lhs), "rhs": str(b.rhs), "alias": alias}


def ser_eq(w, eq, a, l, inputs, via_find):
    from sympy import Tuple
    bc = eq.bc
    raw = "None" if bc is None else type(bc).__name__
    out = {"bc_raw": raw, "bc": None if not bc else [ser_bc(w, b, inputs) for b in bc],
           "trials": [w.fn_index(f) for f in eq.trial_functions], "tests": [w.fn_index(f) for f in eq.test_functions]}
    from sympde.expr import BilinearForm, LinearForm
    if via_find:
        out["lhs_same"] = isinstance(eq.lhs, BilinearForm) and eq.lhs == a and str(eq.lhs.expr) == str(a.expr)
        out["rhs_same"] = isinstance(eq.rhs, LinearForm) and eq.rhs == l and str(eq.rhs.expr) == str(l.expr)
    else:
        out["lhs_same"] = eq.lhs is a
        out["rhs_same"] = eq.rhs is l
    out["lhs_kind"] = type(eq.lhs).__name__
    out["rhs_kind"] = type(eq.rhs).__name__
    return out


def build_bcarg(spec, objs):
    items = []
    for it in spec["items"]:
        if it == "notbc":
            items.append(3)
        elif it == "face":
            items.append("Gamma")
        else:
            if objs[it] is None:
                return None, False
            items.append(objs[it])
    mode = spec["mode"]
    if mode == "none":
        return None, True
    if mode == "empty":
        return [], True
    if mode == "emptytuple":
        return (), True
    if mode == "single":
        return items[0], True
    if mode == "tuple":
        return tuple(items), True
    if mode == "Tuple":
        from sympy import Tuple
        return Tuple(*items), True
    return list(items), True


def run_equation(w, spec, objs, formspec, via):
    """spec: {"trials":[..],"tests":[..],"single":bool,"bc":{mode,items},"lhs":"a|l|other","rhs":"l|a|other"}"""
    from sympde.expr import Equation, find
    trials = [w.fns[i] for i in spec["trials"]]
    tests = [w.fns[i] for i in spec["tests"]]
    ftr, fte = [], []
    for u, v in zip(trials, tests):          # an unknown listed twice enters the forms once
        if not any(u is x for x in ftr):
            ftr.append(u); fte.append(v)
    a, l, a_expr, l_expr = w.forms(ftr, fte, formspec)
    bc, ok = build_bcarg(spec["bc"], objs)
    if not ok:
        return {"skip": "a condition of the list could not be built"}, None
    tr = trials[0] if (spec.get("single") and len(trials) == 1) else (trials if spec.get("seq", "list") == "list" else tuple(trials))
    te = tests[0] if (spec.get("single") and len(tests) == 1) else (tests if spec.get("seq", "list") == "list" else tuple(tests))
    pick = {"a": a, "l": l, "other": a_expr}
    try:
        if via == "find":
            eq = find(tr, forall=te, lhs=a_expr, rhs=l_expr, bc=bc)
        else:
            eq = Equation(pick[spec.get("lhs", "a")], pick[spec.get("rhs", "l")], tr, te, bc=bc)
    except Exception as e:  # noqa
        return {"err": errkind(e), "msg": str(e)[:200]}, None
    return {"ok": ser_eq(w, eq, a, l, objs, via == "find")}, eq


def run_case(case):
    from sympy.core import cache
    from sympde.expr import EssentialBC
    cache.clear_cache()
    w = World(case)
    w.faces_for_forms = [w.face(s) for s in case.get("form_faces", [])]
    out = {"conds": []}
    objs = []
    for c in case["conds"]:
        rec = {"built": False}
        try:
            lhs = w.build(c["lhs"])
        except Exception as e:  # noqa  the user cannot even write this left-hand side
            rec["build_err"] = errkind(e)
            out["conds"].append(rec)
            objs.append(None)
            continue
        try:
            rec["lhs"] = w.ser_expr(lhs)
        except Unsupported as e:
            rec["unsupported"] = str(e)
            out["conds"].append(rec)
            objs.append(None)
            continue
        rec["built"] = True
        rec["lhs_str"] = str(lhs)
        bnd = w.boundary(c["faces"])
        rec["bnd"] = w.ser_bnd(bnd)
        rhs = w.rhs_value(c["rhs"])
        rec["rhs"] = str(rhs)
        kw = {}
        if c.get("ic") is not None:
            kw["index_component"] = list(c["ic"])
        if c.get("pos") is not None:
            kw["position"] = c["pos"]
        TRACER.reset()
        try:
            b = EssentialBC(lhs, rhs, bnd, **kw)
            rec["tag"] = TRACER.tag(None, b)
            ic = b.index_component
            rec["cls"] = {"ok": {"order": int(b.order), "var": w.fn_index(b.variable), "nc": bool(b.normal_component),
                                 "ic": None if ic is None else [int(i) for i in ic],
                                 "pos": None if b.position is None else int(b.position),
                                 "lhs_same": b.lhs is lhs, "rhs": str(b.rhs), "bnd_same": b.boundary is bnd}}
            objs.append(b)
        except Exception as e:  # noqa
            rec["cls"] = {"err": errkind(e), "msg": str(e)[:200]}
            rec["tag"] = TRACER.tag(e, None)
            objs.append(None)
        out["conds"].append(rec)
    via = case.get("via", "Equation")
    r1, eq1 = run_equation(w, case["eq"], objs, case.get("forms", {}), via)
    out["eq"] = r1
    out["inputs_after"] = [None if (o is None or o.position is None) else int(o.position) for o in objs]
    out["second"] = None
    if case.get("second") and eq1 is not None:
        r2, eq2 = run_equation(w, case["second"], objs, case.get("forms", {}), "Equation")
        sec = {"eq": r2}
        sec["eq1_after"] = None if not eq1.bc else [ser_bc(w, b, objs) for b in eq1.bc]
        sec["inputs_after"] = [None if (o is None or o.position is None) else int(o.position) for o in objs]
        out["second"] = sec
    out["fns"] = w.fn_table()
    out["faces"] = w.face_table()
    return out


TRACER = None


def main():
    global TRACER
    payload = json.load(open(sys.argv[1]))
    TRACER = ArmTracer()
    res = []
    for case in payload["cases"]:
        try:
            res.append(run_case(case))
        except Unsupported as e:
            res.append({"unsupported": str(e)})
        except Exception:  # noqa
            res.append({"crash": traceback.format_exc()})
    json.dump({"results": res}, open(sys.argv[2], "w"))


if __name__ == "__main__":
    main()
