"""Implementation side of C06: builds real sympde forms from JSON cases, lowers them with the real
TerminalExpr and serialises the kernels.

case = {"dim":d,
        "topo": {"kind":"single"|"generic"|"multi"|"mapped"|"interiors",
                 "patches":[name..], "joins":[[[i,axis,ext],[j,axis,ext]]..] (multi), "bnds":[name..] (generic),
                 "mapped":bool (multi: every patch carries its own symbolic Mapping), "name":str},
        "kind":"bilinear"|"linear"|"functional",
        "trials":[{"name":s,"vec":bool}..], "tests":[..],
        "x": X,                                      X ::= {"k":"int","dom":D,"e":E} | {"k":"add","a":X,"b":X}
                                                           | {"k":"sub","a":X,"b":X} | {"k":"scale","c":E,"x":X,"right":bool}
                                                           | {"k":"div","x":X,"c":E} | {"k":"rdiv","c":E,"x":X} | {"k":"neg","x":X}
                                                           | {"k":"zero","sym":bool} | {"k":"sum","xs":[X..]}
                                                     (the arithmetic of Integral / IntAdd is done by the real operators;
                                                      every leaf reports its un-scaled lowered integrand "L" and, computed
                                                      by this harness from the tree, the integrand it contributes "Leff";
                                                      "coefs" maps the path of an operator node to its serialised scalar)
        "raw_domain": [D'..]  (optional)             after construction the form object's `_domain` is replaced by the Union of
                                                     these objects; D' ::= D | {"t":"rawdomain"} | {"t":"rawpatch","p":i}
                                                     (the Domain objects themselves, not their interiors)
        "expect": {...}  (harness-side expectations, not used here except by the numeric oracle: "leaf_regions")
        "seed":n}
D ::= {"t":"domain"} | {"t":"patch","p":i} | {"t":"face","p":i,"axis":a,"ext":e} | {"t":"bnd","n":name}
    | {"t":"boundary"} | {"t":"union","of":[D..]}     (union of faces / named boundaries / patches)
E ::= {"k":"num","p","q"} | {"k":"const","name"} | {"k":"coord","i"} | {"k":"sf","name"} | {"k":"vf","name"}
    | {"k":"comp","of":E,"i":n} | {"k":"add","a":[E..]} | {"k":"mul","a":[E..]} | {"k":"pow","b":E,"n":int}
    | {"k":"fn","f":"sin|cos|exp","a":E} | {"k":"op","name":"grad|div|curl|rot|laplace|hessian|dot|inner|cross|bracket","a":[E..]}
    | {"k":"nn"} | {"k":"tuple","items":[E..]}

result = {"zero":bool                                   the constructor / the lowering returned the number 0
          "trials":[[name,c]..], "tests":[[name,c]..]   _get_trials_tests(form, flatten=True) on the real form
          "leaves":[{"members":[R..], "L":sx}..]        per integral(...) call, in evaluation order: the members of
                                                        the real domain object and TerminalExpr(e, domain) of the
                                                        un-split integrand
          "form_domain":[R..]
          "kernels":[{"cls":str,"target":R,"M":[[sx..]..]}..]
          "oracle":{"ok":bool|None, ...}}  |  {"err":kind,"msg":..}
R ::= {"t":"patch","p":name} | {"t":"face","p":name,"axis":a,"ext":e} | {"t":"bnd","p":name,"n":name}
    | {"t":"iface",...}          (a kernel target may also be {"t":"union","of":[R..]}: raw objects only)

A case {"kind":"probe","probe":name,...} calls one anchored function directly (error exits, Trace / Matrix / vector arms of
TerminalExpr.eval, Integral flags): see run_probe.
"""
import json
import random
import sys
import traceback

import ser


class LeafError(Exception):
    pass


class RdivRefused(Exception):
    pass


class Ctx:
    def __init__(self, case):
        from sympde.topology import (Domain, Line, Square, Cube, ScalarFunctionSpace, VectorFunctionSpace,
                                     Boundary, Mapping, InteriorDomain, Union, NormalVector)
        self.case = case
        d = self.dim = case["dim"]
        topo = case["topo"]
        mk = {1: Line, 2: Square, 3: Cube}[d]
        kind = topo["kind"]
        self.patches = []
        self.named = {}
        if kind == "single":
            self.domain = mk(topo["patches"][0])
            self.patches = [self.domain]
        elif kind == "mapped":
            M = Mapping("M", dim=d)
            self.domain = M(mk(topo["patches"][0]))
            self.patches = [self.domain]
        elif kind == "generic":
            self.domain = Domain(topo["patches"][0], dim=d)
            self.patches = [self.domain]
            for n in topo["bnds"]:
                self.named[n] = Boundary(n, self.domain)
        elif kind == "multi":
            ps = []
            for k, n in enumerate(topo["patches"]):
                kw = {"bounds1": (k, k + 1)}
                pk = mk(n, **kw)
                if topo.get("mapped"):
                    pk = Mapping("M%d" % (k + 1), dim=d)(pk)
                ps.append(pk)
            conn = [((a[0], a[1], a[2]), (b[0], b[1], b[2]), 1 if d == 2 else (1, 1, 1)) for a, b in topo["joins"]]
            self.domain = Domain.join(ps, conn, topo["name"])
            self.patches = ps
        elif kind == "interiors":
            ps = [InteriorDomain(n, dim=d) for n in topo["patches"]]
            self.domain = Union(*ps)
            self.patches = ps
        else:
            raise ValueError(kind)
        self.kind = kind
        # TerminalExpr(expr, Union) has no mapping attribute: un-split integrands are lowered on one member
        self.lower_domain = self.patches[0] if kind == "interiors" else self.domain
        self.V = ScalarFunctionSpace("V", self.domain)
        self.W = VectorFunctionSpace("W", self.domain)
        self.funcs = {}
        self.consts = {}
        self.nn = NormalVector("nn")
        c = self.domain.coordinates
        self.coords = list(c) if isinstance(c, (tuple, list)) or hasattr(c, "__iter__") else [c]

    def sf(self, name):
        from sympde.topology import element_of
        if name not in self.funcs:
            self.funcs[name] = element_of(self.V, name=name)
        return self.funcs[name]

    def vf(self, name):
        from sympde.topology import element_of
        if name not in self.funcs:
            self.funcs[name] = element_of(self.W, name=name)
        return self.funcs[name]

    def arguments(self, args):
        """the functions of one slot: elements of V / W, or of the product space V x W x ... when there are several"""
        from sympde.topology import element_of, ProductSpace
        if len(args) >= 2:
            X = ProductSpace(*[self.W if a["vec"] else self.V for a in args])
            els = element_of(X, name=",".join(a["name"] for a in args))
            for a, f in zip(args, els):
                self.funcs[a["name"]] = f
            return tuple(els)
        return tuple(self.vf(a["name"]) if a["vec"] else self.sf(a["name"]) for a in args)

    def const(self, name):
        from sympde.core import Constant
        if name not in self.consts:
            self.consts[name] = Constant(name)
        return self.consts[name]

    def dom(self, D):
        from sympde.topology import Union
        t = D["t"]
        if t == "domain":
            return self.domain
        if t == "patch":
            p = self.patches[D["p"]]
            return p
        if t == "face":
            return self.patches[D["p"]].get_boundary(axis=D["axis"], ext=D["ext"])
        if t == "bnd":
            return self.named[D["n"]]
        if t == "boundary":
            return self.domain.boundary
        if t == "union":
            return Union(*[self.dom(x) for x in D["of"]])
        if t == "rawdomain":
            return self.domain
        if t == "rawpatch":
            return self.patches[D["p"]]
        raise ValueError(t)

    def rawdom(self, D):
        """an entry of a form object's `domain`: integral() / Functional() take interiors, a raw entry is kept as it is"""
        if D["t"] == "patch":
            return self.patches[D["p"]].interior
        if D["t"] == "domain":
            return self.domain.interior
        return self.dom(D)


OPS1 = ("grad", "div", "curl", "rot", "laplace", "hessian")
OPS2 = ("dot", "inner", "cross", "bracket")


def build_e(E, ctx):
    import sympy as sp
    import importlib
    C = importlib.import_module("sympde.calculus")
    k = E["k"]
    if k == "num":
        return sp.Rational(E["p"], E.get("q", 1))
    if k == "const":
        return ctx.const(E["name"])
    if k == "coord":
        return ctx.coords[E["i"]]
    if k == "sf":
        return ctx.sf(E["name"])
    if k == "vf":
        return ctx.vf(E["name"])
    if k == "comp":
        return build_e(E["of"], ctx)[E["i"]]
    if k == "add":
        r = build_e(E["a"][0], ctx)
        for a in E["a"][1:]:
            r = r + build_e(a, ctx)
        return r
    if k == "mul":
        r = build_e(E["a"][0], ctx)
        for a in E["a"][1:]:
            r = r * build_e(a, ctx)
        return r
    if k == "pow":
        return build_e(E["b"], ctx) ** E["n"]
    if k == "fn":
        return {"sin": sp.sin, "cos": sp.cos, "exp": sp.exp}[E["f"]](build_e(E["a"], ctx))
    if k == "op":
        f = getattr(C, E["name"])
        return f(*[build_e(a, ctx) for a in E["a"]])
    if k == "nn":
        return ctx.nn
    if k == "tuple":
        return sp.Tuple(*[build_e(a, ctx) for a in E["items"]])
    raise ValueError(k)


# ---------------------------------------------------------------------------- serialisation
def ser_region(r):
    from sympde.topology.basic import Boundary, Interface, InteriorDomain
    if isinstance(r, Interface):
        return {"t": "iface", "minus": ser_region(r.minus), "plus": ser_region(r.plus)}
    if isinstance(r, Boundary):
        if r.axis is not None and r.ext is not None:
            return {"t": "face", "p": str(r.domain.name), "axis": int(r.axis), "ext": int(r.ext)}
        return {"t": "bnd", "p": str(r.domain.name), "n": str(r.name)}
    if isinstance(r, InteriorDomain):
        return {"t": "patch", "p": str(r.name)}
    raise ser.Unsupported("region %s" % type(r).__name__)


def ser_target(t):
    from sympde.topology.basic import Union
    if isinstance(t, Union):
        return {"t": "union", "of": [ser_region(x) for x in t.args]}
    return ser_region(t)


def members_of(d):
    """the atomic regions an integral over d is split into, read from the real object"""
    from sympde.topology.basic import Union
    from sympde.topology import Domain
    if isinstance(d, Union):
        out = []
        for x in d.args:
            for r in members_of(x):
                if r not in out:
                    out.append(r)
        return out
    if isinstance(d, Domain):
        i = d.interior
        return [ser_region(x) for x in (i.args if isinstance(i, Union) else [i])]
    return [ser_region(d)]


def ser_scalar(expr):
    """ser.ser_sx with the components nn[i] of the normal vector as `normal` atoms"""
    import sympy as sp
    from sympde.topology.domain import NormalVector
    expr = sp.sympify(expr)
    sub = {}
    for a in expr.atoms(sp.Indexed):
        if isinstance(a.base, NormalVector):
            sub[a] = sp.Symbol("__nrm_%d" % int(a.indices[0]))
    if sub:
        expr = expr.xreplace(sub)
    j = ser.ser_sx(expr)

    def fix(n):
        k = n["k"]
        if k == "at":
            if n["t"] == "const" and n["name"].startswith("__nrm_"):
                return {"k": "at", "t": "normal", "s": "0", "i": int(n["name"][6:])}
            return n
        if k in ("add", "mul"):
            return {"k": k, "a": [fix(x) for x in n["a"]]}
        if k == "pow":
            return {"k": "pow", "b": fix(n["b"]), "e": fix(n["e"])}
        if k == "fn":
            return {"k": "fn", "f": n["f"], "a": fix(n["a"])}
        return n
    return fix(j)


def ser_matrix(expr):
    from sympy import Matrix, ImmutableDenseMatrix
    if isinstance(expr, (Matrix, ImmutableDenseMatrix)):
        return [[ser_scalar(expr[i, j]) for j in range(expr.shape[1])] for i in range(expr.shape[0])]
    return [[ser_scalar(expr)]]          # KernelExpression unwraps 1x1 matrices


def ser_comp(f):
    from sympde.topology.space import ScalarFunction, IndexedVectorFunction
    if isinstance(f, ScalarFunction):
        return [str(f.name), 0]
    if isinstance(f, IndexedVectorFunction):
        return [str(f.base.name), int(f.indices[0]) + 1]
    raise ser.Unsupported("component %s" % type(f).__name__)


# ---------------------------------------------------------------------------- numeric oracle
class Conc(ser.Concrete):
    """explicit polynomials for every field component; `zeroed` components are the zero function"""

    def __init__(self, rng, dim):
        super().__init__(rng, dim=dim, deg=2)
        self.zeroed = set()

    def atom(self, a, fam):
        if a["t"] == "normal":
            return self.const("__nrm_%d" % a["i"])
        if a["t"] == "fld" and (a["f"], a["c"]) in self.zeroed:
            return 0
        return super().atom(a, fam)


def rkey(r):
    return json.dumps(r, sort_keys=True)


def numeric_oracle(case, out):
    """The property itself on the implementation's own output, with explicit polynomials:
    (a) sum of the entries of the kernel of region r == sum of the lowered integrands of the integrals whose
        domain contains r (expected members: from the harness' description of the topology);
    (b) entry (i,j) == that integrand with every other test / trial component replaced by the zero function;
    (c) a region without kernel has a vanishing integrand."""
    import sympy as sp
    rng = random.Random(case.get("seed", 0))
    conc = Conc(rng, case["dim"])
    fam = False
    exp_regions = case["expect"]["leaf_regions"]
    integrand = {}
    order = []
    for leaf, regs in zip(out["leaves"], exp_regions):
        for r in regs:
            k = rkey(r)
            if k not in integrand:
                integrand[k] = []
                order.append(r)
            integrand[k].append(leaf.get("Leff", leaf["L"]))
    tests = [tuple(x) for x in out["tests"]]
    trials = [tuple(x) for x in out["trials"]]
    bad = []

    def value(j, zero=()):
        conc.zeroed = set(zero)
        return conc.sx(j, fam)

    def total(k, zero=()):
        return sp.Add(*[value(j, zero) for j in integrand[k]])

    seen = {}
    for kern in out["kernels"]:
        k = rkey(kern["target"])
        seen[k] = seen.get(k, 0) + 1
        if kern["target"]["t"] == "union":
            # only the corner case "the expression is zero" of a raw form object produces such a target
            for r in kern["target"]["of"]:
                seen[rkey(r)] = seen.get(rkey(r), 0) + 1
            if any(e != {"k": "num", "p": 0, "q": 1} for row in kern["M"] for e in row):
                bad.append({"what": "non-zero-kernel-on-a-union", "region": kern["target"]})
            continue
        if k not in integrand:
            bad.append({"what": "kernel-on-foreign-region", "region": kern["target"]})
            continue
        M = kern["M"]
        want = total(k)
        got = sp.Add(*[value(e) for row in M for e in row])
        ok, info = ser.numeric_equal(got, want, conc, npts=2)
        if not ok:
            bad.append({"what": "entries-do-not-sum-to-integrand", "region": kern["target"], "info": info})
        rows = tests if tests else [None]
        cols = trials if trials else [None]
        if len(M) != len(rows) or any(len(r) != len(cols) for r in M):
            bad.append({"what": "shape", "region": kern["target"], "shape": [len(M), len(M[0]) if M else 0],
                        "want": [len(rows), len(cols)]})
            continue
        for i, t in enumerate(rows):
            for jx, u in enumerate(cols):
                zero = [x for x in tests if x != t] + [x for x in trials if x != u]
                w = total(k, zero)
                g = value(M[i][jx])
                ok, info = ser.numeric_equal(g, w, conc, npts=2)
                if not ok:
                    bad.append({"what": "entry-is-not-its-block", "region": kern["target"], "i": i, "j": jx,
                                "test": list(t) if t else None, "trial": list(u) if u else None, "info": info})
    for k, n in seen.items():
        if n > 1:
            bad.append({"what": "several-kernels-for-one-region", "region": json.loads(k), "count": n})
    for r in order:
        k = rkey(r)
        if k not in seen:
            ok, info = ser.numeric_equal(total(k), sp.Integer(0), conc, npts=2)
            if not ok:
                bad.append({"what": "region-without-kernel", "region": r, "info": info})
    return {"ok": not bad, "bad": bad[:6]}


# ---------------------------------------------------------------------------- which arms ran
class ArmTracer:
    """Records which arms of TerminalExpr.eval (BasicForm branch) and of _to_matrix_form ran during one lowering.
    Arms are recognised by the *text* of a line inside them (no line numbers are hard-wired); a mark whose text is
    not found in the source is simply not traced."""

    MARKS = {"eval": [("d_expr[d] += a", "expr-is-Add"), ("d_expr[d] = expr.expr", "single-integral"),
                      ("d_new[domain] = _to_matrix_form(S.Zero", "corner-case-zero"),
                      ("for interior in domain.as_tuple()", "union-keyed-kernel"),
                      ("_split_expr_over_interface(newexpr, interface", "interface"),
                      ("ls += [BoundaryExpression(domain, newexpr)]", "boundary-kernel"),
                      ("ls += [DomainExpression(domain, newexpr)]", "domain-kernel")],
             "matrix": [("M[i][j] = expr_i.subs(subs_j)", "matrix:bilinear"), ("M[i][0] = expr.subs(subs_i)", "matrix:linear"),
                        ("M = [[expr]]", "matrix:functional")]}

    def __init__(self):
        import inspect
        from sympde.expr.evaluation import TerminalExpr, _to_matrix_form
        self.enabled = False
        self.hit = set()
        self.tags = {}
        self.found = []
        mon = getattr(sys, "monitoring", None)
        if mon is None:
            return
        try:
            f = TerminalExpr.eval.__func__
            f = getattr(f, "__wrapped__", f)
            codes = {"eval": f.__code__, "matrix": _to_matrix_form.__code__}
            for key, code in codes.items():
                fn = f if key == "eval" else _to_matrix_form
                lines, first = inspect.getsourcelines(fn)
                for k, l in enumerate(lines):
                    for text, tag in self.MARKS[key]:
                        if text in l and not l.strip().startswith("#"):
                            self.tags[(code, first + k)] = tag
                            self.found.append(tag)
            mon.use_tool_id(4, "verif-C06")
            mon.register_callback(4, mon.events.LINE, self._line)
            for code in codes.values():
                mon.set_local_events(4, code, mon.events.LINE)
            self.enabled = True
        except Exception:  # noqa
            self.enabled = False

    def _line(self, code, lineno):
        t = self.tags.get((code, lineno))
        if t:
            self.hit.add(t)

    def reset(self):
        self.hit = set()


TRACER = None



# ---------------------------------------------------------------------------- direct probes of anchored functions
def run_probe(case):
    """One direct call of an anchored function whose arm the form generator cannot reach (error exits, the Trace / Matrix /
    vector arms of TerminalExpr.eval, the flags of Integral.__new__).  -> {"probe":name, "out":{...}} ; errors as an enum."""
    from sympy.core.cache import clear_cache
    clear_cache()
    import sympy as sp
    from sympde.expr import integral, TerminalExpr, LinearExpr
    from sympde.expr.expr import Integral, IntAdd
    from sympde.expr.basic import BasicExpr
    from sympde.expr.evaluation import _get_trials_tests, _unpack_functions, _to_matrix_form
    from sympde.topology import NormalVector, TangentVector, Interval, ProductDomain, Mapping
    from sympde.topology.mapping import InterfaceMapping
    from sympde.topology.space import trace_0, trace_1
    import importlib
    C = importlib.import_module("sympde.calculus")
    ctx = Ctx(case)
    name = case["probe"]
    d = ctx.dim
    res = {"probe": name}

    def guarded(fn):
        try:
            return {"ok": fn()}
        except ser.Unsupported as e:
            return {"unsupported": str(e)[:200]}
        except Exception as e:  # noqa
            return {"exc": errkind(e)}

    def sxs(x):
        return ser_scalar(x)

    if name == "integral-non-expr":
        u, v = ctx.sf("u"), ctx.sf("v")
        bad = {"tuple": sp.Tuple(u, v), "list": [u, v], "str": "u", "matrix": sp.Matrix([[u, v]]), "pytuple": (u, v)}[case["what"]]
        res["out"] = guarded(lambda: type(integral(ctx.dom(case["dom"]), bad)).__name__)
    elif name == "integral-bad-domain":
        u = ctx.sf("u")
        what = case["what"]
        if what == "none":
            res["out"] = guarded(lambda: bool(Integral(u, None) == 0))
        else:
            obj = {"interval": lambda: Interval("I", coordinate=sp.Symbol("s")),
                   "product": lambda: ProductDomain(Interval("I1", coordinate=sp.Symbol("s1")), Interval("I2", coordinate=sp.Symbol("s2"))),
                   "symbol": lambda: sp.Symbol("Omega")}[what]()
            res["out"] = guarded(lambda: type(Integral(u, obj)).__name__)
    elif name == "integral-flags":
        u, v = ctx.sf("u"), ctx.sf("v")
        D = case["dom"]
        if D["t"] == "iface":
            dom = ctx.domain.interfaces
            from sympde.topology.basic import Union as U_
            dom = dom.args[0] if isinstance(dom, U_) else dom
        else:
            dom = ctx.dom(D)
            if D["t"] == "patch":
                dom = dom.interior

        def f():
            e = u * v
            if D["t"] == "iface":
                from sympde.calculus import minus, plus
                e = minus(u) * plus(v)
            i = Integral(e, dom)
            return {"cls": type(i).__name__, "flags": [i.is_domain_integral, i.is_boundary_integral, i.is_interface_integral],
                    "domain_same": bool(i.domain == dom), "expr_same": bool(i.expr == e), "nargs": len(i.args)}
        res["out"] = guarded(f)
    elif name == "unpack":
        pool = {"u": ctx.sf("u"), "v": ctx.sf("v"), "F": ctx.vf("F"), "G": ctx.vf("G")}
        pool["sym"] = sp.Symbol("x")
        pool["F0"] = pool["F"][0]
        pool["num"] = sp.Integer(1)
        args = [pool[n] for n in case["args"]]
        res["out"] = guarded(lambda: [ser_comp(f) for f in _unpack_functions(args)])
    elif name == "trials-tests":
        what = case["what"]
        u, v, F = ctx.sf("u"), ctx.sf("v"), ctx.vf("F")
        if what == "symbol":
            res["out"] = guarded(lambda: _get_trials_tests(sp.Symbol("x"), flatten=True) and None)
        elif what == "basicexpr":
            res["out"] = guarded(lambda: _get_trials_tests(BasicExpr(), flatten=True) and None)
        elif what == "linearexpr":
            def f():
                tr, te = _get_trials_tests(LinearExpr((v, F), v + F[0]), flatten=case.get("flatten", True))
                return {"trials": tr is None, "tests": [ser_comp(x) for x in te] if case.get("flatten", True) else [str(x.name) for x in te]}
            res["out"] = guarded(f)
    elif name == "radd-nonzero":
        u, v = ctx.sf("u"), ctx.sf("v")
        i = integral(ctx.dom(case["dom"]), u * v)
        o = {"one": 1, "symbol": sp.Symbol("a"), "sone": sp.Integer(1)}[case["what"]]
        res["out"] = guarded(lambda: type(o + i).__name__ if not case.get("right") else type(i + o).__name__)
    elif name in ("trace", "matrix", "basicexpr-arm"):
        if name == "trace":
            B = ctx.dom(case["dom"])
            order = case["order"]
            e = build_e(case["e"], ctx)

            def f():
                if order >= 2:
                    from sympde.topology.space import Trace
                    return type(TerminalExpr(Trace(e, B, order=order), ctx.lower_domain)).__name__
                if order == 0:
                    got = TerminalExpr(trace_0(e, B), ctx.lower_domain)
                    want = TerminalExpr(e, ctx.lower_domain)
                    return {"pairs": [[sxs(got), sxs(want)]]}
                got = TerminalExpr(trace_1(e, B), ctx.lower_domain)
                M = TerminalExpr(e, ctx.lower_domain)
                if d == 1:          # the code returns the lowered expression itself (a 1x1 matrix for a vector)
                    one = lambda z: z[0, 0] if isinstance(z, (sp.Matrix, sp.ImmutableDenseMatrix)) else z  # noqa
                    return {"pairs": [[sxs(one(got)), sxs(one(M))]], "same_type": type(got).__name__ == type(M).__name__}
                n = NormalVector("n")
                comps = [sxs(M[i]) for i in range(d)]
                nrm = [sxs(n[i]) for i in range(d)]
                return {"pairs": [[sxs(got), None]], "comps": comps, "normal": nrm}
            res["out"] = guarded(f)
        elif name == "matrix":
            rows = [[build_e(x, ctx) for x in row] for row in case["rows"]]

            def f():
                got = TerminalExpr(sp.Matrix(rows) if not case.get("immutable") else sp.ImmutableDenseMatrix(rows), ctx.lower_domain)
                if not isinstance(got, (sp.Matrix, sp.ImmutableDenseMatrix)):
                    return {"shape": None}
                pairs = []
                for i in range(len(rows)):
                    for j in range(len(rows[0])):
                        pairs.append([sxs(got[i, j]), sxs(TerminalExpr(rows[i][j], ctx.lower_domain))])
                return {"shape": [int(got.shape[0]), int(got.shape[1])], "pairs": pairs}
            res["out"] = guarded(f)
        else:
            v = ctx.sf("v")
            e = build_e(case["e"], ctx)
            res["out"] = guarded(lambda: {"pairs": [[sxs(TerminalExpr(LinearExpr(v, e), ctx.lower_domain)),
                                                     sxs(TerminalExpr(e, ctx.lower_domain))]]})
    elif name == "vector-arm":
        cls_ = {"tangent": TangentVector, "normal": NormalVector}[case["what"]]
        vec = cls_("t" if case["what"] == "tangent" else "nn")

        def f():
            got = TerminalExpr(vec, ctx.lower_domain)
            ents = []
            for i in range(got.shape[0]):
                for j in range(got.shape[1]):
                    x = got[i, j]
                    ents.append([type(x.base).__name__, bool(x.base == vec), int(x.indices[0])])
            return {"shape": [int(got.shape[0]), int(got.shape[1])], "entries": ents}
        res["out"] = guarded(f)
    elif name == "abs-arm":
        u, v = ctx.sf("u"), ctx.sf("v")
        e = build_e(case["e"], ctx)
        res["out"] = guarded(lambda: bool(TerminalExpr(sp.Abs(e), ctx.lower_domain) == sp.Abs(TerminalExpr(e, ctx.lower_domain))))
    elif name == "matrix-form-interface-mapping":
        u, v = ctx.sf("u"), ctx.sf("v")
        M1, M2 = Mapping("M1", dim=d), Mapping("M2", dim=d)
        IM = InterfaceMapping(M1, M2)
        B = ctx.dom(case["dom"])

        def f():
            J = IM.jacobian.det() if case.get("det") else IM.jacobian[0, 0]
            Jm = IM.minus.jacobian.det() if case.get("det") else IM.minus.jacobian[0, 0]
            e, em = u * v * J, u * v * Jm
            got = _to_matrix_form(e, trials=(u,), tests=(v,), domain=B)
            want = _to_matrix_form(em, trials=(u,), tests=(v,), domain=B)
            return {"shape": [int(got.shape[0]), int(got.shape[1])], "no_interface_mapping": not got.atoms(InterfaceMapping),
                    "has_before": bool(e.atoms(InterfaceMapping)), "equals_minus": bool(got == want)}
        res["out"] = guarded(f)
    elif name == "foreign-domain":
        # an entry of `domain` whose interior is not a domain at all: the final loop must refuse it (TypeError)
        from sympde.expr import Functional
        f_ = ctx.sf("f")
        F = Functional(f_ ** 2, ctx.dom(case["dom"]) if case["dom"]["t"] != "domain" else ctx.domain)

        class Foreign:
            interior = sp.Symbol("not_a_domain")
            dim = d
            mapping = None
        if F.expr.is_Add:
            F = Functional(f_ ** 2, ctx.patches[0])
        F._domain = Foreign()
        res["out"] = guarded(lambda: len(TerminalExpr(F, ctx.domain)))
    else:
        res["out"] = {"exc": "unknown-probe"}
    return res


# ---------------------------------------------------------------------------- one case
def errkind(e):
    for cls, name in ((NotImplementedError, "not-implemented"), (AssertionError, "assertion"), (TypeError, "type"),
                      (ValueError, "value"), (AttributeError, "attribute"), (KeyError, "key"),
                      (IndexError, "index"), (NameError, "name")):
        if isinstance(e, cls):
            return name
    if type(e).__name__ == "UnconsistentLinearExpressionError":
        return "refused:linearity"
    return "other:" + type(e).__name__


def run_case(case):
    from sympy.core.cache import clear_cache
    clear_cache()
    from sympde.expr import BilinearForm, LinearForm, Functional, integral, TerminalExpr
    from sympde.expr.evaluation import _get_trials_tests, KernelExpression
    from sympde.expr.basic import BasicForm
    ctx = Ctx(case)
    out = {"leaves": []}
    stage = "build"
    try:
        trials = ctx.arguments(case.get("trials", []))
        tests = ctx.arguments(case.get("tests", []))

        out["coefs"] = {}

        def eff(Lj, wraps):
            # the integrand this leaf contributes, by distributivity: the operators met on the way from the root
            # (outermost first) applied to the lowered integrand; computed by the harness, not by the library
            for kind, cj in reversed(wraps):
                if kind == "mul":
                    Lj = {"k": "mul", "a": [cj, Lj]}
                elif kind == "div":       # x / c, and c / x as the library reads it
                    Lj = {"k": "mul", "a": [Lj, {"k": "pow", "b": cj, "e": {"k": "num", "p": -1, "q": 1}}]}
                else:
                    Lj = {"k": "mul", "a": [{"k": "num", "p": -1, "q": 1}, Lj]}
            return Lj

        def coef(X, path):
            c = build_e(X["c"], ctx)
            cj = ser_scalar(c)
            out["coefs"][path] = cj
            return c, cj

        def walk(X, wraps, path):
            k = X["k"]
            if k == "add":
                a = walk(X["a"], wraps, path + "a")
                b = walk(X["b"], wraps, path + "b")
                return a + b
            if k == "sub":
                a = walk(X["a"], wraps, path + "a")
                b = walk(X["b"], wraps + [("neg", None)], path + "b")
                return a - b
            if k == "scale":
                c, cj = coef(X, path)
                inner = walk(X["x"], wraps + [("mul", cj)], path + "x")
                return inner * c if X.get("right") else c * inner
            if k == "div":
                c, cj = coef(X, path)
                inner = walk(X["x"], wraps + [("div", cj)], path + "x")
                return inner / c
            if k == "rdiv":
                c, cj = coef(X, path)
                inner = walk(X["x"], wraps + [("div", cj)], path + "x")
                if inner == 0:
                    raise RdivRefused("zero")      # c / 0: the operand cancelled to the number 0, not a statement about forms
                try:
                    return c / inner
                except TypeError:
                    # the library reads c / I as I / c today; refusing the quotient is the other acceptable behaviour
                    raise RdivRefused()
            if k == "neg":
                inner = walk(X["x"], wraps + [("neg", None)], path + "x")
                return -inner
            if k == "zero":
                from sympy import S
                return S.Zero if X.get("sym") else 0
            if k == "sum":
                return sum([walk(x, wraps, path + "s%d" % i) for i, x in enumerate(X["xs"])])
            d = ctx.dom(X["dom"])
            e = build_e(X["e"], ctx)
            try:
                L = TerminalExpr(e, ctx.lower_domain)
            except Exception as ex:  # noqa
                raise LeafError(type(ex).__name__ + ": " + str(ex)[:200])
            from sympy import Matrix, ImmutableDenseMatrix, Tuple
            if isinstance(L, (Matrix, ImmutableDenseMatrix, Tuple, tuple, list)):
                raise LeafError("the integrand does not lower to a scalar: %s" % type(L).__name__)
            Lj = ser_scalar(L)
            out["leaves"].append({"members": members_of(d), "L": Lj, "Leff": eff(Lj, wraps)})
            if case["kind"] == "functional":
                return (e, d)
            return integral(d, e)

        expr = walk(case["x"], [], "")
        if case["kind"] == "bilinear":
            form = BilinearForm((trials, tests), expr)
        elif case["kind"] == "linear":
            form = LinearForm(tests, expr)
        else:
            form = Functional(expr[0], expr[1])
        if case.get("raw_domain") and isinstance(form, BasicForm):
            from sympde.topology import Union
            form._domain = Union(*[ctx.rawdom(D) for D in case["raw_domain"]])
        stage = "lower"
        global TRACER
        if TRACER is None:
            TRACER = ArmTracer()
        TRACER.reset()
        res = TerminalExpr(form, ctx.domain)
        out["arms"] = sorted(TRACER.hit) if TRACER.enabled else None
        out["arms_traceable"] = sorted(set(TRACER.found)) if TRACER.enabled else []
        stage = "serialise"
        if not isinstance(form, BasicForm):
            out["zero"] = True
            out["zero_result_is_zero"] = bool(res == 0)
            out["trials"], out["tests"], out["kernels"], out["form_domain"] = [], [], [], []
            return out
        out["zero"] = False
        tr, te = _get_trials_tests(form, flatten=True)
        out["trials"] = [ser_comp(f) for f in (tr or [])]
        out["tests"] = [ser_comp(f) for f in (te or [])]
        out["form_domain"] = members_of(form.domain)
        if not isinstance(res, tuple):
            return {"err": "result-not-a-tuple", "msg": type(res).__name__, "stage": stage, "leaves": out["leaves"]}
        ks = []
        for k in res:
            if not isinstance(k, KernelExpression):
                return {"err": "result-not-a-kernel", "msg": type(k).__name__, "stage": stage, "leaves": out["leaves"]}
            ks.append({"cls": type(k).__name__, "target": ser_target(k.target), "M": ser_matrix(k.expr)})
        out["kernels"] = ks
    except RdivRefused as e:
        return {"err": "rdiv-of-zero" if e.args else "rdiv-refused", "stage": stage, "leaves": out["leaves"]}
    except LeafError as e:
        # the lowering of the integrand itself (an expression, C01) failed: not a statement about forms
        return {"err": "leaf-lowering", "msg": str(e)[:300], "stage": stage, "leaves": out["leaves"]}
    except ser.Unsupported as e:
        return {"err": "unsupported-node", "msg": str(e)[:200], "stage": stage, "leaves": out["leaves"]}
    except Exception as e:  # noqa
        return {"err": errkind(e), "msg": (type(e).__name__ + ": " + str(e))[:300], "stage": stage,
                "leaves": out["leaves"], "tb": traceback.format_exc()[-600:]}
    try:
        out["oracle"] = numeric_oracle(case, out)
    except Exception as e:  # noqa
        out["oracle"] = {"ok": None, "info": "oracle failed: %s" % (type(e).__name__ + ": " + str(e))[:200]}
    return out


def main():
    payload = json.load(open(sys.argv[1]))
    res = []
    for case in payload["cases"]:
        try:
            res.append(run_probe(case) if case.get("kind") == "probe" else run_case(case))
        except Exception:  # noqa
            res.append({"crash": traceback.format_exc()[-1500:]})
    json.dump({"results": res}, open(sys.argv[2], "w"))


if __name__ == "__main__":
    main()
