"""Implementation side of C07: builds multi-patch domains and DG-style interface forms, calls the real
TerminalExpr(form, domain) and serialises every resulting kernel.  Independently of the code under
test it also lowers the integrand of every interface integral by the DEFINITIONS of
jump / avg / minus / plus / Dn / grad / div / dot (class Lower), and evaluates the conservation oracle
numerically on explicit polynomials (exact rational arithmetic).

case : {"dim":2|3, "npatch":2|3, "mapped":bool, "conn":[[[p,axis,ext],[q,axis,ext]]..],
        "form":"bilinear"|"linear", "funcs":{name:{"vec":bool}}, "trials":[..], "tests":[..],
        "terms":[{"iface":k|"all","expr":G}], "volume":null|"mass", "seed":n}
G    : {"k":"num","p","q"} {"k":"const","name"} {"k":"coord","i"} {"k":"fn","name"} {"k":"nn"}
       {"k":"add","a":[..]} {"k":"mul","a":[..]} {"k":"pow","b":G,"e":n}
       {"k":"comp","a":[G],"i":n}   component: minus(F)[i] / plus(F)[i] of a restricted vector function, nn[i]
       {"k":"op","name":jump|avg|minus|plus|Dn|grad|div|dot,"a":[..]}
       The argument of jump / avg / minus / plus may be COMPOUND (dot(grad(w), nn), dot(F, nn), f*w, f**2, div(grad(w))):
       by definition the restriction acts on every function and on the normal vector inside (class Lower).
result: see run_case (run_case_explained adds "explained_by").
"""
import json
import random
import sys
import traceback

import sympy as sp
from sympy import Add, Mul, Pow, Integer, Rational, Symbol, S

PHYS = ["x", "y", "z"]
LOGI = ["x1", "x2", "x3"]


class Unsupported(Exception):
    pass


# --------------------------------------------------------------------------- sx helpers (JSON, see ser.py)
def num(p, q=1):
    return {"k": "num", "p": int(p), "q": int(q)}


def sadd(l):
    l = [x for x in l if not (x["k"] == "num" and x["p"] == 0)]
    if not l:
        return num(0)
    return l[0] if len(l) == 1 else {"k": "add", "a": l}


def smul(l):
    if any(x["k"] == "num" and x["p"] == 0 for x in l):
        return num(0)
    l = [x for x in l if not (x["k"] == "num" and x["p"] == 1 and x["q"] == 1)]
    if not l:
        return num(1)
    return l[0] if len(l) == 1 else {"k": "mul", "a": l}


def sx_map_atoms(j, g):
    k = j["k"]
    if k == "num":
        return j
    if k == "at":
        return g(j)
    if k in ("add", "mul"):
        return {"k": k, "a": [sx_map_atoms(a, g) for a in j["a"]]}
    if k == "pow":
        return {"k": "pow", "b": sx_map_atoms(j["b"], g), "e": sx_map_atoms(j["e"], g)}
    if k == "fn":
        return {"k": "fn", "f": j["f"], "a": sx_map_atoms(j["a"], g)}
    raise Unsupported("sx node " + k)


def sx_atoms(j, acc=None):
    acc = [] if acc is None else acc
    k = j["k"]
    if k == "at":
        acc.append(j)
    elif k in ("add", "mul"):
        for a in j["a"]:
            sx_atoms(a, acc)
    elif k == "pow":
        sx_atoms(j["b"], acc)
        sx_atoms(j["e"], acc)
    elif k == "fn":
        sx_atoms(j["a"], acc)
    return acc


def restrict(side, j):
    """minus(w) / plus(w) by definition: every function and the normal are taken on that side"""
    def g(a):
        if a["t"] in ("fld", "normal") and a["s"] == "0":
            b = dict(a)
            b["s"] = side
            return b
        return a
    return sx_map_atoms(j, g)


def bump(al, i):
    al = list(al) + [0] * (i + 1 - len(al))
    al[i] += 1
    return al


# --------------------------------------------------------------------------- the world of one case
class World:
    def __init__(self, case):
        from sympde.topology import Square, Cube, Domain, Mapping
        from sympde.topology import ScalarFunctionSpace, VectorFunctionSpace, element_of, NormalVector
        from sympde.core import Constant
        self.case = case
        self.dim = dim = case["dim"]
        self.mapped = bool(case.get("mapped"))
        self.lg = not self.mapped           # unmapped patches have logical coordinates x1,x2,x3 and dx1..
        names = ["A", "B", "C", "D"][: case["npatch"]]
        mk = Square if dim == 2 else Cube
        self.patches = []
        for k, n in enumerate(names):
            p = mk("%s%d" % (n, dim))
            if self.mapped:
                p = Mapping("M%d%s" % (dim, n), dim=dim)(p)
            self.patches.append(p)
        conn = [tuple(tuple(x) for x in c) for c in case["conn"]]
        self.domain = Domain.join(self.patches, conn, "Omega%d%s" % (dim, "m" if self.mapped else ""))
        self.faces = {}
        for k, p in enumerate(self.patches):
            for axis in range(dim):
                for ext in (-1, 1):
                    self.faces[p.get_boundary(axis=axis, ext=ext)] = "P%d:%d:%d" % (k, axis, ext)
        self.interiors = {p.interior: "P%d" % k for k, p in enumerate(self.patches)}
        ifs = self.domain.interfaces
        ifs = list(ifs.args) if not hasattr(ifs, "minus") else [ifs]
        # order the interfaces like the connectivity list
        self.ifaces = []
        for c in conn:
            fm = self.patches[c[0][0]].get_boundary(axis=c[0][1], ext=c[0][2])
            fp = self.patches[c[1][0]].get_boundary(axis=c[1][1], ext=c[1][2])
            hit = [i for i in ifs if i.minus == fm and i.plus == fp]
            if len(hit) != 1:
                raise Unsupported("interface of the connectivity entry not found")
            self.ifaces.append(hit[0])
        self.V = ScalarFunctionSpace("V%d" % dim, self.domain, kind=None)
        self.W = VectorFunctionSpace("W%d" % dim, self.domain, kind=None)
        self.funcs = {}
        for n, d in case["funcs"].items():
            self.funcs[n] = element_of(self.W if d.get("vec") else self.V, name=n)
        self.consts = {}
        self.Constant = Constant
        self.nn = NormalVector("nn")
        self.coords = self.domain.coordinates
        if not isinstance(self.coords, (tuple, list, sp.Tuple)):
            self.coords = (self.coords,)

    def iface_id(self, i):
        return {"name": "%s|%s" % (self.faces[i.minus], self.faces[i.plus]),
                "minus": self.faces[i.minus], "plus": self.faces[i.plus]}

    def const(self, name):
        if name not in self.consts:
            self.consts[name] = self.Constant(name)
        return self.consts[name]

    def build(self, g):
        from sympde.calculus import jump, avg, minus, plus, Dn, grad, div, dot
        k = g["k"]
        if k == "num":
            return Rational(g["p"], g["q"])
        if k == "const":
            return self.const(g["name"])
        if k == "coord":
            return self.coords[g["i"]]
        if k == "fn":
            return self.funcs[g["name"]]
        if k == "nn":
            return self.nn
        if k == "add":
            r = self.build(g["a"][0])
            for a in g["a"][1:]:
                r = r + self.build(a)
            return r
        if k == "mul":
            r = self.build(g["a"][0])
            for a in g["a"][1:]:
                r = r * self.build(a)
            return r
        if k == "pow":
            return self.build(g["b"]) ** int(g["e"])
        if k == "comp":
            return self.build(g["a"][0])[int(g["i"])]
        if k == "op":
            ops = {"jump": jump, "avg": avg, "minus": minus, "plus": plus, "Dn": Dn, "grad": grad, "div": div,
                   "dot": dot}
            return ops[g["name"]](*[self.build(a) for a in g["a"]])
        raise Unsupported("G node " + k)


# --------------------------------------------------------------------------- independent lowering (the definitions)
class Lower:
    """sympde calculus expression -> scalar / vector of iex JSON:
         {"k":"it","t":sx} {"k":"jump","w":sx} {"k":"avg","w":sx} {"k":"add","a":[..]} {"k":"mul","a":[..]}
       `inside` = below jump/avg/minus/plus: plain sx with unrestricted atoms is returned instead."""

    def __init__(self, world):
        self.w = world
        self.notes = set()

    # ---- leaves
    def fld(self, name, c, side="0", al=()):
        al = list(al)
        while al and al[-1] == 0:
            al.pop()
        return {"k": "at", "t": "fld", "lg": self.w.lg, "f": name, "c": c, "s": side, "al": al}

    def normal(self, side, i):
        return {"k": "at", "t": "normal", "s": side, "i": i}

    def d(self, j, i):
        """partial derivative d_i of a plain sx that is linear in field atoms with constant coefficients"""
        k = j["k"]
        if k == "at":
            if j["t"] == "fld":
                b = dict(j)
                b["al"] = bump(j["al"], i)
                return b
            raise Unsupported("derivative of atom " + j["t"])
        if k == "add":
            return sadd([self.d(a, i) for a in j["a"]])
        if k == "mul":
            fl = [a for a in j["a"] if any(x["t"] == "fld" for x in sx_atoms(a))]
            ot = [a for a in j["a"] if a not in fl]
            if any(x["t"] not in ("const",) for a in ot for x in sx_atoms(a)):
                raise Unsupported("derivative of a non-constant coefficient")
            if len(fl) != 1:
                raise Unsupported("derivative of a product")
            return smul(ot + [self.d(fl[0], i)])
        if k == "num":
            return num(0)
        raise Unsupported("derivative of " + k)

    # ---- plain (inside an interface operator, or already restricted): returns sx or list of sx
    def plain(self, e):
        from sympde.topology.space import ScalarFunction, VectorFunction, IndexedVectorFunction
        from sympde.topology.domain import NormalVector, MinusNormalVector, PlusNormalVector
        from sympde.calculus.core import (Dot, Grad, Div, NormalDerivative, Jump, Average,
                                           MinusInterfaceOperator, PlusInterfaceOperator)
        from sympde.core.basic import Constant
        dim = self.w.dim
        e = sp.sympify(e)
        if isinstance(e, Integer):
            return num(e)
        if isinstance(e, Rational):
            return num(e.p, e.q)
        if isinstance(e, Constant):
            return {"k": "at", "t": "const", "name": e.name}
        if isinstance(e, ScalarFunction):
            return self.fld(e.name, 0)
        if isinstance(e, VectorFunction):
            return [self.fld(e.name, i + 1) for i in range(dim)]
        if isinstance(e, IndexedVectorFunction):
            return self.fld(e.base.name, int(e.indices[0]) + 1)
        if isinstance(e, (MinusNormalVector, PlusNormalVector, NormalVector)):
            side = "-" if isinstance(e, MinusNormalVector) else "+" if isinstance(e, PlusNormalVector) else "0"
            return [self.normal(side, i) for i in range(dim)]
        if isinstance(e, sp.Indexed) and isinstance(e.base, NormalVector):
            b = e.base
            side = "-" if isinstance(b, MinusNormalVector) else "+" if isinstance(b, PlusNormalVector) else "0"
            return self.normal(side, int(e.indices[0]))
        if isinstance(e, Symbol):
            names = LOGI if self.w.lg else PHYS
            if e.name in names:
                return {"k": "at", "t": "coord", "lg": self.w.lg, "i": names.index(e.name)}
            raise Unsupported("symbol " + e.name)
        if isinstance(e, (MinusInterfaceOperator, PlusInterfaceOperator)):
            side = "-" if isinstance(e, MinusInterfaceOperator) else "+"
            x = self.plain(e.args[0])
            if isinstance(x, list):
                return [restrict(side, a) for a in x]
            return restrict(side, x)
        if isinstance(e, Add):
            xs = [self.plain(a) for a in e.args]
            if any(isinstance(x, list) for x in xs):
                if not all(isinstance(x, list) for x in xs):
                    raise Unsupported("scalar + vector")
                return [sadd([x[i] for x in xs]) for i in range(dim)]
            return sadd(xs)
        if isinstance(e, Mul):
            xs = [self.plain(a) for a in e.args]
            vs = [x for x in xs if isinstance(x, list)]
            ss = [x for x in xs if not isinstance(x, list)]
            if len(vs) > 1:
                raise Unsupported("product of vectors")
            if vs:
                return [smul(ss + [vs[0][i]]) for i in range(dim)]
            return smul(ss)
        if isinstance(e, Pow):
            b = self.plain(e.base)
            if isinstance(b, list) or not e.exp.is_Integer:
                raise Unsupported("power")
            return {"k": "pow", "b": b, "e": num(int(e.exp))}
        if isinstance(e, Dot):
            a, b = self.plain(e.args[0]), self.plain(e.args[1])
            if not (isinstance(a, list) and isinstance(b, list)):
                raise Unsupported("dot of non-vectors")
            return sadd([smul([a[i], b[i]]) for i in range(dim)])
        if isinstance(e, Grad):
            a = self.plain(e.args[0])
            if isinstance(a, list):
                raise Unsupported("gradient of a vector")
            return [self.d(a, i) for i in range(dim)]
        if isinstance(e, Div):
            a = self.plain(e.args[0])
            if not isinstance(a, list):
                raise Unsupported("divergence of a scalar")
            return sadd([self.d(a[i], i) for i in range(dim)])
        if isinstance(e, NormalDerivative):
            a = self.plain(e.args[0])
            if isinstance(a, list):
                raise Unsupported("normal derivative of a vector")
            return sadd([smul([self.d(a, i), self.normal("0", i)]) for i in range(dim)])
        if isinstance(e, (Jump, Average)):
            raise Unsupported("nested interface operator")
        raise Unsupported("node %s" % type(e).__name__)

    # ---- top level: iex
    @staticmethod
    def it(t):
        return {"k": "it", "t": t}

    def top(self, e):
        from sympde.calculus.core import Dot, Jump, Average
        dim = self.w.dim
        e = sp.sympify(e)
        if isinstance(e, (Jump, Average)):
            kind = "jump" if isinstance(e, Jump) else "avg"
            x = self.plain(e.args[0])
            if isinstance(x, list):
                return [{"k": kind, "w": a} for a in x]
            return {"k": kind, "w": x}
        if not e.atoms(Jump, Average):
            x = self.plain(e)
            if isinstance(x, list):
                return [self.it(a) for a in x]
            return self.it(x)
        if isinstance(e, Add):
            xs = [self.top(a) for a in e.args]
            if any(isinstance(x, list) for x in xs):
                if not all(isinstance(x, list) for x in xs):
                    raise Unsupported("scalar + vector")
                return [{"k": "add", "a": [x[i] for x in xs]} for i in range(dim)]
            return {"k": "add", "a": xs}
        if isinstance(e, Mul):
            xs = [self.top(a) for a in e.args]
            vs = [x for x in xs if isinstance(x, list)]
            ss = [x for x in xs if not isinstance(x, list)]
            if len(vs) > 1:
                raise Unsupported("product of vectors")
            if vs:
                return [{"k": "mul", "a": ss + [vs[0][i]]} for i in range(dim)]
            return {"k": "mul", "a": ss}
        if isinstance(e, Dot):
            a, b = self.top(e.args[0]), self.top(e.args[1])
            if not (isinstance(a, list) and isinstance(b, list)):
                raise Unsupported("dot of non-vectors")
            return {"k": "add", "a": [{"k": "mul", "a": [a[i], b[i]]} for i in range(dim)]}
        raise Unsupported("interface operator below %s" % type(e).__name__)


def iden(j):
    """meaning of an iex: jump(w) = w^- - w^+, avg(w) = (w^- + w^+)/2   (plain sx)"""
    k = j["k"]
    if k == "it":
        return j["t"]
    if k == "jump":
        return sadd([restrict("-", j["w"]), smul([num(-1), restrict("+", j["w"])])])
    if k == "avg":
        return smul([num(1, 2), sadd([restrict("-", j["w"]), restrict("+", j["w"])])])
    if k == "add":
        return sadd([iden(a) for a in j["a"]])
    if k == "mul":
        return smul([iden(a) for a in j["a"]])
    raise Unsupported("iex " + k)


# --------------------------------------------------------------------------- serialisation of kernels
class KSer:
    """terminal kernel expression -> sx; restricted atoms, normal components; operators the lowering left
    behind (Average(..), restriction of a derivative) are recorded in self.flags."""

    def __init__(self, world, lower):
        self.w, self.lower = world, lower
        self.flags = set()

    def chain(self, e):
        from sympde.topology.derivatives import _partial_derivatives, _logical_partial_derivatives
        al, lg = [0, 0, 0], None
        while isinstance(e, _partial_derivatives + _logical_partial_derivatives):
            this = isinstance(e, _logical_partial_derivatives)
            if lg is not None and lg != this:
                raise Unsupported("mixed derivative chain")
            lg = this
            al[e.grad_index] += 1
            e = e.args[0]
        return e, lg, al

    def atom(self, e):
        from sympde.topology.space import ScalarFunction, IndexedVectorFunction
        from sympde.calculus.core import MinusInterfaceOperator, PlusInterfaceOperator
        from sympde.core.basic import Constant
        base, lg, al = self.chain(e)
        side = "0"
        if isinstance(base, (MinusInterfaceOperator, PlusInterfaceOperator)):
            side = "-" if isinstance(base, MinusInterfaceOperator) else "+"
            base = base.args[0]
            inner, lg2, al2 = self.chain(base)
            if lg2 is not None:                      # minus(dx(u)): restriction of a derivative
                self.flags.add("restriction-of-derivative")
                if lg is not None and lg != lg2:
                    raise Unsupported("mixed derivative chain")
                lg = lg2
                al = [a + b for a, b in zip(al, al2)]
                base = inner
        if lg is not None and bool(lg) != self.w.lg:
            self.flags.add("wrong-derivative-family")
        if isinstance(base, ScalarFunction):
            return self.lower.fld(base.name, 0, side, al)
        if isinstance(base, IndexedVectorFunction):
            return self.lower.fld(base.base.name, int(base.indices[0]) + 1, side, al)
        if lg is not None:
            raise Unsupported("derivative of %s" % type(base).__name__)
        if side != "0" and isinstance(base, Symbol) and not isinstance(base, Constant) and \
                base.name in (LOGI if self.w.lg else PHYS):
            # minus(x) / plus(x) of a coordinate (the library's product rule minus(x*w) = minus(x)*minus(w) makes them):
            # a point of the interface has one position, the coordinate function has the same value on both sides
            self.flags.add("restricted-coordinate")
            side = "0"
        if side != "0":
            raise Unsupported("restriction of %s" % type(base).__name__)
        if isinstance(base, Constant):
            return {"k": "at", "t": "const", "name": base.name}
        if isinstance(base, Symbol):
            names = LOGI if self.w.lg else PHYS
            if base.name in names:
                return {"k": "at", "t": "coord", "lg": self.w.lg, "i": names.index(base.name)}
            raise Unsupported("symbol " + base.name)
        raise Unsupported("atom %s" % type(base).__name__)

    def sx(self, e):
        from sympde.topology.derivatives import DifferentialOperator
        from sympde.topology.domain import NormalVector, MinusNormalVector, PlusNormalVector
        from sympde.calculus.core import MinusInterfaceOperator, PlusInterfaceOperator, Average, Jump
        e = sp.sympify(e)
        if isinstance(e, Integer):
            return num(e)
        if isinstance(e, Rational):
            return num(e.p, e.q)
        if isinstance(e, sp.Float):
            raise Unsupported("float")
        if isinstance(e, sp.Indexed) and isinstance(e.base, NormalVector):
            b = e.base
            side = "-" if isinstance(b, MinusNormalVector) else "+" if isinstance(b, PlusNormalVector) else "0"
            return {"k": "at", "t": "normal", "s": side, "i": int(e.indices[0])}
        if isinstance(e, Average):
            # an operator TerminalExpr left behind: read by its definition (harness lowering of the argument)
            self.flags.add("unlowered-Average")
            w = self.lower.plain(e.args[0])
            if isinstance(w, list):
                raise Unsupported("vector Average in a kernel")
            return smul([num(1, 2), sadd([restrict("-", w), restrict("+", w)])])
        if isinstance(e, Jump):
            self.flags.add("unlowered-Jump")
            w = self.lower.plain(e.args[0])
            if isinstance(w, list):
                raise Unsupported("vector Jump in a kernel")
            return sadd([restrict("-", w), smul([num(-1), restrict("+", w)])])
        if isinstance(e, (DifferentialOperator, MinusInterfaceOperator, PlusInterfaceOperator, Symbol, sp.Indexed)):
            return self.atom(e)
        if isinstance(e, Add):
            return {"k": "add", "a": [self.sx(a) for a in e.args]}
        if isinstance(e, Mul):
            return {"k": "mul", "a": [self.sx(a) for a in e.args]}
        if isinstance(e, Pow):
            if not e.exp.is_Integer:
                raise Unsupported("non-integer power")
            return {"k": "pow", "b": self.sx(e.base), "e": num(int(e.exp))}
        raise Unsupported("node %s" % type(e).__name__)

    def matrix(self, e):
        from sympy import Matrix, ImmutableDenseMatrix
        if isinstance(e, (Matrix, ImmutableDenseMatrix)):
            return [[self.sx(e[i, j]) for j in range(e.shape[1])] for i in range(e.shape[0])]
        return [[self.sx(e)]]


def tag_of(x):
    from sympde.calculus.core import MinusInterfaceOperator, PlusInterfaceOperator
    if isinstance(x, MinusInterfaceOperator):
        return {"name": x.args[0].name, "side": "-"}
    if isinstance(x, PlusInterfaceOperator):
        return {"name": x.args[0].name, "side": "+"}
    return {"name": str(x), "side": "?"}


# --------------------------------------------------------------------------- numeric oracle (exact rationals)
class Concrete:
    def __init__(self, rng, world, blind=()):
        self.rng, self.w = rng, world
        self.blind = set(blind)     # functions whose side is ignored (explains the cross-side-coefficient finding)
        names = LOGI if world.lg else PHYS
        self.xs = [Symbol(n, real=True) for n in names[: world.dim]]
        self.polys, self.consts, self.normals = {}, {}, {}

    def poly(self, key):
        if key not in self.polys:
            p = 0
            for _ in range(self.rng.randint(3, 4)):
                m = Rational(self.rng.randint(1, 7), self.rng.randint(1, 3)) * self.rng.choice([1, -1])
                for x in self.xs:
                    m *= x ** self.rng.randint(0, 2)
                p += m
            self.polys[key] = p + self.rng.randint(1, 5)
        return self.polys[key]

    def normal(self, side, i):
        # the normal of the plus side is the reversed normal of the minus side; the plain normal of the
        # interface is not related to them by the code, so it gets its own values
        if side == "+":
            return -self.normal("-", i)
        if (side, i) not in self.normals:
            self.normals[(side, i)] = Rational(self.rng.randint(1, 9), self.rng.randint(1, 4)) * self.rng.choice([1, -1])
        return self.normals[(side, i)]

    def atom(self, a):
        t = a["t"]
        if t == "coord":
            return self.xs[a["i"]]
        if t == "const":
            if a["name"] not in self.consts:
                self.consts[a["name"]] = Rational(self.rng.randint(2, 9), self.rng.randint(1, 4))
            return self.consts[a["name"]]
        if t == "normal":
            return self.normal(a["s"], a["i"])
        if t == "fld":
            p = self.poly((a["f"], a["c"], "*" if a["f"] in self.blind else a["s"]))
            for i, n in enumerate(a["al"]):
                for _ in range(n):
                    p = sp.diff(p, self.xs[i])
            return p
        raise Unsupported("atom " + t)

    def sx(self, j):
        k = j["k"]
        if k == "num":
            return Rational(j["p"], j["q"])
        if k == "at":
            return self.atom(j)
        if k == "add":
            return Add(*[self.sx(a) for a in j["a"]])
        if k == "mul":
            return Mul(*[self.sx(a) for a in j["a"]])
        if k == "pow":
            return Pow(self.sx(j["b"]), self.sx(j["e"]))
        raise Unsupported("node " + k)

    def value(self, j, pt):
        return sp.nsimplify(self.sx(j).xreplace(pt), rational=True)

    def point(self):
        return {x: Rational(self.rng.randint(3, 17), self.rng.randint(2, 7)) for x in self.xs}


def read_kernel(j, side, flip):
    """a boundary kernel on the face of `side` read in the two-sided environment"""
    def g(a):
        if a["t"] == "fld" and a["s"] == "0":
            b = dict(a)
            b["s"] = side
            return b
        if a["t"] == "normal" and flip:
            return smul([num(-1), a])
        return a
    return sx_map_atoms(j, g)


def msum(m):
    return sadd([x for row in m for x in row])


# --------------------------------------------------------------------------- one case
def run_case(case):
    from sympy.core.cache import clear_cache
    clear_cache()
    from sympde.expr import BilinearForm, LinearForm, integral, TerminalExpr
    from sympde.expr.expr import Integral
    from sympde.expr.evaluation import BoundaryExpression, InterfaceExpression, DomainExpression
    from sympde.topology.basic import Interface
    out = {}
    w = World(case)
    low = Lower(w)
    out["ifaces"] = [w.iface_id(i) for i in w.ifaces]
    # ---- the form
    total = 0
    for t in case["terms"]:
        e = w.build(t["expr"])
        doms = w.ifaces if t["iface"] == "all" else [w.ifaces[t["iface"]]]
        for d in doms:
            total = total + integral(d, e)
    if case.get("volume") == "mass":
        from sympde.calculus import dot
        vol = 0
        if case["form"] == "bilinear":
            for ku, nu in enumerate(case["trials"]):
                for kv, nv in enumerate(case["tests"]):
                    uv, vv = case["funcs"][nu].get("vec"), case["funcs"][nv].get("vec")
                    if uv and vv:
                        vol = vol + dot(w.funcs[nu], w.funcs[nv])
                    elif not uv and not vv:
                        vol = vol + w.funcs[nu] * w.funcs[nv]
        else:
            for nv in case["tests"]:
                if not case["funcs"][nv].get("vec"):
                    vol = vol + w.coords[0] * w.funcs[nv]
        if vol != 0:
            total = total + integral(w.domain, vol)
            try:
                out["volume_ref"] = low.plain(vol)
            except Unsupported as e:
                out["err"] = {"stage": "lower", "kind": "unsupported-node", "msg": str(e)}
                return out
    tests = tuple(w.funcs[n] for n in case["tests"])
    try:
        if case["form"] == "bilinear":
            trials = tuple(w.funcs[n] for n in case["trials"])
            form = BilinearForm((trials if len(trials) > 1 else trials[0], tests if len(tests) > 1 else tests[0]), total)
        else:
            form = LinearForm(tests if len(tests) > 1 else tests[0], total)
    except Exception as e:  # noqa
        out["err"] = {"stage": "form", "kind": type(e).__name__, "msg": str(e)[:200]}
        return out
    if form == 0 or not hasattr(form, "expr"):
        out["err"] = {"stage": "form", "kind": "zero-form", "msg": "the integrand cancels: the form is 0"}
        return out
    # ---- what the form really contains: per interface, the constructed integrand lowered by the definitions
    integrands = {}
    out["integrals"] = []
    try:
        ints = list(form.expr.args) if isinstance(form.expr, Add) else [form.expr]
        if not all(isinstance(a, Integral) for a in ints):
            ints = sorted(form.expr.atoms(Integral), key=str)
        for a in ints:
            if isinstance(a.domain, Interface):
                iid = w.iface_id(a.domain)["name"]
                x = low.top(a.expr)
                if isinstance(x, list):
                    raise Unsupported("vector-valued integrand")
                integrands.setdefault(iid, []).append(x)
                out["integrals"].append({"iface": iid, "iex": x})
        out["integrand"] = {}
        for iid, xs in integrands.items():
            e0 = xs[0] if len(xs) == 1 else {"k": "add", "a": xs}
            out["integrand"][iid] = {"ref": iden(e0)}
    except Unsupported as e:
        out["err"] = {"stage": "lower", "kind": "unsupported-node", "msg": str(e)}
        return out
    # flattened components, in the order of _get_trials_tests(flatten=True)
    def flat(ns):
        r = []
        for n in ns:
            if case["funcs"][n].get("vec"):
                r += [[n, i + 1] for i in range(w.dim)]
            else:
                r.append([n, 0])
        return r
    out["rows"] = flat(case["tests"])
    out["cols"] = flat(case["trials"]) if case["form"] == "bilinear" else None
    # ---- the code under test
    try:
        kernels = TerminalExpr(form, w.domain)
    except Exception as e:  # noqa
        out["err"] = {"stage": "TerminalExpr", "kind": type(e).__name__, "msg": str(e)[:200]}
        return out
    ks = KSer(w, low)
    out["kernels"] = []
    try:
        for k in kernels:
            if isinstance(k, InterfaceExpression):
                d = {"type": "int", "target": w.iface_id(k.target)["name"], "trial": tag_of(k.trial), "test": tag_of(k.test)}
            elif isinstance(k, BoundaryExpression):
                d = {"type": "bnd", "target": w.faces.get(k.target, "?" + str(k.target))}
            elif isinstance(k, DomainExpression):
                d = {"type": "dom", "target": w.interiors.get(k.target, "?" + str(k.target))}
            else:
                raise Unsupported("kernel type %s" % type(k).__name__)
            d["mat"] = ks.matrix(k.expr)
            out["kernels"].append(d)
    except Unsupported as e:
        out["err"] = {"stage": "serialise", "kind": "unsupported-node", "msg": str(e), "flags": sorted(ks.flags)}
        return out
    out["flags"] = sorted(ks.flags)
    # ---- numeric oracle: per interface, the readings of the implementation's kernels sum to the integrand
    try:
        out["oracle"] = numeric_oracle(case, w, out)
        if out["oracle"]["ok"] is False:
            # does a recorded mechanism explain the failure completely?
            coefs = [n for n in case["funcs"] if n not in case["trials"] and n not in case["tests"]]
            expl = {}
            if coefs:
                expl["coefficient-side-blind"] = bool(numeric_oracle(case, w, out, blind=coefs)["ok"])
            if case["form"] == "linear":
                expl["plus-face-not-reversed"] = bool(numeric_oracle(case, w, out, flip_plus=False)["ok"])
            out["oracle"]["explained_by"] = expl
    except Exception as e:  # noqa
        out["oracle"] = {"ok": None, "info": "oracle failed: %s" % str(e)[:300]}
    return out


def zero_out(j, pred):
    return sx_map_atoms(j, lambda a: num(0) if (a["t"] == "fld" and pred(a)) else a)


def rs_of(names):
    return [(n, s) for n in names for s in ("-", "+")]


def piece_key(ref, trials, tests, ku, kv):
    """the part of the integrand with only the restricted trial symbol ku and the restricted test symbol kv"""
    tr = [x for x in rs_of(trials) if x != ku]
    te = [x for x in rs_of(tests) if x != kv]
    return zero_out(zero_out(ref, lambda a: (a["f"], a["s"]) in tr), lambda a: (a["f"], a["s"]) in te)


def numeric_oracle(case, w, out, blind=(), flip_plus=True):
    """search oracle (exact rationals on explicit polynomials), per interface:
       sum   : the readings of all kernels sum to the integrand
       minus : boundary kernel on the minus face = piece(-,-);  plus : on the plus face = piece(+,+), normal reversed
       mixed : every interface kernel = the piece of its (trial symbol, test symbol) tag
       sides : every kernel mentions only the sides its tag claims"""
    rng = random.Random(case.get("seed", 0))
    conc = Concrete(rng, w, blind)
    res = {"ok": True, "per_iface": {}}
    bil = case["form"] == "bilinear"
    trials, tests = case["trials"], case["tests"]
    pts = [conc.point() for _ in range(2)]

    def same(a, b):
        for pt in pts:
            va, vb = conc.value(a, pt), conc.value(b, pt)
            if va != vb:
                return {"point": {str(x): str(v) for x, v in pt.items()}, "got": str(va), "want": str(vb)}
        return None

    for idd in out["ifaces"]:
        iid = idd["name"]
        ref = out["integrand"].get(iid, {"ref": num(0)})["ref"]
        bm = bp = num(0)
        ints = []
        for k in out["kernels"]:
            if k["type"] == "bnd" and k["target"] == idd["minus"]:
                bm = msum(k["mat"])
            elif k["type"] == "bnd" and k["target"] == idd["plus"]:
                bp = msum(k["mat"])
            elif k["type"] == "int" and k["target"] == iid:
                ints.append((k, msum(k["mat"])))
        rm, rp = read_kernel(bm, "-", False), read_kernel(bp, "+", flip_plus)
        chk = {}
        info = {}
        d = same(sadd([rm, rp] + [x for _, x in ints]), ref)
        chk["sum"] = d is None
        if d:
            info["sum"] = d
        if bil:
            pm = zero_out(ref, lambda a: a["s"] == "+" and (a["f"] in trials or a["f"] in tests))
            pp = zero_out(ref, lambda a: a["s"] == "-" and (a["f"] in trials or a["f"] in tests))
        else:
            pm = zero_out(ref, lambda a: a["s"] == "+" and a["f"] in tests)
            pp = zero_out(ref, lambda a: a["s"] == "-" and a["f"] in tests)
        d = same(rm, pm)
        chk["minus"] = d is None
        if d:
            info["minus"] = d
        d = same(rp, pp)
        chk["plus"] = d is None
        if d:
            info["plus"] = d
        chk["mixed"] = True
        chk["sides"] = all(a["s"] == "0" for a in sx_atoms(bm) + sx_atoms(bp) if a["t"] == "fld")
        seen = set()
        for k, x in ints:
            ku, kv = (k["trial"]["name"], k["trial"]["side"]), (k["test"]["name"], k["test"]["side"])
            if not bil or ku[0] not in trials or kv[0] not in tests or ku[1] == kv[1] or (ku, kv) in seen:
                chk["mixed"] = False
                info["mixed"] = {"tag": [ku, kv], "why": "unexpected or repeated tag"}
                continue
            seen.add((ku, kv))
            d = same(x, piece_key(ref, trials, tests, ku, kv))
            if d:
                chk["mixed"] = False
                info["mixed"] = dict(d, tag=[ku, kv])
            for a in sx_atoms(x):
                if a["t"] == "fld" and ((a["f"] in trials and (a["f"], a["s"]) != ku) or (a["f"] in tests and (a["f"], a["s"]) != kv)):
                    chk["sides"] = False
        if bil:
            # a mixed piece that should be there but has no kernel
            for u in trials:
                for v in tests:
                    for ku, kv in (((u, "-"), (v, "+")), ((u, "+"), (v, "-"))):
                        if (ku, kv) not in seen:
                            d = same(num(0), piece_key(ref, trials, tests, ku, kv))
                            if d:
                                chk["mixed"] = False
                                info["mixed"] = dict(d, tag=[ku, kv], why="kernel missing")
        res["per_iface"][iid] = chk
        if not all(chk.values()):
            res["ok"] = False
            res.setdefault("info", info)
            res.setdefault("iface", iid)
    return res


# --------------------------------------------------------------------------- compound restrictions, pushed inward
RESTR = ("jump", "avg", "minus", "plus")


def g_simple_arg(x):
    """arguments of jump / avg / minus / plus that the library has always split: w, Dn(w), grad(w), div(w), c*w"""
    k = x["k"]
    if k in ("fn", "num", "const"):
        return True
    if k == "op" and x["name"] in ("Dn", "grad", "div"):
        return x["a"][0]["k"] == "fn"
    if k == "mul":
        return all(a["k"] in ("num", "const") or g_simple_arg(a) for a in x["a"]) and \
            sum(1 for a in x["a"] if a["k"] not in ("num", "const")) <= 1
    return False


def g_has_compound(g):
    if g["k"] == "op" and g["name"] in RESTR and not g_simple_arg(g["a"][0]):
        return True
    kids = list(g.get("a", [])) + ([g["b"]] if g["k"] == "pow" else [])
    return any(g_has_compound(a) for a in kids)


def g_push(side, x):
    """minus(x) / plus(x) written with restricted functions and the restricted normal only (the definition)"""
    k = x["k"]
    if k in ("fn", "nn"):
        return {"k": "op", "name": side, "a": [x]}
    if k in ("num", "const", "coord"):
        return x
    if k in ("add", "mul"):
        return {"k": k, "a": [g_push(side, a) for a in x["a"]]}
    if k == "pow":
        return {"k": "pow", "b": g_push(side, x["b"]), "e": x["e"]}
    if k == "op" and x["name"] == "Dn":
        return {"k": "op", "name": side, "a": [x]}
    if k == "op" and x["name"] in ("dot", "grad", "div"):
        return {"k": "op", "name": x["name"], "a": [g_push(side, a) for a in x["a"]]}
    raise Unsupported("push " + json.dumps(x)[:80])


def g_push_all(g):
    """every compound restriction of g replaced by its definition on the atoms"""
    k = g["k"]
    if k == "op" and g["name"] in RESTR and not g_simple_arg(g["a"][0]):
        x = g["a"][0]
        if g["name"] in ("minus", "plus"):
            return g_push(g["name"], x)
        m, p = g_push("minus", x), g_push("plus", x)
        if g["name"] == "jump":
            return {"k": "add", "a": [m, {"k": "mul", "a": [{"k": "num", "p": -1, "q": 1}, p]}]}
        return {"k": "mul", "a": [{"k": "num", "p": 1, "q": 2}, {"k": "add", "a": [m, p]}]}
    if k in ("add", "mul", "op", "comp"):
        return dict(g, a=[g_push_all(a) for a in g["a"]])
    if k == "pow":
        return dict(g, b=g_push_all(g["b"]))
    return g


def failed(r):
    if "crash" in r:
        return True
    if "err" in r:
        return r["err"]["stage"] in ("TerminalExpr", "serialise")
    return (r.get("oracle") or {}).get("ok") is False


def run_case_explained(case):
    """run_case, and when the case fails and contains the restriction of a compound expression: does the SAME form with
    every such restriction written out on the atoms pass?  (then nothing else is wrong: `compound-pushed-inward`)"""
    r = run_case(case)
    r["compound"] = any(g_has_compound(t["expr"]) for t in case["terms"])
    if r["compound"] and failed(r):
        try:
            alt = dict(case, terms=[dict(t, expr=g_push_all(t["expr"])) for t in case["terms"]])
            r2 = run_case(alt)
            o2 = r2.get("oracle") or {}
            ok = "crash" not in r2 and "err" not in r2 and (
                o2.get("ok") is True or bool((o2.get("explained_by") or {}).get("coefficient-side-blind")))
        except Exception:  # noqa
            ok = False
        r.setdefault("explained_by", {})["compound-pushed-inward"] = bool(ok)
    if (r.get("oracle") or {}).get("explained_by"):
        r.setdefault("explained_by", {}).update(r["oracle"]["explained_by"])
    return r


def main():
    payload = json.load(open(sys.argv[1]))
    res = []
    for case in payload["cases"]:
        try:
            res.append(run_case_explained(case))
        except Unsupported as e:
            res.append({"err": {"stage": "setup", "kind": "unsupported-node", "msg": str(e)}})
        except Exception:  # noqa
            res.append({"crash": traceback.format_exc()[-1500:]})
    json.dump({"results": res}, open(sys.argv[2], "w"))


if __name__ == "__main__":
    main()
