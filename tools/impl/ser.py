"""Implementation-side helpers shared by the expression properties (C01..C11, C16):

  build_sx(j, env)  JSON sx tree  -> real sympy / sympde expression
  ser_sx(expr)      real expression -> JSON sx tree   (fail-closed: Unsupported)

JSON sx grammar (mirrors coq/Core/SExpr.v):
  {"k":"num","p":int,"q":int}
  {"k":"at","t":"coord","lg":bool,"i":int}
  {"k":"at","t":"const","name":str}
  {"k":"at","t":"fld","lg":bool,"f":str,"c":int,"s":"0|-|+","al":[int..]}   c=0 scalar, c=i+1 component i
  {"k":"at","t":"map","m":str,"i":int,"al":[int..]}
  {"k":"at","t":"normal","s":..,"i":int}
  {"k":"add","a":[..]} {"k":"mul","a":[..]} {"k":"pow","b":..,"e":..} {"k":"fn","f":str,"a":..}
Matrices / tuples: {"k":"mat","rows":[[sx..]..]}.

General powers are written with the exponent's integer (resp. integral) part split off:
b**(e+n) -> b**e * b**n  (n integer literal, fractional part of a rational exponent in [0,1)).
This uses the exponent law b^(e+n) = b^e b^n (trusted; DESIGN section 6).
"""
import sympy as sp
from sympy import Integer, Rational, Symbol, Add, Mul, Pow, S
from sympy.core.function import AppliedUndef


class Unsupported(Exception):
    pass


PHYS = ["x", "y", "z"]
LOGI = ["x1", "x2", "x3"]
FN = {"sin": sp.sin, "cos": sp.cos, "tan": sp.tan, "exp": sp.exp, "log": sp.log, "Abs": sp.Abs}


class Env:
    """Objects shared by one case: fields, constants, mapping, domain."""

    def __init__(self, dim=3, mapping=None, map_pdim=None):
        from sympde.topology import Domain, ScalarFunctionSpace, VectorFunctionSpace
        self.dim = dim
        self.map_pdim = map_pdim      # None: square mappings (pdim = ldim = dim); n: curve / surface mappings with pdim = n
        self.domain = Domain("Omega", dim=dim)
        self.V = ScalarFunctionSpace("V", self.domain)
        self.W = VectorFunctionSpace("W", self.domain)
        self.fields = {}
        self.consts = {}
        self.mapping = mapping
        self.maps = {}

    def scalar(self, name):
        from sympde.topology import element_of
        if name not in self.fields:
            self.fields[name] = element_of(self.V, name=name)
        return self.fields[name]

    def vector(self, name):
        from sympde.topology import element_of
        if name not in self.fields:
            self.fields[name] = element_of(self.W, name=name)
        return self.fields[name]

    def const(self, name):
        from sympde.core import Constant
        if name not in self.consts:
            self.consts[name] = Constant(name)
        return self.consts[name]

    def map(self, name):
        from sympde.topology import Mapping
        if name not in self.maps:
            if self.map_pdim is None:
                self.maps[name] = Mapping(name, dim=self.dim)
            else:
                self.maps[name] = Mapping(name, ldim=self.dim, pdim=self.map_pdim)
        return self.maps[name]


def dops():
    from sympde.topology.derivatives import dx, dy, dz, dx1, dx2, dx3
    return {False: [dx, dy, dz], True: [dx1, dx2, dx3]}


def build_atom(a, env):
    t = a["t"]
    if t == "coord":
        return Symbol((LOGI if a["lg"] else PHYS)[a["i"]], real=True)
    if t == "const":
        return env.const(a["name"])
    if t == "fld":
        from sympde.calculus.core import minus, plus
        if a["c"] == 0:
            u = env.scalar(a["f"])
        else:
            u = env.vector(a["f"])[a["c"] - 1]
        if a["s"] == "-":
            u = minus(u)
        elif a["s"] == "+":
            u = plus(u)
        ops = dops()[a["lg"]]
        for i in reversed(range(len(a["al"]))):
            for _ in range(a["al"][i]):
                u = ops[i](u)
        return u
    if t == "map":
        u = env.map(a["m"])[a["i"]]
        ops = dops()[True]
        for i in reversed(range(len(a["al"]))):
            for _ in range(a["al"][i]):
                u = ops[i](u)
        return u
    raise Unsupported("atom " + t)


def build_sx(j, env):
    k = j["k"]
    if k == "num":
        return Rational(j["p"], j["q"])
    if k == "at":
        return build_atom(j, env)
    if k == "add":
        return Add(*[build_sx(a, env) for a in j["a"]])
    if k == "mul":
        return Mul(*[build_sx(a, env) for a in j["a"]])
    if k == "pow":
        return Pow(build_sx(j["b"], env), build_sx(j["e"], env))
    if k == "fn":
        return FN[j["f"]](build_sx(j["a"], env))
    raise Unsupported("node " + k)


# --------------------------------------------------------------------------- serialisation
def _num(p, q=1):
    return {"k": "num", "p": int(p), "q": int(q)}


def _chain(expr):
    """expr = d..(d..(atom)) -> (atom, lg, al) ; lg None when there is no derivative."""
    from sympde.topology.derivatives import _partial_derivatives, _logical_partial_derivatives
    al = [0, 0, 0]
    lg = None
    while isinstance(expr, _partial_derivatives + _logical_partial_derivatives):
        this_lg = isinstance(expr, _logical_partial_derivatives)
        if lg is not None and lg != this_lg:
            raise Unsupported("mixed physical/logical derivative chain")
        lg = this_lg
        al[expr.grad_index] += 1
        if len(expr.args) != 1:
            raise Unsupported("derivative arity")
        expr = expr.args[0]
    return expr, lg, al


def _trim(al):
    al = list(al)
    while al and al[-1] == 0:
        al.pop()
    return al


def ser_atom(expr):
    from sympde.topology.space import ScalarFunction, VectorFunction, IndexedVectorFunction
    from sympde.topology.derivatives import DifferentialOperator
    from sympde.calculus.core import minus, plus
    from sympde.core.basic import Constant, BasicMapping
    from sympy import Indexed
    base, lg, al = _chain(expr)
    side = "0"
    if isinstance(base, (minus, plus)):
        side = "-" if isinstance(base, minus) else "+"
        base = base.args[0]
        inner, lg2, al2 = _chain(base)
        if lg2 is not None:
            raise Unsupported("restriction of a derivative")
    if isinstance(base, ScalarFunction):
        return {"k": "at", "t": "fld", "lg": bool(lg), "f": base.name, "c": 0, "s": side, "al": _trim(al)}
    if isinstance(base, IndexedVectorFunction):
        idx = base.indices
        if len(idx) != 1:
            raise Unsupported("multi-index component")
        return {"k": "at", "t": "fld", "lg": bool(lg), "f": base.base.name, "c": int(idx[0]) + 1, "s": side,
                "al": _trim(al)}
    if isinstance(base, Indexed) and isinstance(base.base, BasicMapping):
        if lg is False:
            raise Unsupported("physical derivative of a mapping component")
        return {"k": "at", "t": "map", "m": base.base.name, "i": int(base.indices[0]), "al": _trim(al)}
    if lg is not None:
        raise Unsupported("derivative of %s" % type(base).__name__)
    if isinstance(base, Constant):
        return {"k": "at", "t": "const", "name": base.name}
    if isinstance(base, Symbol):
        if base.name in PHYS:
            return {"k": "at", "t": "coord", "lg": False, "i": PHYS.index(base.name)}
        if base.name in LOGI:
            return {"k": "at", "t": "coord", "lg": True, "i": LOGI.index(base.name)}
        if isinstance(base, (VectorFunction,)):
            raise Unsupported("bare vector function")
        return {"k": "at", "t": "const", "name": base.name}
    raise Unsupported("atom %s" % type(base).__name__)


def _split_exponent(e):
    """e -> (rest, n) with e = rest + n, n an integer; rational literals keep their fractional part in [0,1)."""
    if e.is_Integer:
        return S.Zero, int(e)
    if e.is_Rational:
        n = e.p // e.q
        return e - n, n
    if isinstance(e, Add):
        c, rest = e.as_coeff_Add()
        if c.is_Rational and c != 0:
            n = c.p // c.q
            return rest + (c - n), n
    return e, 0


def ser_sx(expr):
    from sympde.topology.derivatives import DifferentialOperator
    from sympde.calculus.core import minus, plus
    expr = sp.sympify(expr)
    if isinstance(expr, Integer):
        return _num(expr)
    if isinstance(expr, Rational):
        return _num(expr.p, expr.q)
    if isinstance(expr, sp.Float):
        raise Unsupported("float literal")
    if isinstance(expr, (DifferentialOperator, minus, plus)):
        return ser_atom(expr)
    if isinstance(expr, (Symbol, sp.Indexed)):
        return ser_atom(expr)
    if isinstance(expr, Add):
        return {"k": "add", "a": [ser_sx(a) for a in expr.args]}
    if isinstance(expr, Mul):
        return {"k": "mul", "a": [ser_sx(a) for a in expr.args]}
    if isinstance(expr, Pow):
        b, e = expr.base, expr.exp
        rest, n = _split_exponent(e)
        if rest == 0:
            return {"k": "pow", "b": ser_sx(b), "e": _num(n)}
        gen = {"k": "pow", "b": ser_sx(b), "e": ser_sx(rest)}
        if n == 0:
            return gen
        return {"k": "mul", "a": [gen, {"k": "pow", "b": ser_sx(b), "e": _num(n)}]}
    for name, f in FN.items():
        if isinstance(expr, f):
            return {"k": "fn", "f": name, "a": ser_sx(expr.args[0])}
    raise Unsupported("node %s" % type(expr).__name__)


def ser_any(expr):
    """scalar -> sx ; Matrix / Tuple -> {"k":"mat","rows":...}"""
    from sympy import Matrix, ImmutableDenseMatrix, Tuple
    if isinstance(expr, (Matrix, ImmutableDenseMatrix)):
        return {"k": "mat", "rows": [[ser_sx(expr[i, j]) for j in range(expr.shape[1])] for i in range(expr.shape[0])]}
    if isinstance(expr, (Tuple, tuple, list)):
        return {"k": "mat", "rows": [[ser_sx(a) for a in expr]]}
    return ser_sx(expr)


# --------------------------------------------------------------------------- concrete instantiation (search oracle)
class Concrete:
    """Reads JSON sx trees with every field / constant / mapping component replaced by an explicit
    polynomial / rational: an independent differentiator (sympy.diff on explicit polynomials)."""

    def __init__(self, rng, dim=3, deg=3):
        self.rng, self.dim, self.deg = rng, dim, deg
        self.polys = {}
        self.consts = {}
        self.syms = {False: [Symbol(n, real=True) for n in PHYS], True: [Symbol(n, real=True) for n in LOGI]}

    def poly(self, key, lg):
        if key not in self.polys:
            xs = self.syms[lg][: self.dim]
            p = 0
            for _ in range(self.rng.randint(3, 5)):
                m = Rational(self.rng.randint(1, 7), self.rng.randint(1, 3)) * self.rng.choice([1, -1])
                for x in xs:
                    m *= x ** self.rng.randint(0, self.deg)
                p += m
            self.polys[key] = p + self.rng.randint(1, 5)
        return self.polys[key]

    def const(self, name):
        if name not in self.consts:
            self.consts[name] = Rational(self.rng.randint(2, 9), self.rng.randint(1, 4))
        return self.consts[name]

    def atom(self, a, fam):
        t = a["t"]
        if t == "coord":
            return self.syms[a["lg"]][a["i"]]
        if t == "const":
            return self.const(a["name"])
        if t == "fld":
            lg = a["lg"] if any(a["al"]) else fam
            p = self.poly(("fld", a["f"], a["c"], a["s"]), lg)
            for i, n in enumerate(a["al"]):
                for _ in range(n):
                    p = sp.diff(p, self.syms[lg][i])
            return p
        if t == "map":
            p = self.poly(("map", a["m"], a["i"]), True)
            for i, n in enumerate(a["al"]):
                for _ in range(n):
                    p = sp.diff(p, self.syms[True][i])
            return p
        raise Unsupported("concrete atom " + t)

    def sx(self, j, fam=False):
        k = j["k"]
        if k == "num":
            return Rational(j["p"], j["q"])
        if k == "at":
            return self.atom(j, fam)
        if k == "add":
            return Add(*[self.sx(a, fam) for a in j["a"]])
        if k == "mul":
            return Mul(*[self.sx(a, fam) for a in j["a"]])
        if k == "pow":
            return Pow(self.sx(j["b"], fam), self.sx(j["e"], fam))
        if k == "fn":
            return FN[j["f"]](self.sx(j["a"], fam))
        raise Unsupported("concrete node " + k)

    def point(self):
        return {s: Rational(self.rng.randint(3, 17), self.rng.randint(2, 7)) for fam in (False, True) for s in self.syms[fam]}


def _numeric_equal_N(a, b, conc, npts=3, tol=1e-9):
    """fallback: sympy.N at 40 digits"""
    worst = 0.0
    for _ in range(npts):
        pt = conc.point()
        try:
            va = sp.N(a.xreplace(pt), 40)
            vb = sp.N(b.xreplace(pt), 40)
        except Exception:  # noqa
            continue
        if not (va.is_number and vb.is_number) or va.has(sp.nan, sp.zoo) or vb.has(sp.nan, sp.zoo):
            continue
        d = abs(complex(va) - complex(vb))
        scale = max(1.0, abs(complex(va)), abs(complex(vb)))
        worst = max(worst, d / scale)
        if d / scale > tol:
            return False, {"point": {str(k): str(v) for k, v in pt.items()}, "lhs": str(va)[:40], "rhs": str(vb)[:40]}
    return True, {"worst_rel": worst}


def numeric_equal(a, b, conc, npts=3, tol=1e-9):
    """Compare two concrete expressions at random rational points with mpmath at 50 digits (through lambdify).
    sympy.N is avoided: at high precision it can return exactly 0 for products containing sin(c)**2 + cos(c)**2."""
    import mpmath
    a, b = sp.sympify(a), sp.sympify(b)
    syms = sorted((a.free_symbols | b.free_symbols), key=lambda s: s.name)
    try:
        fa = sp.lambdify(syms, a, "mpmath")
        fb = sp.lambdify(syms, b, "mpmath")
    except Exception:  # noqa
        return _numeric_equal_N(a, b, conc, npts=npts, tol=tol)
    worst = 0.0
    old = mpmath.mp.dps
    mpmath.mp.dps = 50
    try:
        for _ in range(npts):
            pt = conc.point()
            vals = []
            for s_ in syms:
                v = pt.get(s_)
                if v is None:
                    v = pt.get(Symbol(s_.name, real=True), Rational(1, 3))
                vals.append(mpmath.mpf(int(v.p)) / mpmath.mpf(int(v.q)))
            try:
                va, vb = mpmath.mpmathify(fa(*vals)), mpmath.mpmathify(fb(*vals))
            except Exception:  # noqa  (pole, domain error: try another point)
                continue
            if not (mpmath.isfinite(va) and mpmath.isfinite(vb)):
                continue
            d = abs(va - vb)
            scale = max(mpmath.mpf(1), abs(va), abs(vb))
            worst = max(worst, float(d / scale))
            if d / scale > tol:
                return False, {"point": {str(k): str(v) for k, v in pt.items()},
                               "lhs": mpmath.nstr(va, 30), "rhs": mpmath.nstr(vb, 30)}
    finally:
        mpmath.mp.dps = old
    return True, {"worst_rel": worst}


# --------------------------------------------------------------------------- family-relative serialisation (C05, mixed chains)
# Additions only: nothing above is changed.  A derivative chain that mixes the physical (dx,dy,dz) and the logical
# (dx1,dx2,dx3) operators is read RELATIVE to one family `fam` (False = physical, True = logical): the outermost run of
# operators is kept as the multi-index of the atom when it belongs to `fam`; everything below it (inner runs of the other
# family, possibly nested further) is OPAQUE and becomes part of the field name:
#     dx(dx2(u))  seen from the physical family -> field "u@L010",      al = [1]
#     dx(dx2(u))  seen from the logical family  -> field "u@L010@P100", al = []
# name = function name + one "@" + ("P"|"L") + digits-of-the-multi-index suffix per inner run, innermost first.
def _chain_runs(expr):
    """expr = d..(d..(atom)) -> (atom, runs); runs = [(lg, al), ...] maximal runs of one family, outermost first."""
    from sympde.topology.derivatives import _partial_derivatives, _logical_partial_derivatives
    runs = []
    while isinstance(expr, _partial_derivatives + _logical_partial_derivatives):
        this_lg = isinstance(expr, _logical_partial_derivatives)
        if not runs or runs[-1][0] != this_lg:
            runs.append((this_lg, [0, 0, 0]))
        runs[-1][1][expr.grad_index] += 1
        if len(expr.args) != 1:
            raise Unsupported("derivative arity")
        expr = expr.args[0]
    return expr, runs


def _run_suffix(lg, al):
    digits = "".join(str(n) for n in al) if all(n < 10 for n in al) else ".".join(str(n) for n in al)
    return "@" + ("L" if lg else "P") + digits


def opaque_name(name, inner):
    """inner = runs below the kept one, outermost first -> suffixes innermost first"""
    return name + "".join(_run_suffix(lg, al) for lg, al in reversed(inner))


MAPFLD = "@map"      # suffix of the field name that stands for a mapping seen from the physical family


def ser_atom_rel(expr, fam, mapfld=False):
    """like ser_atom, but mixed chains are accepted and read relative to the family `fam`.
    mapfld: seen from the PHYSICAL family a mapping component M[i] (a function of the logical coordinates) is an element
    of the differential field like any other: it is written as component i of the opaque vector field "M@map" (plus the
    suffixes of the inner runs), so that dx(M[i]) is an ordinary derivative atom and the Leibniz / chain rules of the
    model and of the reference apply to expressions in the M[i]."""
    from sympde.topology.space import ScalarFunction, VectorFunction, IndexedVectorFunction
    from sympde.calculus.core import minus, plus
    from sympde.core.basic import Constant, BasicMapping
    from sympy import Indexed
    fam = bool(fam)
    base, runs = _chain_runs(expr)
    side = "0"
    if isinstance(base, (minus, plus)):
        side = "-" if isinstance(base, minus) else "+"
        base = base.args[0]
        inner, runs2 = _chain_runs(base)
        if runs2:
            raise Unsupported("restriction of a derivative")
    if runs and runs[0][0] == fam:
        al, inner = _trim(runs[0][1]), runs[1:]
    else:
        al, inner = [], runs
    lg = fam if al else False          # as ser_atom: an atom without derivatives carries lg = False
    if isinstance(base, ScalarFunction):
        return {"k": "at", "t": "fld", "lg": lg, "f": opaque_name(base.name, inner), "c": 0, "s": side, "al": al}
    if isinstance(base, IndexedVectorFunction):
        idx = base.indices
        if len(idx) != 1:
            raise Unsupported("multi-index component")
        return {"k": "at", "t": "fld", "lg": lg, "f": opaque_name(base.base.name, inner), "c": int(idx[0]) + 1,
                "s": side, "al": al}
    if isinstance(base, Indexed) and isinstance(base.base, BasicMapping):
        if mapfld and not fam:
            if side != "0":
                raise Unsupported("restriction of a mapping component")
            return {"k": "at", "t": "fld", "lg": lg, "f": opaque_name(str(base.base.name) + MAPFLD, inner),
                    "c": int(base.indices[0]) + 1, "s": "0", "al": al}
        if inner or (runs and not fam):
            raise Unsupported("physical derivative of a mapping component")
        return {"k": "at", "t": "map", "m": base.base.name, "i": int(base.indices[0]), "al": al}
    if runs:
        raise Unsupported("derivative of %s" % type(base).__name__)
    return ser_atom(base)


def ser_sx_rel(expr, fam, mapfld=False):
    """ser_sx with every derivative chain read relative to the family `fam` (see above).  On expressions without
    mixed chains whose derivatives all belong to `fam` it returns exactly ser_sx(expr)."""
    from sympde.topology.derivatives import DifferentialOperator
    from sympde.calculus.core import minus, plus
    expr = sp.sympify(expr)
    if isinstance(expr, Integer):
        return _num(expr)
    if isinstance(expr, Rational):
        return _num(expr.p, expr.q)
    if isinstance(expr, sp.Float):
        raise Unsupported("float literal")
    if isinstance(expr, (DifferentialOperator, minus, plus)):
        return ser_atom_rel(expr, fam, mapfld)
    if isinstance(expr, (Symbol, sp.Indexed)):
        return ser_atom_rel(expr, fam, mapfld)
    if isinstance(expr, Add):
        return {"k": "add", "a": [ser_sx_rel(a, fam, mapfld) for a in expr.args]}
    if isinstance(expr, Mul):
        return {"k": "mul", "a": [ser_sx_rel(a, fam, mapfld) for a in expr.args]}
    if isinstance(expr, Pow):
        b, e = expr.base, expr.exp
        rest, n = _split_exponent(e)
        if rest == 0:
            return {"k": "pow", "b": ser_sx_rel(b, fam, mapfld), "e": _num(n)}
        gen = {"k": "pow", "b": ser_sx_rel(b, fam, mapfld), "e": ser_sx_rel(rest, fam, mapfld)}
        if n == 0:
            return gen
        return {"k": "mul", "a": [gen, {"k": "pow", "b": ser_sx_rel(b, fam, mapfld), "e": _num(n)}]}
    for name, f in FN.items():
        if isinstance(expr, f):
            return {"k": "fn", "f": name, "a": ser_sx_rel(expr.args[0], fam, mapfld)}
    raise Unsupported("node %s" % type(expr).__name__)


def other_family_atoms(j, fam):
    """atoms of a family-relative tree that a derivative of the family `fam` cannot be applied to in the model:
    coordinates of the other family, mapping components seen from the physical family"""
    k = j["k"]
    if k == "at":
        if j["t"] == "coord" and bool(j["lg"]) != bool(fam):
            return True
        if j["t"] == "map" and not fam:
            return True
        return False
    if k in ("add", "mul"):
        return any(other_family_atoms(a, fam) for a in j["a"])
    if k == "pow":
        return other_family_atoms(j["b"], fam) or other_family_atoms(j["e"], fam)
    if k == "fn":
        return other_family_atoms(j["a"], fam)
    return False


def split_blocks(ops):
    """ops = [[lg,i]..] outermost first -> maximal one-family blocks in the order of application (innermost first):
    [(fam, [[lg,i]..] outermost first within the block), ...]"""
    blocks = []
    for lg, i in reversed(ops):
        lg = bool(lg)
        if not blocks or blocks[-1][0] != lg:
            blocks.append((lg, []))
        blocks[-1][1].insert(0, [lg, i])
    return blocks
