"""Implementation side of C14: drives the real sympde Union on JSON cases.

input : {"cases":[{"atoms":[spec..], "trees":[tree..], "complement":[[tree,tree]..],
                   "iter":[{"tree":tree,"ops":[["iter"],["next",k]..]}]}]}
output: per case {"atoms":[{"str","dim","cls"}..], "trees":[res..], "complement":[res..], "iter":[[out..]..]}
res   : {"r":"none"} | {"r":"atom","i":n} | {"r":"union","items":[n..],"hash":h,"str":s} | {"r":"err","e":kind}
"""
import json
import sys


def build_atom(spec, cache):
    from sympde.topology import Domain, Line, Square, Cube, Boundary, Interface, InteriorDomain
    t = spec["t"]
    if t == "dom":
        return Domain(spec["name"], dim=spec["dim"])
    if t == "interior":
        return InteriorDomain(spec["name"], dim=spec["dim"])
    if t == "ncube":
        cls = {1: Line, 2: Square, 3: Cube}[spec["dim"]]
        key = ("ncube", spec["name"], spec["dim"])
        if key not in cache:
            cache[key] = cls(spec["name"])
        return cache[key]
    if t == "face":   # a boundary face of an n-cube
        d = build_atom({"t": "ncube", "name": spec["dom"], "dim": spec["dim"]}, cache)
        return d.get_boundary(axis=spec["axis"], ext=spec["ext"])
    if t == "bnd":    # a free-standing Boundary of an abstract domain
        d = Domain(spec["dom"], dim=spec["dim"])
        if "axis" in spec:
            return Boundary(spec["name"], d, axis=spec["axis"], ext=spec["ext"])
        return Boundary(spec["name"], d)
    if t == "iface":
        m = build_atom(spec["minus"], cache)
        p = build_atom(spec["plus"], cache)
        ornt = 1 if spec["minus"]["dim"] < 3 else (1, 1, 1)
        return Interface(spec["name"], m, p, ornt=ornt)
    raise ValueError(t)


def errkind(e):
    if isinstance(e, TypeError):
        return "TypeError"
    if isinstance(e, ValueError):
        return "ValueError"
    return type(e).__name__


class Ctx:
    def __init__(self, atoms):
        self.atoms = atoms

    def index(self, obj):
        for i, a in enumerate(self.atoms):
            if a == obj and hash(a) == hash(obj):
                return i
        return -1

    def build(self, tree):
        from sympde.topology.basic import Union
        if "leaf" in tree:
            return self.atoms[tree["leaf"]]
        if "none" in tree:
            return None
        if "bad" in tree:
            return 42
        return Union(*[self.build(t) for t in tree["node"]])

    def encode(self, obj):
        from sympde.topology.basic import Union
        if obj is None:
            return {"r": "none"}
        if isinstance(obj, Union):
            return {"r": "union", "items": [self.index(a) for a in obj.args],
                    "hash": hash(obj), "str": str(obj), "len": len(obj)}
        i = self.index(obj)
        return {"r": "atom", "i": i, "hash": hash(obj), "str": str(obj)}

    def run_tree(self, tree):
        try:
            r = self.encode(self.build(tree))
        except Exception as e:  # noqa
            return {"r": "err", "e": errkind(e)}
        # Boundary.__add__ is documented as the union of the two faces: B1 + B2 must be the same set as Union(B1, B2)
        try:
            from sympde.topology.basic import Boundary
            kids = tree.get("node")
            if kids and len(kids) == 2 and all("leaf" in k for k in kids):
                a, b = (self.atoms[k["leaf"]] for k in kids)
                if isinstance(a, Boundary) and isinstance(b, Boundary):
                    try:
                        r2 = self.encode(a + b)
                    except Exception as e:  # noqa
                        return {"r": "err", "e": "add:" + errkind(e)}
                    if r2 != r:
                        return {"r": "err", "e": "add-differs-from-union"}
        except ImportError:
            pass
        return r


def run_case(case):
    from sympde.topology.basic import Union
    cache = {}
    atoms = [build_atom(s, cache) for s in case["atoms"]]
    ctx = Ctx(atoms)
    out = {"atoms": [], "trees": [], "complement": [], "iter": []}
    # == classes: id of the first equal atom
    for i, a in enumerate(atoms):
        out["atoms"].append({"str": str(a), "dim": a.dim, "cls": type(a).__name__, "id": ctx.index(a)})
    for t in case.get("trees", []):
        out["trees"].append(ctx.run_tree(t))
    for tu, ta in case.get("complement", []):
        try:
            u = ctx.build(tu)
            a = ctx.build(ta)
            if not isinstance(u, Union):
                out["complement"].append({"r": "skip"})
                continue
            r1 = ctx.encode(u.complement(a))
            try:
                r2 = ctx.encode(u - a)           # the operator form must be the same set
            except Exception as e2:  # noqa
                r2 = {"r": "err", "e": errkind(e2)}
            out["complement"].append(r1 if r1 == r2 else {"r": "err", "e": "sub-differs-from-complement"})
        except Exception as e:  # noqa
            out["complement"].append({"r": "err", "e": errkind(e)})
    for it in case.get("iter", []):
        try:
            u = ctx.build(it["tree"])
        except Exception:  # noqa  (a refused family: covered by the constructor trees)
            u = None
        if not isinstance(u, Union):
            out["iter"].append(None)
            continue
        iters, outs = [], []
        for op in it["ops"]:
            if op[0] == "iter":
                iters.append(iter(u))
                outs.append("iter")
            else:
                k = op[1]
                if k >= len(iters):
                    outs.append("noiter")
                    continue
                try:
                    outs.append(ctx.index(next(iters[k])))
                except StopIteration:
                    outs.append("stop")
        out["iter"].append({"members": [ctx.index(a) for a in u.args], "outs": outs})
    return out


def main():
    payload = json.load(open(sys.argv[1]))
    res = []
    for case in payload["cases"]:
        try:
            res.append(run_case(case))
        except Exception as e:  # noqa
            import traceback
            res.append({"crash": traceback.format_exc()})
    json.dump({"results": res}, open(sys.argv[2], "w"))


if __name__ == "__main__":
    main()
