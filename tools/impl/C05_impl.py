"""Implementation side of C05: applies the real dx,dy,dz / dx1,dx2,dx3 to generated expressions.

case  : {"dim":d, "tree":sx, "ops":[[lg,i]..] (outermost first), "seed":n}
result: {"in":sx (what the operator really received), "out":sx | {"err":kind},
         "oracle": {"ok":bool, ...}}  (independent check on explicit polynomials)

Mixed physical/logical operator sequences (run_mixed): the sequence is split into maximal one-family blocks; the real
operators are applied to the whole composition and the real intermediate expression after every block is recorded.
Block k (family fam_k) is then an ordinary single-family case whose input / output are the expressions before / after
the block, serialised RELATIVE to fam_k (ser.ser_sx_rel: chains of the other family below the outer run become part of
the field name).  result: {"in":.., "out": last block's out | {"err":..}, "blocks":[{"fam","ops","in","out","oracle"}..]}
Cases of kind "mapping" (mapping components, also of curve / surface mappings "map_pdim" > dim, of two mappings, and
under PHYSICAL operators) take the same path, also with a single block: seen from the physical family a mapping
component M[i] is written as component i of the opaque vector field "M@map" (ser.ser_atom_rel, mapfld), so that the
Leibniz and chain rules are checked for expressions in the M[i] whatever dx(M[i]) denotes.
"""
import json
import random
import sys
import traceback

import ser


def run_case(case):
    import sympy as sp
    from sympy.core.cache import clear_cache
    clear_cache()
    if case.get("map_pdim"):       # curve / surface mappings: pdim > ldim = dim
        env = ser.Env(dim=case["dim"], map_pdim=case["map_pdim"])
    else:
        env = ser.Env(dim=case["dim"])
    if case.get("tensor"):
        return run_tensor(case, env)
    if len(ser.split_blocks(case["ops"])) > 1 or case.get("kind") == "mapping":
        return run_mixed(case, env)
    expr = ser.build_sx(case["tree"], env)
    try:
        out = {"in": ser.ser_sx(expr)}
    except ser.Unsupported as e:   # e.g. sympy evaluated the generated tree to a complex number
        return {"in": case["tree"], "out": {"err": "unsupported-node", "msg": "input: " + str(e)}}
    ops = ser.dops()
    res = expr
    arg = expr
    try:
        for lg, i in reversed(case["ops"]):
            arg = res
            res = ops[bool(lg)][i](res)
        out["out"] = ser.ser_any(res)
    except NotImplementedError:
        # the argument the refusing operator received (it may already contain log(...) of a field)
        try:
            out["out"] = {"err": "not-implemented", "arg": ser.ser_any(arg)}
        except ser.Unsupported:
            out["out"] = {"err": "not-implemented", "arg": None}
        return out
    except ser.Unsupported as e:
        out["out"] = {"err": "unsupported-node", "msg": str(e)}
        return out
    except CaseTimeout:
        raise
    except Exception as e:  # noqa
        out["out"] = {"err": type(e).__name__, "msg": str(e)[:200]}
        return out
    # independent oracle: explicit polynomials + sympy.diff
    try:
        rng = random.Random(case.get("seed", 0))
        conc = ser.Concrete(rng, dim=case["dim"])
        fam = bool(case["ops"][0][0]) if case["ops"] else False
        cin = conc.sx(out["in"], fam)
        want = cin
        for lg, i in reversed(case["ops"]):
            want = sp.diff(want, conc.syms[bool(lg)][i])
        got = conc.sx(out["out"], fam)
        ok, info = ser.numeric_equal(got, want, conc)
        out["oracle"] = {"ok": bool(ok), "info": info}
    except Exception as e:  # noqa
        out["oracle"] = {"ok": None, "info": "oracle failed: %s" % str(e)[:200]}
    return out


def run_mixed(case, env):
    """mixed physical/logical operator sequence, checked block-wise (see the module docstring)"""
    import sympy as sp
    blocks = ser.split_blocks(case["ops"])
    expr = ser.build_sx(case["tree"], env)
    try:
        out = {"in": ser.ser_sx_rel(expr, blocks[0][0], True), "blocks": []}
    except ser.Unsupported as e:
        return {"in": case["tree"], "out": {"err": "unsupported-node", "msg": "input: " + str(e)}, "blocks": []}
    ops = ser.dops()
    res = expr
    for k, (fam, bops) in enumerate(blocks):
        blk = {"fam": fam, "ops": bops}
        out["blocks"].append(blk)
        start = res
        arg = res
        try:
            blk["in"] = ser.ser_sx_rel(start, fam, True)
            if ser.other_family_atoms(blk["in"], fam):
                # e.g. dx(x1*u): the real code treats the other family's coordinates as constants; not modelled
                blk["out"] = {"err": "unsupported-node", "msg": "other-family coordinate under a derivative"}
                out["out"] = dict(blk["out"], block=k)
                return out
            for lg, i in reversed(bops):
                arg = res
                res = ops[bool(lg)][i](res)
            blk["out"] = ser.ser_sx_rel(res, fam, True)
        except NotImplementedError:
            try:
                blk["out"] = {"err": "not-implemented", "arg": ser.ser_sx_rel(arg, fam, True)}
            except ser.Unsupported:
                blk["out"] = {"err": "not-implemented", "arg": None}
        except ser.Unsupported as e:
            blk["out"] = {"err": "unsupported-node", "msg": str(e)}
        except CaseTimeout:
            raise
        except Exception as e:  # noqa
            blk["out"] = {"err": type(e).__name__, "msg": str(e)[:200]}
        if "err" in blk["out"]:
            out["out"] = dict(blk["out"], block=k)
            return out
        # independent oracle for this block: every (opaque) field name gets its own random polynomial, the same one
        # for the input and the output of the block; sympy.diff is the differentiator
        try:
            rng = random.Random(case.get("seed", 0) * 7 + k)
            conc = ser.Concrete(rng, dim=case["dim"])
            want = conc.sx(blk["in"], fam)
            for lg, i in reversed(bops):
                want = sp.diff(want, conc.syms[fam][i])
            got = conc.sx(blk["out"], fam)
            ok, info = ser.numeric_equal(got, want, conc)
            blk["oracle"] = {"ok": bool(ok), "info": info}
        except Exception as e:  # noqa
            blk["oracle"] = {"ok": None, "info": "oracle failed: %s" % str(e)[:200]}
    out["out"] = out["blocks"][-1]["out"]
    oks = [b["oracle"]["ok"] for b in out["blocks"]]
    bad = [k for k, o in enumerate(oks) if o is False]
    out["oracle"] = {"ok": False if bad else (None if any(o is None for o in oks) else True),
                     "info": {"block": bad[0], "of": len(oks), "detail": out["blocks"][bad[0]]["oracle"]["info"]} if bad
                     else {"blocks": len(oks)}}
    return out


def run_tensor(case, env):
    """vector functions, tuples and matrices are differentiated entry-wise"""
    import sympy as sp
    t = case["tensor"]
    if t["k"] == "vecfn":
        arg = env.vector(t["f"])
        entries = [[arg[i] for i in range(case["dim"])]]
    elif t["k"] == "tuple":
        entries = [[ser.build_sx(e, env) for e in t["items"]]]
        arg = sp.Tuple(*entries[0])
    else:
        entries = [[ser.build_sx(e, env) for e in row] for row in t["rows"]]
        arg = sp.Matrix(entries) if t["k"] == "mmatrix" else sp.ImmutableDenseMatrix(entries)
    out = {"in": {"k": "mat", "rows": [[ser.ser_sx(e) for e in row] for row in entries]}}
    ops = ser.dops()
    res = arg
    # every mutable matrix the caller holds (the argument, the intermediate results) with its value at the time it was
    # given / returned: an operator must not change them afterwards (it returns a value, it does not work in place)
    held = []

    def hold(m):
        if isinstance(m, sp.MatrixBase) and not isinstance(m, sp.ImmutableDenseMatrix):
            try:
                held.append((m, ser.ser_any(m)))
            except ser.Unsupported:
                pass
    try:
        hold(arg)
        for lg, i in reversed(case["ops"]):
            res = ops[bool(lg)][i](res)
            hold(res)
        out["out"] = ser.ser_any(res)
        for k, (m, before) in enumerate(held):
            if ser.ser_any(m) != before:
                out["out"] = {"err": "argument-mutated", "msg": "the %s was changed in place by a later operator"
                              % ("argument" if m is arg else "matrix returned by an earlier operator"), "held": k}
                return out
    except NotImplementedError:
        out["out"] = {"err": "not-implemented", "arg": None}
        return out
    except ser.Unsupported as e:
        out["out"] = {"err": "unsupported-node", "msg": str(e)}
        return out
    except CaseTimeout:
        raise
    except Exception as e:  # noqa
        out["out"] = {"err": type(e).__name__, "msg": str(e)[:200]}
        return out
    try:
        rng = random.Random(case.get("seed", 0))
        conc = ser.Concrete(rng, dim=case["dim"])
        fam = bool(case["ops"][0][0])
        ok, info = True, {}
        flat_in = [e for row in out["in"]["rows"] for e in row]
        flat_out = [e for row in out["out"]["rows"] for e in row] if out["out"].get("k") == "mat" else [out["out"]]
        if len(flat_in) != len(flat_out):
            ok, info = False, {"shape": "entries %d -> %d" % (len(flat_in), len(flat_out))}
        else:
            for a, b in zip(flat_in, flat_out):
                want = conc.sx(a, fam)
                for lg, i in reversed(case["ops"]):
                    want = sp.diff(want, conc.syms[bool(lg)][i])
                ok, info = ser.numeric_equal(conc.sx(b, fam), want, conc)
                if not ok:
                    break
        out["oracle"] = {"ok": bool(ok), "info": info}
    except Exception as e:  # noqa
        out["oracle"] = {"ok": None, "info": "oracle failed: %s" % str(e)[:200]}
    return out


class CaseTimeout(Exception):
    pass


def _alarm(signum, frame):
    raise CaseTimeout()


def main():
    import signal
    payload = json.load(open(sys.argv[1]))
    limit = int(payload.get("case_timeout", 40))
    signal.signal(signal.SIGALRM, _alarm)
    res = []
    for case in payload["cases"]:
        signal.alarm(limit)
        try:
            res.append(run_case(case))
        except CaseTimeout:
            # sympy can take minutes on a swollen expression: such a case is skipped and counted, never an alarm
            res.append({"in": case.get("tree") or {"k": "num", "p": 0, "q": 1}, "out": {"err": "unsupported-node", "msg": "case time limit"}})
        except Exception:  # noqa
            res.append({"crash": traceback.format_exc()[-1500:]})
        finally:
            signal.alarm(0)
    json.dump({"results": res}, open(sys.argv[2], "w"))


if __name__ == "__main__":
    main()
