"""Arm coverage of the anchored functions while an implementation runner executes.

usage: python _cover.py <cover-out.json> <runner.py> <args...>      (env VERIF_COVER_SPEC = path of a JSON
{relative source path: [qualified function names]})

Runs <runner.py> unchanged (as __main__) and records, with sys.monitoring (CPython 3.12), which source lines of the
listed functions (and of the code objects nested in them) were executed.  Each line event fires once and is then
disabled, so the overhead is negligible.  The result {path: {qualname: {"lines": [...], "hit": [...]}}} is written at
exit; the driver merges the files of all runner processes of a check into the evidence (`implementation_arm_coverage`):
an arm of the real code that no generated input reached is an arm the correspondence says nothing about.
Nothing here changes what the runner computes; if monitoring is unavailable the runner simply runs without it.
"""
import atexit
import json
import os
import runpy
import sys


def _install(out_path, spec):
    mon = getattr(sys, "monitoring", None)
    if mon is None:
        return
    tool = 3
    try:
        mon.use_tool_id(tool, "verif-armcov")
    except Exception:  # noqa
        return
    ev = mon.events
    targets = {}           # suffix -> tuple of qualnames
    for rel, names in spec.items():
        targets[rel] = tuple(names)
    hits = {}              # (rel, qualname-root) -> set(lines)
    known = {}             # code object id -> (rel, root) or None

    def classify(code):
        k = known.get(code)
        if k is not None or code in known:
            return k
        fn = code.co_filename.replace(os.sep, "/")
        res = None
        for rel, names in targets.items():
            if fn.endswith("/" + rel):
                q = code.co_qualname
                for n in names:
                    if q == n or q.startswith(n + ".<locals>."):
                        res = (rel, n)
                        break
                break
        known[code] = res
        return res

    def on_start(code, offset):
        k = classify(code)
        if k is None:
            return mon.DISABLE
        try:
            mon.set_local_events(tool, code, ev.LINE)
        except Exception:  # noqa
            pass
        return mon.DISABLE

    def on_line(code, line):
        k = known.get(code)
        if k is not None:
            hits.setdefault(k, set()).add(line)
        return mon.DISABLE

    mon.register_callback(tool, ev.PY_START, on_start)
    mon.register_callback(tool, ev.LINE, on_line)
    mon.set_events(tool, ev.PY_START)

    state = {"out": out_path, "child": False}

    def dump():
        if state["child"]:
            # a forked child (runners fork one process per case and leave with os._exit): hits only
            res = {}
            for (rel, n), ls in hits.items():
                res.setdefault(rel, {})[n] = {"lines": [], "hit": sorted(ls)}
            try:
                with open(state["out"], "w") as f:
                    json.dump(res, f)
            except Exception:  # noqa
                pass
            return
        try:
            mon.set_events(tool, 0)
        except Exception:  # noqa
            pass
        res = {}
        # executable lines of every target function, from the source that was actually imported
        files = {}
        for code in list(known):
            k = known[code]
            if k is not None:
                files[k[0]] = code.co_filename
        for rel, names in targets.items():
            path = files.get(rel)
            if path is None:
                for p in sys.path:
                    c = os.path.join(p, rel)
                    if os.path.exists(c):
                        path = c
                        break
            if path is None:
                continue
            try:
                top = compile(open(path).read(), path, "exec")
            except Exception:  # noqa
                continue
            lines = {}

            def walk(co):
                for c in co.co_consts:
                    if hasattr(c, "co_code"):
                        q = c.co_qualname
                        for n in names:
                            if q == n or q.startswith(n + ".<locals>."):
                                s = lines.setdefault(n, set())
                                for (_a, _b, ln) in c.co_lines():
                                    if ln is not None and ln != c.co_firstlineno:
                                        s.add(ln)
                                break
                        walk(c)
            walk(top)
            res[rel] = {n: {"lines": sorted(lines.get(n, ())), "hit": sorted(hits.get((rel, n), ()))} for n in names
                        if n in lines}
        try:
            with open(out_path, "w") as f:
                json.dump(res, f)
        except Exception:  # noqa
            pass

    atexit.register(dump)

    def in_child():
        hits.clear()
        state["child"] = True
        state["out"] = "%s.%d" % (out_path, os.getpid())
    os.register_at_fork(after_in_child=in_child)
    real_exit = os._exit

    def exit_with_dump(code=0):
        try:
            dump()
        except Exception:  # noqa
            pass
        real_exit(code)
    os._exit = exit_with_dump


def main():
    out_path, script = sys.argv[1], sys.argv[2]
    try:
        spec = json.load(open(os.environ["VERIF_COVER_SPEC"]))
        _install(out_path, spec)
    except Exception:  # noqa
        pass
    sys.argv = [script] + sys.argv[3:]
    sys.path.insert(0, os.path.dirname(os.path.abspath(script)))
    runpy.run_path(script, run_name="__main__")


if __name__ == "__main__":
    main()
