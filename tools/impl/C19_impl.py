"""Implementation side of C19: drives the real sympde.exterior classes on JSON programs.

input : {"cases":[{"id":i, "progs":[T..], "checks":[CHK..]}]}
  T   ::= {"t":"form","name":s,"k":k,"n":n} | {"t":"const","c":C} | {"t":"scale","c":C,"e":T}
        | {"t":"sum","args":[T..]} | {"t":"d","e":T} | {"t":"delta","e":T} | {"t":"hodge","e":T}
        | {"t":"wedge","a":T,"b":T}
  C   ::= {"num":[p,q]} | {"sym":name}
  CHK ::= {"law":name, "lhs":T, "rhs":T|null, "cmp":"eq"|"expand"}          (rhs null = the integer 0)
        | {"law":name, "infer":T}                                            (run infere_type on the value)
output: {"results":[{"progs":[PR..], "checks":[CR..]}]}
  PR  ::= {"value":V, "children":[V..], "infer":I}  |  {"raised":kind}
  CR  ::= {"pass":bool, "lhs":V, "rhs":V, "reeval_equal":bool} | {"value":V, "infer":I} | {"raised":kind}
  V   ::= {"k":"num","p":p,"q":q} | {"k":"sym","name":s} | {"k":"pow","name":s,"e":k}
        | {"k":"form","name":s,"deg":k,"dim":n} | {"k":"op","name":"d|delta|hodge","arg":V}
        | {"k":"wedge","a":V,"b":V} | {"k":"add","args":[V..]} | {"k":"mul","args":[V..]}
        | {"k":"unsupported","type":s}
  I   ::= {"ok":k} | "none" | "ValueError" | "AttributeError" | "other:<type>"
The runner only builds, calls and serialises; every decision is taken by the driver / inside Coq.
"""
import json
import sys


def errkind(e):
    for k in (ValueError, AttributeError, TypeError, AssertionError, RecursionError):
        if type(e) is k:
            return k.__name__
    return "other:" + type(e).__name__


def safe_str(x):
    # printing can itself fail: ExteriorProduct keeps a raw Python int operand (wedge(0, w)) and
    # sympy's printer then asks it for .is_number
    try:
        return str(x)
    except Exception as e:  # noqa
        return "<str() raised %s>" % errkind(e)


class Ctx:
    def __init__(self):
        import sympy
        from sympde.core import Constant
        from sympde.exterior import d, delta, hodge, wedge, DifferentialForm, infere_type
        from sympde.exterior.datatype import FormType
        self.sympy = sympy
        self.Constant, self.DifferentialForm = Constant, DifferentialForm
        self.d, self.delta, self.hodge, self.wedge = d, delta, hodge, wedge
        self.infere_type, self.FormType = infere_type, FormType
        self.ops1 = {"d": d, "delta": delta, "hodge": hodge}

    # ---------------------------------------------------------------- construction
    def coef(self, c):
        if "num" in c:
            p, q = c["num"]
            return self.sympy.Integer(p) if q == 1 else self.sympy.Rational(p, q)
        return self.Constant(c["sym"])

    def build(self, t, children=None):
        """Evaluate a program bottom-up with the user-level operators.  `children`, when a list,
        receives the values of the root's operands."""
        k = t["t"]
        if k == "form":
            return self.DifferentialForm(t["name"], index=t["k"], dim=t["n"])
        if k == "const":
            return self.coef(t["c"])
        if k == "scale":
            e = self.build(t["e"])
            if children is not None:
                children.append(e)
            return self.coef(t["c"]) * e
        if k == "sum":
            vals = [self.build(x) for x in t["args"]]
            if children is not None:
                children.extend(vals)
            acc = vals[0]
            for v in vals[1:]:
                acc = acc + v
            return acc
        if k in self.ops1:
            e = self.build(t["e"])
            if children is not None:
                children.append(e)
            return self.ops1[k](e)
        if k == "wedge":
            a, b = self.build(t["a"]), self.build(t["b"])
            if children is not None:
                children.extend([a, b])
            return self.wedge(a, b)
        raise ValueError("bad tree node %r" % k)

    # ---------------------------------------------------------------- serialisation
    def ser(self, x):
        sp = self.sympy
        from sympde.exterior.calculus import (ExteriorDerivative, AdjointExteriorDerivative, Hodge,
                                              ExteriorProduct)
        if isinstance(x, bool):
            return {"k": "unsupported", "type": "bool"}
        if isinstance(x, int):
            return {"k": "num", "p": x, "q": 1}
        if isinstance(x, sp.Rational):
            return {"k": "num", "p": int(x.p), "q": int(x.q)}
        if isinstance(x, self.Constant):
            return {"k": "sym", "name": x.name}
        if isinstance(x, self.DifferentialForm):
            idx = x.index.index
            if not isinstance(idx, int) or not isinstance(x.dim, int):
                return {"k": "unsupported", "type": "symbolic-form"}
            return {"k": "form", "name": x.name, "deg": idx, "dim": x.dim}
        if isinstance(x, sp.Pow):
            b, e = x.args
            if isinstance(b, self.Constant) and isinstance(e, sp.Integer) and int(e) >= 2:
                return {"k": "pow", "name": b.name, "e": int(e)}
            return {"k": "unsupported", "type": "Pow"}
        if type(x) is ExteriorDerivative and len(x.args) == 1:
            return {"k": "op", "name": "d", "arg": self.ser(x.args[0])}
        if type(x) is AdjointExteriorDerivative and len(x.args) == 1:
            return {"k": "op", "name": "delta", "arg": self.ser(x.args[0])}
        if type(x) is Hodge and len(x.args) == 1:
            return {"k": "op", "name": "hodge", "arg": self.ser(x.args[0])}
        if type(x) is ExteriorProduct and len(x.args) == 2:
            return {"k": "wedge", "a": self.ser(x.args[0]), "b": self.ser(x.args[1])}
        if type(x) is sp.Add:
            return {"k": "add", "args": [self.ser(a) for a in x.args]}
        if type(x) is sp.Mul:
            return {"k": "mul", "args": [self.ser(a) for a in x.args]}
        return {"k": "unsupported", "type": type(x).__name__}

    def infer(self, x):
        try:
            r = self.infere_type(x)
        except Exception as e:  # noqa
            return errkind(e)
        if r is None:
            return "none"
        if isinstance(r, self.FormType) and isinstance(r.index, int):
            return {"ok": r.index}
        return "other:" + type(r).__name__

    # ---------------------------------------------------------------- re-evaluation closure
    def reeval(self, x):
        """Rebuild x bottom-up through the implementation's own (evaluating) constructors."""
        sp = self.sympy
        from sympde.exterior.calculus import (ExteriorDerivative, AdjointExteriorDerivative, Hodge,
                                              ExteriorProduct)
        if not isinstance(x, sp.Basic):
            return x
        if type(x) in (ExteriorDerivative, AdjointExteriorDerivative, Hodge):
            return type(x)(self.reeval(x.args[0]))
        if type(x) is ExteriorProduct:
            return ExteriorProduct(self.reeval(x.args[0]), self.reeval(x.args[1]))
        if type(x) in (sp.Add, sp.Mul):
            return type(x)(*[self.reeval(a) for a in x.args])
        return x

    def closure(self, x):
        sp = self.sympy
        for _ in range(8):
            y = self.reeval(x)
            y = sp.expand(y) if isinstance(y, sp.Basic) else y
            if y == x:
                return y
            x = y
        return x

    # ---------------------------------------------------------------- one case
    def run_prog(self, t):
        try:
            ch = []
            v = self.build(t, ch)
        except Exception as e:  # noqa
            return {"raised": errkind(e)}
        return {"value": self.ser(v), "children": [self.ser(c) for c in ch], "infer": self.infer(v)}

    def run_check(self, c):
        sp = self.sympy
        try:
            if "infer" in c:
                v = self.build(c["infer"])
                return {"value": self.ser(v), "infer": self.infer(v)}
            lhs = self.build(c["lhs"])
            rhs = self.build(c["rhs"]) if c.get("rhs") is not None else 0
            if c.get("cmp") == "expand":
                el = sp.expand(lhs) if isinstance(lhs, sp.Basic) else lhs
                er = sp.expand(rhs) if isinstance(rhs, sp.Basic) else rhs
                ok = bool(el == er)
            else:
                ok = bool(lhs == rhs)
            out = {"pass": ok, "lhs": self.ser(lhs), "rhs": self.ser(rhs)}
            if not ok:
                try:
                    out["reeval_equal"] = bool(self.closure(lhs) == self.closure(rhs))
                except Exception as e:  # noqa  (sympy cannot sort an Add holding ExteriorProduct(0, w): raw int operand)
                    out["reeval_equal"] = False
                    out["reeval_raised"] = errkind(e)
                out["lhs_str"], out["rhs_str"] = safe_str(lhs), safe_str(rhs)
            return out
        except Exception as e:  # noqa
            return {"raised": errkind(e)}

    def run_case(self, case):
        from sympy.core import cache
        cache.clear_cache()
        return {"progs": [self.run_prog(t) for t in case.get("progs", [])],
                "checks": [self.run_check(c) for c in case.get("checks", [])]}


def main():
    payload = json.load(open(sys.argv[1]))
    ctx = Ctx()
    res = []
    for case in payload["cases"]:
        try:
            res.append(ctx.run_case(case))
        except Exception:  # noqa
            import traceback
            res.append({"crash": traceback.format_exc()})
    json.dump({"results": res}, open(sys.argv[2], "w"))


if __name__ == "__main__":
    main()
