"""Implementation side of C03, direct calls of the public helpers of sympde/topology/mapping.py:
    Jacobian(M)            the matrix (d M_i / d x_j)
    Covariant(M, v)        J^-T v       (the H(curl) / gradient transformation)
    Contravariant(M, v)    (J / det J) v   (the H(div) Piola transformation)
on symbolic and analytical mappings, with v given as tuple / list / Tuple / Matrix / ImmutableDenseMatrix, and the
refusals (a small enum: value | TypeError | AssertionError | AttributeError | ShapeError | other:<name>).

case : {"dc":{"call":"Jacobian|Covariant|Contravariant", "mapping":MAP | {"type":"string"} | {"type":"surface"},
              "container":"tuple|list|Tuple|Matrix|ImmutableDenseMatrix|scalar|set|none", "entries":[sx..]}, "dim":d, "seed":n}
  MAP as in C03_impl (symbolic / catalogue / user).   entries: logical expressions (constants, x1..x3, logical fields).
result: {"out": {"k":"mat","rows":..} | {"err":enum,..}, "mapexprs":[sx]|None, "oracle":{"ok":..}}
Oracle: explicit map F (polynomial diffeomorphism for a symbolic mapping, the coordinate expressions otherwise), its
Jacobian by sympy.diff, J^-T v and (J/det J) v computed with sympy's Matrix arithmetic on the explicit entries, compared
at rational points (mpmath, 50 digits).
"""
import random
import traceback

import sympy as sp
from sympy import Rational, Matrix, ImmutableDenseMatrix, Tuple

import ser


def classify(ex):
    n = type(ex).__name__
    return n if n in ("TypeError", "AssertionError", "AttributeError", "ShapeError", "ValueError", "IndexError",
                      "NotImplementedError") else "other:" + n


def run_dc_case(case, C03):
    from sympy.core.cache import clear_cache
    clear_cache()
    from sympde.topology.mapping import Jacobian, Covariant, Contravariant
    from sympde.topology import Mapping
    dc = case["dc"]
    d = case["dim"]
    out = {}
    m = dc["mapping"]
    if dc["call"] == "PullBack":
        # the refusals of PullBack.__new__: a function of an unmapped domain, something that is not a function
        from sympde.topology import Domain, ScalarFunctionSpace, element_of, dx
        from sympde.topology.mapping import PullBack
        try:
            if m["type"] == "unmapped":
                u = element_of(ScalarFunctionSpace("V", Domain("Omega", dim=d)), name="u")
                PullBack(u)
            else:
                w = C03.World({"dim": d, "mapping": {"type": "symbolic"}, "spaces": {"u": {"kind": "h1", "vector": False}}})
                PullBack(dx(w.funcs["u"]))
            out["out"] = {"k": "mat", "rows": [[{"k": "num", "p": 0, "q": 1}]]}
        except Exception as ex:  # noqa
            out["out"] = {"err": classify(ex), "msg": str(ex)[:160]}
        return out
    if m["type"] == "string":
        M = "M"
    elif m["type"] == "surface":
        M = Mapping("M", ldim=d, pdim=d + 1)
    else:
        w = C03.World({"dim": d, "mapping": m, "spaces": {}})
        M = w.M
    env = ser.Env(dim=d)
    entries = [ser.build_sx(e, env) for e in dc.get("entries", [])]
    try:
        out["entries_in"] = [C03.ser_scalar(e) for e in entries]
    except ser.Unsupported:
        out["entries_in"] = None
    cont = dc.get("container", "none")
    v = {"tuple": lambda: tuple(entries), "list": lambda: list(entries), "Tuple": lambda: Tuple(*entries),
         "Matrix": lambda: Matrix([[e] for e in entries]), "ImmutableDenseMatrix": lambda: ImmutableDenseMatrix([[e] for e in entries]),
         "scalar": lambda: entries[0], "set": lambda: set(entries), "none": lambda: None}[cont]()
    try:
        if dc["call"] == "Jacobian":
            res = Jacobian(M)
        elif dc["call"] == "Covariant":
            res = Covariant(M, v)
        else:
            res = Contravariant(M, v)
    except Exception as ex:  # noqa
        out["out"] = {"err": classify(ex), "msg": str(ex)[:160]}
        return out
    if not isinstance(M, str) and getattr(M, "is_analytical", False):
        try:
            out["mapexprs"] = [C03.ser_scalar(a) for a in M.expressions]
        except ser.Unsupported:
            out["mapexprs"] = None
    try:
        if isinstance(res, (Matrix, ImmutableDenseMatrix)):
            out["out"] = {"k": "mat", "rows": [[C03.ser_scalar(res[i, j]) for j in range(res.shape[1])] for i in range(res.shape[0])]}
        else:
            out["out"] = {"k": "mat", "rows": [[C03.ser_scalar(a)] for a in res]}
        out["result_type"] = type(res).__name__
    except ser.Unsupported as ex:
        out["out"] = {"err": "unsupported-node", "msg": str(ex)[:200], "text": str(res)[:300]}
        return out
    # ---- oracle
    try:
        rng = random.Random(case.get("seed", 0))
        if isinstance(M, str) or m["type"] == "surface":
            out["oracle"] = {"ok": None, "info": "no reference for this call"}
            return out
        exp = C03.Explicit(C03.World({"dim": d, "mapping": m, "spaces": {}}), rng)
        conc = ser.Concrete(rng, dim=d, deg=2)
        conc.consts = exp.cvals
        J = exp.J
        vals = [conc.sx(e, True) for e in dc.get("entries", [])]
        if dc["call"] == "Jacobian":
            want = [[J[i, j] for j in range(d)] for i in range(d)]
        elif dc["call"] == "Covariant":
            if len(vals) != d:
                out["oracle"] = {"ok": None, "info": "length mismatch: no reference"}
                return out
            r = J.inv().T * Matrix(vals)
            want = [[r[i]] for i in range(d)]
        else:
            if len(vals) != d:
                out["oracle"] = {"ok": None, "info": "length mismatch: no reference"}
                return out
            r = (J / J.det()) * Matrix(vals)
            want = [[r[i]] for i in range(d)]

        class Ev(C03.Explicit):
            def __init__(self):  # noqa
                self.Xh, self.F, self.cvals, self.rng = exp.Xh, exp.F, exp.cvals, rng

            def atom(self, a):
                if a["t"] == "fld":
                    p = conc.poly(("fld", a["f"], a["c"], a["s"]), True)
                    for i, n in enumerate(a["al"]):
                        for _ in range(n):
                            p = sp.diff(p, conc.syms[True][i])
                    return p
                return C03.Explicit.atom(self, a)
        ev = Ev()
        got = [[ev.sx(a) for a in row] for row in out["out"]["rows"]]
        if (len(got), len(got[0])) != (len(want), len(want[0])):
            out["oracle"] = {"ok": False, "info": {"why": "shape", "got": [len(got), len(got[0])], "want": [len(want), len(want[0])]}}
            return out
        import mpmath
        ok, info = True, {}
        for _ in range(2):
            pt = exp.point()
            if pt is None:
                continue
            for i, (gr, wr) in enumerate(zip(got, want)):
                for j, (g, wv) in enumerate(zip(gr, wr)):
                    vg = C03.mp_value(sp.sympify(g).xreplace(pt))
                    vw = C03.mp_value(sp.sympify(wv).xreplace(pt))
                    if vg is None or vw is None:
                        continue
                    with mpmath.workdps(60):
                        dlt = float(abs(vg - vw) / max(1, abs(vg), abs(vw)))
                    if dlt > 1e-12:
                        ok, info = False, {"why": "value", "entry": [i, j], "point": {str(k): str(v) for k, v in pt.items()},
                                           "got": mpmath.nstr(vg, 20), "want": mpmath.nstr(vw, 20)}
        out["oracle"] = {"ok": ok, "info": info}
    except C03.CaseTimeout:
        raise
    except Exception as ex:  # noqa
        out["oracle"] = {"ok": None, "info": "oracle failed: %s %s" % (type(ex).__name__, str(ex)[:200]), "tb": traceback.format_exc()[-500:]}
    return out
