"""Implementation side of C20: drives the real sympde.core.utils.expand_name_patterns, the installed
sympy.symbols and sympde.topology.element_of / elements_of on JSON cases.

input : {"cases": [case..]}  or  {"shrink": case}
case  : {"t": "expand", "pat": P, "seq": S}
      | {"t": "element", "fn": "element_of"|"elements_of", "space": SP, "pat": P}
P     : {"s": str} | {"k": "list"|"tuple"|"set", "items": [P..]} | {"bad": 1}
S     : "absent" | "none" | true | false | {"other": 0|1}        (the `seq` keyword)
SP    : {"b": "scalar"|"vector", "name": str} | {"prod": [SP..]}   (ProductSpace(*...))
output: per expand case  {"A": R, "B": R}      A = sympde, B = names of sympy.symbols
        per element case {"elt": T, "names": R, "names_sympy": R, "comps": [[kind, name]..] | null}
R     : {"n": str} | {"k": kind, "items": [R..]} | {"err": kind} | {"odd": repr}
T     : {"f": "scalar"|"vector", "name": str, "space": [kind, name] | null} | {"k": kind, "items": [T..]}
        | {"err": kind} | {"odd": repr}

The pure functions at the end (the oracle of the property on these outputs, feature extraction)
are also imported by tools/props/C20.py; nothing of sympde / sympy is imported at module level.
"""
import json
import sys

KINDS = {list: "list", tuple: "tuple", set: "set"}


def errkind(e):
    for cls, name in ((NotImplementedError, "NotImplementedError"), (ValueError, "ValueError"),
                      (TypeError, "TypeError")):
        if type(e) is cls:
            return name
    return "other:" + type(e).__name__


def build_pat(p):
    if "s" in p:
        return p["s"]
    if "bad" in p:
        return 5
    items = [build_pat(x) for x in p["items"]]
    return {"list": list, "tuple": tuple, "set": set}[p["k"]](items)


def seq_kwargs(s):
    if s == "absent":
        return {}
    if s == "none":
        return {"seq": None}
    if s is True or s is False:
        return {"seq": s}
    return {"seq": 1 if s["other"] else 0}


def enc_names(x, leaf):
    """Encode a returned value; `leaf` maps a leaf object to its name or None."""
    n = leaf(x)
    if n is not None:
        return {"n": n}
    if type(x) in KINDS:
        items = [enc_names(y, leaf) for y in x]
        if type(x) is set:
            items.sort(key=lambda r: json.dumps(r, sort_keys=True))
        return {"k": KINDS[type(x)], "items": items}
    return {"odd": repr(x)[:80]}


def str_leaf(x):
    return x if isinstance(x, str) else None


def sym_leaf(x):
    from sympy import Symbol
    return x.name if type(x) is Symbol and isinstance(x.name, str) else None


def run_A(pat, seq):
    from sympde.core.utils import expand_name_patterns
    try:
        return enc_names(expand_name_patterns(build_pat(pat), **seq_kwargs(seq)), str_leaf)
    except Exception as e:  # noqa
        return {"err": errkind(e)}


def run_B(pat, seq):
    from sympy import symbols
    try:
        return enc_names(symbols(build_pat(pat), **seq_kwargs(seq)), sym_leaf)
    except Exception as e:  # noqa
        return {"err": errkind(e)}


# ----------------------------------------------------------------------------- spaces
class Spaces:
    def __init__(self):
        from sympde.topology import Domain
        self.domain = Domain("D", dim=2)
        self.table = {}          # (kind, name) -> space object

    def build(self, sp):
        from sympde.topology import ScalarFunctionSpace, VectorFunctionSpace, ProductSpace
        if "b" in sp:
            key = (sp["b"], sp["name"])
            if key not in self.table:
                cls = ScalarFunctionSpace if sp["b"] == "scalar" else VectorFunctionSpace
                self.table[key] = cls(sp["name"], self.domain)
            return self.table[key]
        if "badspace" in sp:
            return 5
        return ProductSpace(*[self.build(x) for x in sp["prod"]])

    def ident(self, space):
        for key, obj in self.table.items():
            if obj is space:
                return list(key)
        return None


def enc_elt(x, spaces):
    from sympde.topology import ScalarFunction, VectorFunction
    if type(x) is ScalarFunction or type(x) is VectorFunction:
        return {"f": "scalar" if type(x) is ScalarFunction else "vector", "name": x.name,
                "space": spaces.ident(x.space)}
    if type(x) in KINDS:
        return {"k": KINDS[type(x)], "items": [enc_elt(y, spaces) for y in x]}
    return {"odd": repr(x)[:80]}


def run_element(case):
    import sympde.topology as T
    from sympde.topology.space import ProductSpace
    spaces = Spaces()
    out = {}
    space = spaces.build(case["space"])
    out["comps"] = [spaces.ident(s) for s in space.spaces] if isinstance(space, ProductSpace) else None
    fn = getattr(T, case["fn"])
    try:
        out["elt"] = enc_elt(fn(space, build_pat(case["pat"])), spaces)
    except Exception as e:  # noqa
        out["elt"] = {"err": errkind(e)}
    seq = "absent" if case["fn"] == "element_of" else True
    out["names"] = run_A(case["pat"], seq)
    out["names_sympy"] = run_B(case["pat"], seq)
    return out


def run_case(case):
    if case["t"] == "expand":
        return {"A": run_A(case["pat"], case["seq"]), "B": run_B(case["pat"], case["seq"])}
    return run_element(case)


# ----------------------------------------------------------------------------- oracle (pure)
def seq_in_scope(seq):
    """The property quantifies over `seq` not given / True / False."""
    return seq == "absent" or seq is True or seq is False


def is_nested(pat):
    return "s" not in pat


def oracle_expand(case, res):
    """C20, first sentence, on the two implementations' outputs: same names, same structure,
    same error type.  Returns None or a message."""
    if not seq_in_scope(case["seq"]):
        return None
    a, b = res["A"], res["B"]
    if has_odd(a) or has_odd(b):
        return "a returned value is neither a name nor a list/tuple/set of names"
    if a != b:
        if "err" in a or "err" in b:
            return "error behaviour differs: sympde %s, sympy %s" % (short(a), short(b))
        return "names differ: sympde %s, sympy %s" % (short(a), short(b))
    return None


def has_odd(r):
    if "odd" in r:
        return True
    return any(has_odd(x) for x in r.get("items", []))


def short(r):
    if "err" in r:
        return "raises " + r["err"]
    if "n" in r:
        return repr(r["n"])
    if "odd" in r:
        return "<%s>" % r["odd"]
    o, c = {"list": "[]", "tuple": "()", "set": "{}"}[r["k"]]
    return o + ", ".join(short(x) for x in r["items"]) + ("," if r["k"] == "tuple" and len(r["items"]) == 1 else "") + c


def flat_names(r):
    if "n" in r:
        return [r["n"]]
    out = []
    for x in r.get("items", []):
        out += flat_names(x)
    return out


def elt_names_tree(t):
    if "f" in t:
        return {"n": t["name"]}
    if "k" in t:
        return {"k": t["k"], "items": [elt_names_tree(x) for x in t["items"]]}
    return t


def leaves(t):
    if "f" in t:
        return [t]
    out = []
    for x in t.get("items", []):
        out += leaves(x)
    return out


def flat_spaces(sp):
    """Component spaces of a space description, as ProductSpace documents them (flattened)."""
    if "b" in sp:
        return [[sp["b"], sp["name"]]]
    out = []
    for x in sp["prod"]:
        out += flat_spaces(x)
    return out


def oracle_element(case, res):
    """C20, second sentence, on the implementation's output.  Independent of the Coq model:
    the names tree is the one returned by the real expand_name_patterns (and, for element_of,
    by sympy.symbols); the component spaces are read off the space description."""
    t = res["elt"]
    names = res["names"]
    comps = flat_spaces(case["space"])
    if "err" in t:
        # a refusal is judged only where the property promises a result: one name for a scalar /
        # vector space, or exactly one plain name per component of a product space; the other
        # refusals are compared with the model (correspondence)
        if "err" not in names:
            if "b" in case["space"] and "n" in names:
                return "one name for a scalar/vector space was refused (%s)" % t["err"]
            if "prod" in case["space"] and "k" in names and len(names["items"]) == len(comps) \
                    and all("n" in x for x in names["items"]):
                return "one name per component space was refused (%s)" % t["err"]
        return None
    if has_odd(t):
        return "a created object is neither a Scalar/VectorFunction nor a list/tuple of them"
    if "err" in names:
        return "elements were created although the name pattern is refused (%s)" % names["err"]
    got = elt_names_tree(t)
    if got != names:
        if flat_names(got) != flat_names(names):
            lost, have = [], list(flat_names(got))
            for n in flat_names(names):
                if n in have:
                    have.remove(n)
                else:
                    lost.append(n)
            return "names of the created functions %s are not the expanded names %s (lost: %s)" % (
                short(got), short(names), lost)
        return "nesting of the created functions %s differs from the nesting of the names %s" % (short(got), short(names))
    # element_of expands without seq, elements_of with seq=True; on a nested pattern with seq the two
    # expanders are known to differ (judged by oracle_expand), so sympy is the reference only elsewhere
    if (case["fn"] == "element_of" or "s" in case["pat"]) and res["names_sympy"] != names:
        return "names %s differ from sympy.symbols %s" % (short(names), short(res["names_sympy"]))
    if "b" in case["space"]:
        for lf in leaves(t):
            if lf["space"] != comps[0] or lf["f"] != comps[0][0]:
                return "function %r does not belong to the space %s" % (lf["name"], comps[0][1])
    else:
        if res["comps"] != comps:
            return "component spaces of the product %s are not the flattened factors %s" % (res["comps"], comps)
        if "k" in t:
            for i, sub in enumerate(t["items"]):
                if i >= len(comps):
                    return "more entries than component spaces"
                for lf in leaves(sub):
                    if lf["space"] != comps[i] or lf["f"] != comps[i][0]:
                        return "function %r (entry %d) does not belong to component space %d (%s) but to %s" % (
                            lf["name"], i, i, comps[i][1], lf["space"])
        else:
            return "a single function was created for a product space"
    return None


def oracle(case, res):
    return oracle_expand(case, res) if case["t"] == "expand" else oracle_element(case, res)


# ----------------------------------------------------------------------------- shrinking (in process)
def pat_strings(p, path=()):
    if "s" in p:
        yield path, p["s"]
    for i, x in enumerate(p.get("items", [])):
        yield from pat_strings(x, path + (i,))


def pat_set(p, path, f):
    """Copy of p with the node at `path` replaced by f(node) (None = delete it)."""
    if not path:
        return f(p)
    q = dict(p)
    items = list(p["items"])
    r = pat_set(items[path[0]], path[1:], f)
    if r is None:
        del items[path[0]]
    else:
        items[path[0]] = r
    q["items"] = items
    return q


def pat_nodes(p, path=()):
    yield path
    for i, x in enumerate(p.get("items", [])):
        yield from pat_nodes(x, path + (i,))


def candidates(case):
    """Smaller variants of a case: drop a sub-pattern, replace a container by one of its items,
    delete one character of one string, drop one factor of a product space."""
    pat = case["pat"]
    for path in pat_nodes(pat):
        if path:
            yield dict(case, pat=pat_set(pat, path, lambda n: None))
    for path in pat_nodes(pat):
        node = pat
        for i in path:
            node = node["items"][i]
        for x in node.get("items", []):
            yield dict(case, pat=pat_set(pat, path, lambda n, x=x: x))
    for path, s in pat_strings(pat):
        for i in range(len(s)):
            yield dict(case, pat=pat_set(pat, path, lambda n, i=i, s=s: {"s": s[:i] + s[i + 1:]}))
    sp = case.get("space")
    if sp and "prod" in sp:
        for i, x in enumerate(sp["prod"]):
            if "prod" in x:       # a factor that is a product: put its factors in its place
                yield dict(case, space={"prod": sp["prod"][:i] + x["prod"] + sp["prod"][i + 1:]})
        if len(sp["prod"]) > 1:
            for i in range(len(sp["prod"])):
                yield dict(case, space={"prod": sp["prod"][:i] + sp["prod"][i + 1:]})


def shrink(case, same_failure):
    """Greedy: apply the first smaller variant on which the oracle still fails, until none does."""
    best = case
    steps = 0
    changed = True
    while changed and steps < 400:
        changed = False
        for c in candidates(best):
            try:
                r = run_case(c)
                msg = oracle(c, r)
            except Exception:  # noqa
                msg = None
            if msg is not None and same_failure(c, r, msg):
                best, changed = c, True
                steps += 1
                break
    return best, steps


def source_comparison():
    """Statement-by-statement comparison of the two functions' string branch (evidence only):
    after replacing `cls(X, **args)` by X the bodies should differ only where `seq` is read."""
    import ast
    import inspect
    import textwrap
    from sympde.core.utils import expand_name_patterns
    from sympy.core.symbol import symbols

    class Norm(ast.NodeTransformer):
        def visit_Call(self, node):
            self.generic_visit(node)
            if isinstance(node.func, ast.Name) and node.func.id == "cls" and len(node.args) == 1:
                return node.args[0]
            return node

    def flat(fn):
        tree = ast.parse(textwrap.dedent(inspect.getsource(fn)))
        out = []

        def walk(stmts, depth):
            for st in stmts:
                if isinstance(st, ast.Expr) and isinstance(st.value, ast.Constant) and isinstance(st.value.value, str):
                    continue      # docstring
                st = Norm().visit(st)
                head = ast.unparse(st).splitlines()[0]
                out.append("  " * depth + head)
                for field in ("body", "orelse"):
                    sub = getattr(st, field, None)
                    if isinstance(sub, list) and sub and isinstance(sub[0], ast.stmt):
                        if field == "orelse":
                            out.append("  " * depth + "else:")
                        walk(sub, depth + 1)
        walk(tree.body[0].body, 0)
        return out
    import difflib
    a, b = flat(expand_name_patterns), flat(symbols)
    diff = [l for l in difflib.unified_diff(a, b, "sympde.expand_name_patterns", "sympy.symbols", lineterm="", n=0)
            if not l.startswith("@@")]
    same = sum(1 for x in difflib.SequenceMatcher(None, a, b).get_matching_blocks() for _ in range(x.size))
    return {"statements_sympde": len(a), "statements_sympy": len(b), "identical_statements": same, "diff": diff}


def main():
    payload = json.load(open(sys.argv[1]))
    if "srcdiff" in payload:
        try:
            out = source_comparison()
        except Exception as e:  # noqa
            out = {"error": "%s: %s" % (type(e).__name__, e)}
        json.dump(out, open(sys.argv[2], "w"))
        return
    if "shrink" in payload:
        case = payload["shrink"]
        r0 = run_case(case)
        m0 = oracle(case, r0)
        cls0 = classify(case, r0, m0)
        small, steps = shrink(case, lambda c, r, m: classify(c, r, m) == cls0) if m0 else (case, 0)
        r = run_case(small)
        json.dump({"case": small, "res": r, "msg": oracle(small, r), "steps": steps}, open(sys.argv[2], "w"))
        return
    res = []
    for case in payload["cases"]:
        try:
            r = run_case(case)
            r["oracle"] = oracle(case, r)
            r["sig"] = classify(case, r, r["oracle"])
            res.append(r)
        except Exception:  # noqa
            import traceback
            res.append({"crash": traceback.format_exc()})
    json.dump({"results": res}, open(sys.argv[2], "w"))


def classify(case, res, msg):
    """Signature of an oracle failure (matched against known_findings.json)."""
    if msg is None:
        return None
    if case["t"] == "expand":
        if is_nested(case["pat"]) and case["seq"] in (True, False):
            # does the same nested pattern agree when seq is not passed?  then seq is the cause
            if run_A(case["pat"], "absent") == run_B(case["pat"], "absent"):
                return {"kind": "nested-seq"}
        return {"kind": "expand-differs", "how": "error" if ("err" in res["A"] or "err" in res["B"]) else "names"}
    if msg.startswith("names of the created functions") or msg.startswith("nesting"):
        names = res["names"]
        if "prod" in case["space"] and "k" in names and len(names["items"]) > len(flat_spaces(case["space"])) \
                and "k" in res["elt"] and len(res["elt"]["items"]) == len(flat_spaces(case["space"])):
            # zip(spaces, names) stopped at the shorter argument
            return {"kind": "zip-truncation"}
        return {"kind": "element-names" if msg.startswith("names") else "element-nesting"}
    if "belong" in msg:
        return {"kind": "element-space"}
    if "differ from sympy.symbols" in msg:
        return {"kind": "element-names-vs-sympy"}
    if "refused" in msg:
        return {"kind": "element-refused"}
    return {"kind": "element-other"}


if __name__ == "__main__":
    main()
