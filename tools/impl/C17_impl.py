"""Implementation side of C17: drives the real SymbolicExpr / get_max_*partial_derivatives on JSON cases.

input : {"cases":[{"dim":1..3, "funcs":[{"name":s,"vector":bool}..], "kernel":SPEC}]}
SPEC  : {"k":"num","v":"3"} | {"k":"rat","p":1,"q":2} | {"k":"const","name":s} | {"k":"sym","name":s}
      | {"k":"vec","name":s}
      | {"k":"chain","ops":["dx"|"dy"|"dz"|"dx1"|"dx2"|"dx3",..] (outermost first),
         "atom":{"t":"s","name":s}|{"t":"c","name":s,"i":n}, "eval":bool}
      | {"k":"add","args":[..]} | {"k":"mul","args":[..]} | {"k":"pow","b":SPEC,"e":SPEC}
      | {"k":"fn","name":"sin|cos|exp|log|Abs|tan|atan2|Max","args":[..]}
      | {"k":"tuple","items":[..]} | {"k":"seq","py":"list|tuple","items":[..]}
      | {"k":"matrix","imm":bool,"rows":[[..]..]}
      | {"k":"side","plus":bool,"e":SPEC}                       Minus/PlusInterfaceOperator(e)
      | {"k":"geo","g":"map|wvol|det|detJ","map":MREF}          Mapping / SymbolicWeightedVolume / SymbolicDeterminant
      | {"k":"ibase","name":s,"normal":bool} | {"k":"idx","name":s} | {"k":"imag"}
      | {"k":"pidx","base":s,"idx":s,"how":"int|idx|normal"}  plain sympy Indexed A[0], A[i], NormalVector(n)[0]
      | {"k":"pb","name":s,"vector":bool,"kind":"h1|l2|hcurl|hdiv","map":s}   PullBack of a function on a mapped domain
      | {"k":"opaque","what":"bool|derivative|domain|str|none"} objects SymbolicExpr has no arm for
      | {"k":"pynum","v":2|2.5}                                  bare python number (inside a python list / tuple)
ATOM  : {"t":"s","name":s} | {"t":"c","name":s,"i":n} | {"t":"side","plus":bool,"a":ATOM} | {"t":"m","map":MREF,"i":n}
MREF  : {"name":s,"side":null|"minus"|"plus"} | {"iface":[s,s]}
output: per case a dict (see run_case) in which every expression is a TREE in the same grammar, read back from
        the real sympy object with sympy's own argument order (fail-closed on an unknown node type).
"""
import json
import sys
import traceback

OPS = ("dx", "dy", "dz", "dx1", "dx2", "dx3")


class Unsupported(Exception):
    pass


def errkind(e):
    for cls in (NotImplementedError, AttributeError, TypeError, ValueError, AssertionError, IndexError, KeyError):
        if isinstance(e, cls):
            return cls.__name__
    return "other:" + type(e).__name__


# ------------------------------------------------------------------ building real objects
class Ctx:
    def __init__(self, case):
        from sympde.topology import Domain, ScalarFunctionSpace, VectorFunctionSpace, element_of
        self.dim = case["dim"]
        self.domain = Domain("Omega", dim=self.dim)
        self.V = ScalarFunctionSpace("V", self.domain)
        self.W = VectorFunctionSpace("W", self.domain)
        self.funcs = {}
        for f in case["funcs"]:
            self.funcs[(f["name"], bool(f["vector"]))] = element_of(self.W if f["vector"] else self.V, name=f["name"])
        self.maps = {}
        self.mapped = {}

    def mapping(self, name):
        from sympde.topology import Mapping
        if name not in self.maps:
            self.maps[name] = Mapping(name, dim=self.dim)
        return self.maps[name]

    def mref(self, r):
        from sympde.topology.mapping import InterfaceMapping
        if "iface" in r:
            return InterfaceMapping(self.mapping(r["iface"][0]), self.mapping(r["iface"][1]))
        m = self.mapping(r["name"])
        if r.get("side"):
            # the copies an InterfaceMapping keeps of its two sides
            im = InterfaceMapping(m, m)
            return im.minus if r["side"] == "minus" else im.plus
        return m

    def pullback(self, s):
        """PullBack(f) for a function f of a space over the mapped domain M(Line|Square|Cube)"""
        from sympde.topology import Line, Square, Cube, ScalarFunctionSpace, VectorFunctionSpace, element_of
        from sympde.topology.mapping import PullBack
        key = (s["map"], s["kind"], bool(s["vector"]))
        if key not in self.mapped:
            ref = {1: Line, 2: Square, 3: Cube}[self.dim]("R_" + s["map"])
            dom = self.mapping(s["map"])(ref)
            cls = VectorFunctionSpace if s["vector"] else ScalarFunctionSpace
            self.mapped[key] = cls("X_%s_%s" % (s["map"], s["kind"]), dom, kind=s["kind"])
        return PullBack(element_of(self.mapped[key], name=s["name"]))

    def atom(self, a):
        from sympde.calculus.core import MinusInterfaceOperator, PlusInterfaceOperator
        if a["t"] == "s":
            return self.funcs[(a["name"], False)]
        if a["t"] == "side":
            return (PlusInterfaceOperator if a["plus"] else MinusInterfaceOperator)(self.atom(a["a"]))
        if a["t"] == "m":
            return self.mref(a["map"])[a["i"]]
        return self.funcs[(a["name"], True)][a["i"]]

    def build(self, s):
        import sympy as sp
        from sympde.core import Constant
        from sympde.topology import derivatives as D
        k = s["k"]
        if k == "num":
            return sp.Integer(int(s["v"]))
        if k == "rat":
            return sp.Rational(s["p"], s["q"])
        if k == "const":
            return Constant(s["name"])
        if k == "sym":
            return sp.Symbol(s["name"])
        if k == "vec":
            return self.funcs[(s["name"], True)]
        if k == "chain":
            e = self.atom(s["atom"])
            for op in reversed(s["ops"]):
                cls = getattr(D, op)
                e = cls(e) if s.get("eval") else cls(e, evaluate=False)
            return e
        if k == "add":
            return sp.Add(*[self.build(a) for a in s["args"]])
        if k == "mul":
            return sp.Mul(*[self.build(a) for a in s["args"]])
        if k == "pow":
            return sp.Pow(self.build(s["b"]), self.build(s["e"]))
        if k == "fn":
            return getattr(sp, s["name"])(*[self.build(a) for a in s["args"]])
        if k == "tuple":
            return sp.Tuple(*[self.build(a) for a in s["items"]])
        if k == "seq":
            items = [self.build(a) for a in s["items"]]
            return items if s.get("py", "list") == "list" else tuple(items)
        if k == "matrix":
            rows = [[self.build(a) for a in r] for r in s["rows"]]
            return sp.ImmutableDenseMatrix(rows) if s.get("imm") else sp.Matrix(rows)
        if k == "side":
            from sympde.calculus.core import MinusInterfaceOperator, PlusInterfaceOperator
            return (PlusInterfaceOperator if s["plus"] else MinusInterfaceOperator)(self.build(s["e"]))
        if k == "geo":
            from sympde.topology.mapping import SymbolicWeightedVolume
            from sympde.calculus.matrices import SymbolicDeterminant
            m = self.mref(s["map"])
            if s["g"] == "map":
                return m
            if s["g"] == "wvol":
                return SymbolicWeightedVolume(m)
            if s["g"] == "det":
                return SymbolicDeterminant(m)
            if s["g"] == "detJ":
                return m.jacobian.det()
            raise ValueError("bad geo %r" % (s["g"],))
        if k == "ibase":
            from sympde.topology import NormalVector
            return NormalVector(s["name"]) if s.get("normal") else sp.IndexedBase(s["name"])
        if k == "idx":
            return sp.Idx(s["name"])
        if k == "imag":
            return sp.I
        if k == "pidx":
            from sympde.topology import NormalVector
            if s["how"] == "normal":
                return NormalVector(s["base"])[int(s["idx"])]
            if s["how"] == "int":
                return sp.IndexedBase(s["base"])[int(s["idx"])]
            return sp.IndexedBase(s["base"])[sp.Idx(s["idx"])]
        if k == "pb":
            return self.pullback(s)
        if k == "opaque":
            w = s["what"]
            if w == "bool":
                return sp.true
            if w == "derivative":
                t = sp.Symbol("t")
                return sp.Derivative(sp.Function("g")(t), t)
            if w == "domain":
                return self.domain
            if w == "str":
                return "abc"
            if w == "none":
                return None
            raise ValueError("bad opaque %r" % (w,))
        if k == "pynum":
            return s["v"]
        raise ValueError("bad spec node %r" % (k,))


# ------------------------------------------------------------------ reading real objects back
def mref_tree(m):
    from sympde.topology.mapping import Mapping, InterfaceMapping, MultiPatchMapping
    if isinstance(m, MultiPatchMapping) or not isinstance(m, Mapping):
        raise Unsupported("mapping:" + type(m).__name__)
    if isinstance(m, InterfaceMapping):
        return {"iface": [str(m.minus.name), str(m.plus.name)]}
    if type(m) is not Mapping:
        raise Unsupported("mapping:" + type(m).__name__)
    return {"name": str(m.name), "side": "plus" if m.is_plus else "minus" if m.is_minus else None}


def atom_tree(e):
    """what a derivative chain may be applied to (None: not such an atom)"""
    import sympy as sp
    from sympde.topology.space import ScalarFunction, IndexedVectorFunction, VectorFunction
    from sympde.topology.mapping import Mapping
    from sympde.calculus.core import MinusInterfaceOperator, PlusInterfaceOperator
    if isinstance(e, ScalarFunction):
        return {"t": "s", "name": str(e.name)}
    if isinstance(e, IndexedVectorFunction) and isinstance(e.base, VectorFunction) and len(e.indices) == 1:
        i = e.indices[0]
        if not (isinstance(i, int) or getattr(i, "is_Integer", False)) or int(i) < 0:
            raise Unsupported("component-index:%r" % (i,))
        return {"t": "c", "name": str(e.base.name), "i": int(i)}
    if isinstance(e, (MinusInterfaceOperator, PlusInterfaceOperator)) and len(e.args) == 1:
        a = atom_tree(e.args[0])
        if a is None:
            return None
        return {"t": "side", "plus": isinstance(e, PlusInterfaceOperator), "a": a}
    if type(e) is sp.Indexed and isinstance(e.base, Mapping):
        if len(e.indices) != 1:
            raise Unsupported("mapping-component-indices")
        i = e.indices[0]
        if not (isinstance(i, int) or getattr(i, "is_Integer", False)) or int(i) < 0:
            raise Unsupported("mapping-component-index:%r" % (i,))
        return {"t": "m", "map": mref_tree(e.base), "i": int(i)}
    return None


def tree(e):
    """Neutral tree of a real object.  Derivative chains are read from the classes of the nested operators."""
    import sympy as sp
    from sympde.core import Constant
    from sympde.topology.space import ScalarFunction, IndexedVectorFunction, VectorFunction
    from sympde.topology.derivatives import DifferentialOperator
    from sympde.topology.mapping import Mapping, SymbolicWeightedVolume, PullBack, JacobianSymbol
    from sympde.topology.basic import BasicDomain
    from sympde.calculus.matrices import SymbolicDeterminant
    from sympde.calculus.core import MinusInterfaceOperator, PlusInterfaceOperator
    if e is None or isinstance(e, str):
        return {"k": "opaque", "basic": False}
    if isinstance(e, list):
        return {"k": "seq", "py": "list", "items": [tree(a) for a in e]}
    if isinstance(e, tuple):
        return {"k": "seq", "py": "tuple", "items": [tree(a) for a in e]}
    if isinstance(e, (sp.MatrixBase,)):
        if type(e) not in (sp.Matrix, sp.ImmutableDenseMatrix):
            raise Unsupported(type(e).__name__)
        return {"k": "matrix", "imm": isinstance(e, sp.ImmutableDenseMatrix),
                "rows": [[tree(e[i, j]) for j in range(e.shape[1])] for i in range(e.shape[0])]}
    if isinstance(e, sp.Tuple):
        return {"k": "tuple", "items": [tree(a) for a in e.args]}
    if isinstance(e, DifferentialOperator):
        ops, cur = [], e
        while isinstance(cur, DifferentialOperator):
            nm = type(cur).__name__
            if nm not in OPS or len(cur.args) != 1:
                raise Unsupported("operator:" + nm)
            ops.append(nm)
            cur = cur.args[0]
        a = atom_tree(cur)
        if a is None:
            raise Unsupported("chain-over:" + type(cur).__name__)
        return {"k": "chain", "ops": ops, "atom": a}
    a = atom_tree(e)
    if a is not None:
        return {"k": "chain", "ops": [], "atom": a}
    if isinstance(e, VectorFunction):
        return {"k": "vec", "name": str(e.name)}
    if isinstance(e, (MinusInterfaceOperator, PlusInterfaceOperator)):
        if len(e.args) != 1:
            raise Unsupported("interface-operator-arity")
        return {"k": "side", "plus": isinstance(e, PlusInterfaceOperator), "e": tree(e.args[0])}
    if isinstance(e, Mapping):
        return {"k": "geo", "g": "map", "map": mref_tree(e)}
    if isinstance(e, SymbolicWeightedVolume):
        if len(e.args) != 1:
            raise Unsupported("wvol-arity")
        return {"k": "geo", "g": "wvol", "map": mref_tree(e.args[0])}
    if isinstance(e, SymbolicDeterminant):
        a = e.args[0]
        if isinstance(a, Mapping):
            return {"k": "geo", "g": "det", "map": mref_tree(a)}
        if type(a) is JacobianSymbol and a.axis is None:
            return {"k": "geo", "g": "detJ", "map": mref_tree(a.mapping)}
        raise Unsupported("determinant-of:" + type(a).__name__)
    if isinstance(e, PullBack):
        f = e.args[0]
        if isinstance(f, ScalarFunction):
            fv = False
        elif isinstance(f, VectorFunction):
            fv = True
        else:
            raise Unsupported("pullback-of:" + type(f).__name__)
        try:
            inner = tree(e.expr)
        except Unsupported:
            # matrix-symbolic expressions (Hcurl / Hdiv): SymbolicExpr has no arm for their factors
            inner = {"k": "opaque", "basic": True}
        return {"k": "pb", "name": str(f.name), "vector": fv, "e": inner}
    if isinstance(e, sp.IndexedBase):
        return {"k": "ibase", "name": str(e.name)}
    if isinstance(e, sp.Idx):
        return {"k": "idx", "name": str(e.name)}
    if type(e) is sp.Indexed:
        if len(e.indices) != 1 or isinstance(e.base, (VectorFunction, Mapping)):
            raise Unsupported("indexed")
        return {"k": "pidx", "base": str(e.base.name), "idx": str(e.indices[0])}
    if e is sp.I:
        return {"k": "imag"}
    if isinstance(e, (sp.Integer, sp.Rational, sp.Float)) or isinstance(e, (int, float)):
        return {"k": "num", "v": str(e)}
    if isinstance(e, sp.NumberSymbol):
        return {"k": "num", "v": str(e)}
    if isinstance(e, (sp.logic.boolalg.BooleanAtom, sp.Derivative, BasicDomain)):
        return {"k": "opaque", "basic": True}
    if isinstance(e, Constant):
        return {"k": "sym", "name": str(e.name), "const": True}
    if type(e) is sp.Symbol:
        return {"k": "sym", "name": str(e.name)}
    if isinstance(e, sp.Add):
        return {"k": "add", "args": [tree(a) for a in e.args]}
    if isinstance(e, sp.Mul):
        return {"k": "mul", "args": [tree(a) for a in e.args]}
    if isinstance(e, sp.Pow):
        return {"k": "pow", "b": tree(e.base), "e": tree(e.exp)}
    if isinstance(e, sp.Function) and type(e).__module__.startswith("sympy.") :
        return {"k": "fn", "name": type(e).__name__, "args": [tree(a) for a in e.args]}
    raise Unsupported(type(e).__name__)


# ------------------------------------------------------------------ independent walk of the real tree (oracle side)
def walk_chains(e, out, others=None):
    """Every maximal chain of derivative operators over an atom (function, component, one of these restricted
    to a side of an interface, mapping component) occurring anywhere in `e` (also inside exponents, function
    arguments, matrices, sequences, interface operators).  Own traversal over .args.  `others` collects the
    remaining objects that SymbolicExpr names or passes through as a Symbol: geometry atoms, plain Indexed,
    plain Symbols."""
    import sympy as sp
    from sympde.core import Constant
    from sympde.topology.derivatives import DifferentialOperator
    from sympde.topology.mapping import Mapping, SymbolicWeightedVolume, PullBack
    from sympde.calculus.matrices import SymbolicDeterminant
    if isinstance(e, (list, tuple)):
        for a in e:
            walk_chains(a, out, others)
        return
    if isinstance(e, sp.MatrixBase):
        for i in range(e.shape[0]):
            for j in range(e.shape[1]):
                walk_chains(e[i, j], out, others)
        return
    if isinstance(e, DifferentialOperator):
        ops, cur = [], e
        while isinstance(cur, DifferentialOperator):
            ops.append(type(cur).__name__)
            cur = cur.args[0]
        a = atom_tree(cur)
        if a is not None:
            out.append(({"ops": ops, "atom": a}, e))
            return
        walk_chains(cur, out, others)
        return
    if not isinstance(e, sp.Basic):
        return
    a = atom_tree(e)
    if a is not None:
        out.append(({"ops": [], "atom": a}, e))
        return
    if isinstance(e, (Mapping, SymbolicWeightedVolume, SymbolicDeterminant)):
        if others is not None:
            others.append(("geo", e))
        return
    if type(e) is sp.Indexed:
        if others is not None:
            others.append(("pidx", e))
        return
    if type(e) is sp.Symbol:
        if others is not None:
            others.append(("sym", e))
        return
    if isinstance(e, (sp.IndexedBase, sp.Idx)):
        return
    if isinstance(e, PullBack):
        # what is translated is its .expr (over the function of the logical domain), not its argument
        walk_chains(e.expr, out, others)
    for a in e.args:
        walk_chains(a, out, others)


def walk_vecs(e, out):
    """bare VectorFunctions (not the base of a component)"""
    import sympy as sp
    from sympde.topology.space import VectorFunction, IndexedVectorFunction
    from sympde.topology.mapping import PullBack
    if isinstance(e, (list, tuple)):
        for a in e:
            walk_vecs(a, out)
    elif isinstance(e, sp.MatrixBase):
        for a in e:
            walk_vecs(a, out)
    elif isinstance(e, VectorFunction):
        out.append(e)
    elif isinstance(e, IndexedVectorFunction):
        return
    elif isinstance(e, sp.Basic):
        if isinstance(e, PullBack):
            walk_vecs(e.expr, out)
        for a in e.args:
            walk_vecs(a, out)


def generic_subst(k, sigma, bad):
    """the homomorphic extension of `sigma` (named atom -> its own symbol): own recursion over the sympy tree.
    Interface operators and pull-backs are transparent (their argument / their .expr is what is translated);
    an object that is neither named, nor a number / symbol, nor a compound sympy expression has no translation:
    the exception it must cause is recorded in `bad` (`sigma[k]` is an exception kind for an atom whose own
    translation raises)."""
    import sympy as sp
    from sympde.core import Constant
    from sympde.topology.mapping import PullBack
    from sympde.topology.basic import BasicDomain
    from sympde.calculus.core import MinusInterfaceOperator, PlusInterfaceOperator
    if isinstance(k, (list, tuple)):
        return sp.Tuple(*[generic_subst(a, sigma, bad) for a in k])
    if isinstance(k, sp.MatrixBase):
        return type(k)([[generic_subst(k[i, j], sigma, bad) for j in range(k.shape[1])] for i in range(k.shape[0])])
    if isinstance(k, (int, float)) and not isinstance(k, bool):
        return k
    if not isinstance(k, sp.Basic):
        bad.append("NotImplementedError")
        return sp.Symbol("?")
    if k in sigma:
        if isinstance(sigma[k], str):
            bad.append(sigma[k])
            return sp.Symbol("?")
        return sigma[k]
    if isinstance(k, (MinusInterfaceOperator, PlusInterfaceOperator)):
        return generic_subst(k.args[0], sigma, bad)
    if isinstance(k, PullBack):
        return generic_subst(k.expr, sigma, bad)
    if isinstance(k, (sp.Number, sp.NumberSymbol, sp.Symbol, Constant, sp.IndexedBase, sp.Idx)) or k is sp.I:
        return k
    if isinstance(k, (sp.Add, sp.Mul, sp.Pow, sp.Tuple)) or \
            (isinstance(k, sp.Function) and type(k).__module__.startswith("sympy.")):
        return k.func(*[generic_subst(a, sigma, bad) for a in k.args])
    bad.append("NotImplementedError")
    return sp.Symbol("?")


def residual_terminals(r, out):
    """terminal expressions (functions, components, derivative operators, interface operators, mappings and
    their components, geometry atoms, pull-backs) still present in a result"""
    import sympy as sp
    from sympde.topology.space import ScalarFunction, VectorFunction, IndexedVectorFunction
    from sympde.topology.derivatives import DifferentialOperator
    from sympde.topology.mapping import Mapping, SymbolicWeightedVolume, PullBack
    from sympde.calculus.matrices import SymbolicDeterminant
    from sympde.calculus.core import MinusInterfaceOperator, PlusInterfaceOperator
    if isinstance(r, (list, tuple)):
        for a in r:
            residual_terminals(a, out)
    elif isinstance(r, sp.MatrixBase):
        for a in r:
            residual_terminals(a, out)
    elif isinstance(r, (ScalarFunction, VectorFunction, IndexedVectorFunction, DifferentialOperator,
                        MinusInterfaceOperator, PlusInterfaceOperator, Mapping, SymbolicWeightedVolume,
                        SymbolicDeterminant, PullBack)):
        out.append(type(r).__name__)
    elif type(r) is sp.Indexed:
        # A[i] / n[0] / M[0]: each is turned into a Symbol
        out.append("Indexed")
    elif isinstance(r, sp.Basic):
        for a in r.args:
            residual_terminals(a, out)


def canon_tree(t):
    """a tree with the arguments of every Add / Mul sorted (sympy's own order of arguments that compare equal
    under its sort key depends on the order of construction)"""
    if isinstance(t, list):
        return [canon_tree(a) for a in t]
    if not isinstance(t, dict):
        return t
    t = {k: canon_tree(v) for k, v in t.items()}
    if t.get("k") in ("add", "mul"):
        t["args"] = sorted(t["args"], key=lambda a: json.dumps(a, sort_keys=True))
    return t


def safe_tree(e):
    try:
        return tree(e)
    except Unsupported as ex:
        return {"unsupported": str(ex)}


def has_infinite(e):
    """zoo / nan / oo somewhere in a built kernel (log(0), 0**-1, ...): not a kernel the property talks about"""
    import sympy as sp
    if isinstance(e, (list, tuple)):
        return any(has_infinite(a) for a in e)
    if isinstance(e, sp.MatrixBase):
        return any(has_infinite(a) for a in e)
    if isinstance(e, sp.Basic):
        return bool(e.has(sp.zoo, sp.nan, sp.oo, -sp.oo))
    return False


def dict3(d, keys):
    return [int(d[k]) for k in keys]


PH, LG = ("x", "y", "z"), ("x1", "x2", "x3")


def guarded(f):
    try:
        return {"ok": f()}
    except Unsupported:
        raise
    except Exception as e:  # noqa
        return {"err": errkind(e)}


def run_case(case):
    import sympy as sp
    from sympy.core.cache import clear_cache
    from sympde.topology import SymbolicExpr
    from sympde.topology.derivatives import (find_partial_derivatives, get_max_partial_derivatives,
                                             get_max_logical_partial_derivatives, get_index_derivatives_atom,
                                             get_index_logical_derivatives_atom)
    clear_cache()
    ctx = Ctx(case)
    k = ctx.build(case["kernel"])
    if has_infinite(k):
        return {"degenerate": True}
    out = {"kernel": tree(k)}

    # every chain occurring in the kernel (own traversal), its symbol, and the type of the result; the other
    # objects that are given a name (geometry atoms, plain Indexed) or are passed through as a Symbol
    chains, others = [], []
    walk_chains(k, chains, others)

    def symname(e):
        r = SymbolicExpr(e)
        return {"name": str(r.name) if isinstance(r, sp.Symbol) else None, "type": type(r).__name__,
                "plain": type(r) is sp.Symbol}
    out["true_chains"] = [dict(d, res=guarded(lambda e=e: symname(e))) for d, e in chains]
    out["true_atoms"] = [{"node": tree(e), "res": guarded(lambda e=e: symname(e))} for _, e in others]
    names = []
    for spec in case.get("name_chains", []):
        e = ctx.build(spec)
        names.append({"chain": tree(e), "res": guarded(lambda e=e: symname(e))})
    out["names"] = names

    out["symbolic"] = guarded(lambda: tree(SymbolicExpr(k)))
    # the two arity arms: no argument -> the object stays unevaluated; more than one -> ValueError
    out["call0"] = guarded(lambda: type(SymbolicExpr()) is SymbolicExpr)
    out["call2"] = guarded(lambda: tree(SymbolicExpr(k, k)))

    # oracle of the homomorphism: SymbolicExpr(k) must be the generic substitution named atom -> its own symbol,
    # and must raise exactly when some object in k has no translation
    def subst_check():
        sigma = {}
        for _, e in chains + others:
            try:
                sigma[e] = SymbolicExpr(e)
            except Exception as ex:  # noqa
                sigma[e] = errkind(ex)
        vecs = []
        walk_vecs(k, vecs)
        for v in vecs:
            sigma[v] = sp.Symbol(str(v.name))
        bad = []
        want = generic_subst(k, sigma, bad)
        try:
            got, got_err = SymbolicExpr(k), None
        except Exception as ex:  # noqa
            got, got_err = None, errkind(ex)
        if bad or got_err:
            return {"want_raise": sorted(set(bad)), "got_raise": got_err}
        res = []
        residual_terminals(got, res)
        eq = bool(got == want)
        if not eq:
            tg, tw = safe_tree(got), safe_tree(want)
            eq = "unsupported" not in tg and canon_tree(tg) == canon_tree(tw)
        # (no str() of whole expressions here: printing an Add that contains a sympde Constant, which claims
        #  is_number, sends sympy into evalf and can take minutes)
        return {"equal": eq, "residual": sorted(set(res)),
                "got": None if eq else safe_tree(got), "want": None if eq else safe_tree(want)}
    out["subst"] = guarded(subst_check)
    out["find"] = guarded(lambda: [tree(c) for c in find_partial_derivatives(k)])
    out["max_phys"] = guarded(lambda: dict3(get_max_partial_derivatives(k), PH))
    out["max_log"] = guarded(lambda: dict3(get_max_logical_partial_derivatives(k), LG))
    per = []
    qall = []
    for f in case["funcs"]:
        if f["vector"]:
            F = ctx.funcs[(f["name"], True)]
            qall += [({"t": "v", "name": f["name"]}, F)] + \
                    [({"t": "c", "name": f["name"], "i": i}, F[i]) for i in range(ctx.dim)]
        else:
            qall += [({"t": "s", "name": f["name"]}, ctx.funcs[(f["name"], False)])]
    # the atoms restricted to a side of an interface that occur in the kernel are queried too
    seen = set()
    for d, _ in chains:
        if d["atom"]["t"] == "side":
            key = json.dumps(d["atom"], sort_keys=True)
            if key not in seen and len(seen) < 3:
                seen.add(key)
                qall.append((d["atom"], ctx.atom(d["atom"])))
    for q, F in qall:
        per.append({"q": q,
                    "max_phys": guarded(lambda F=F: dict3(get_max_partial_derivatives(k, F), PH)),
                    "max_log": guarded(lambda F=F: dict3(get_max_logical_partial_derivatives(k, F), LG)),
                    "idx_phys": guarded(lambda F=F: [dict3(d, PH) for d in get_index_derivatives_atom(k, F)]),
                    "idx_log": guarded(lambda F=F: [dict3(d, LG) for d in get_index_logical_derivatives_atom(k, F)])})
    out["per"] = per
    # verbose=True only prints the operators found: the result must not depend on it
    if qall:
        import contextlib
        import io
        F0 = qall[0][1]
        with contextlib.redirect_stdout(io.StringIO()):
            vb = (guarded(lambda: [dict3(d, PH) for d in get_index_derivatives_atom(k, F0, verbose=True)]),
                  guarded(lambda: [dict3(d, LG) for d in get_index_logical_derivatives_atom(k, F0, verbose=True)]))
        out["verbose_same"] = vb[0] == per[0]["idx_phys"] and vb[1] == per[0]["idx_log"]
    return out


def source_variant():
    """Which of the four modelled repairs are present in the SOURCE TEXT of the functions under study
    (True / False / None = shape not recognised).  Selects the model variant; the correspondence run then ties
    the selected variant to the behaviour, so a wrong reading shows up as a disagreement."""
    import inspect
    import re
    from sympde.topology import mapping as M
    from sympde.topology import derivatives as D

    def src(f):
        try:
            return inspect.getsource(inspect.unwrap(getattr(f, "__func__", f)))
        except Exception:  # noqa
            return ""
    out = {}
    s = src(M.SymbolicExpr.eval)
    arg = r"cls\.eval\(\s*%s\s*,\s*code\s*=\s*code\s*\)"
    if re.search(r"Pow\(\s*" + arg % "b" + r"\s*,\s*" + arg % "e" + r"\s*\)", s):
        out["pe"] = True
    elif re.search(r"Pow\(\s*" + arg % "b" + r"\s*,\s*e\s*\)", s):
        out["pe"] = False
    else:
        out["pe"] = None
    s = src(D.find_partial_derivatives)
    new = ["isinstance(expr, Basic)" in s, "ImmutableDenseMatrix" in s, "find_partial_derivatives(expr.base)" not in s]
    out["ea"] = True if all(new) else False if not any(new) else None
    s1, s2 = src(D.get_index_derivatives_atom), src(D.get_index_logical_derivatives_atom)
    helper = src(getattr(D, "_is_atom_of", None)) if hasattr(D, "_is_atom_of") else ""
    # sq: _is_atom_of looks through the interface operators around the innermost argument (proposed repair)
    if "isinstance(a, (minus, plus))" in helper and "a = a.args[0]" in helper:
        out["sq"] = True
    elif "minus" not in helper and "plus" not in helper and "InterfaceOperator" not in helper:
        out["sq"] = False
    else:
        out["sq"] = None
    if "_is_atom_of(a, atom)" in s1 and "_is_atom_of(a, atom)" in s2 and "a.base == atom" in helper:
        out["vq"] = True
    elif "if a == atom" in s1 and "if a == atom" in s2:
        out["vq"] = False
    else:
        out["vq"] = None
    return out


def main():
    payload = json.load(open(sys.argv[1]))
    res = []
    for case in payload["cases"]:
        try:
            res.append(run_case(case))
        except Unsupported as e:
            res.append({"unsupported": str(e)})
        except Exception:  # noqa
            res.append({"crash": traceback.format_exc()})
    try:
        variant = source_variant()
    except Exception:  # noqa
        variant = {"pe": None, "ea": None, "vq": None, "sq": None, "error": traceback.format_exc()[-500:]}
    json.dump({"results": res, "variant": variant}, open(sys.argv[2], "w"))


if __name__ == "__main__":
    main()
