"""Implementation side of C17: drives the real SymbolicExpr / get_max_*partial_derivatives on JSON cases.

input : {"cases":[{"dim":1..3, "funcs":[{"name":s,"vector":bool}..], "kernel":SPEC}]}
SPEC  : {"k":"num","v":"3"} | {"k":"rat","p":1,"q":2} | {"k":"const","name":s} | {"k":"sym","name":s}
      | {"k":"vec","name":s}
      | {"k":"chain","ops":["dx"|"dy"|"dz"|"dx1"|"dx2"|"dx3",..] (outermost first),
         "atom":{"t":"s","name":s}|{"t":"c","name":s,"i":n}, "eval":bool}
      | {"k":"add","args":[..]} | {"k":"mul","args":[..]} | {"k":"pow","b":SPEC,"e":SPEC}
      | {"k":"fn","name":"sin|cos|exp|log|Abs|tan|atan2|Max","args":[..]}
      | {"k":"tuple","items":[..]} | {"k":"seq","py":"list|tuple","items":[..]}
      | {"k":"matrix","imm":bool,"rows":[[..]..]}
output: per case a dict (see run_case) in which every expression is a TREE in the same grammar, read back from
        the real sympy object with sympy's own argument order (fail-closed on an unknown node type).
"""
import json
import sys
import traceback

OPS = ("dx", "dy", "dz", "dx1", "dx2", "dx3")


class Unsupported(Exception):
    pass


def errkind(e):
    for cls in (NotImplementedError, AttributeError, TypeError, ValueError, AssertionError, IndexError, KeyError):
        if isinstance(e, cls):
            return cls.__name__
    return "other:" + type(e).__name__


# ------------------------------------------------------------------ building real objects
class Ctx:
    def __init__(self, case):
        from sympde.topology import Domain, ScalarFunctionSpace, VectorFunctionSpace, element_of
        self.dim = case["dim"]
        self.domain = Domain("Omega", dim=self.dim)
        self.V = ScalarFunctionSpace("V", self.domain)
        self.W = VectorFunctionSpace("W", self.domain)
        self.funcs = {}
        for f in case["funcs"]:
            self.funcs[(f["name"], bool(f["vector"]))] = element_of(self.W if f["vector"] else self.V, name=f["name"])

    def atom(self, a):
        if a["t"] == "s":
            return self.funcs[(a["name"], False)]
        return self.funcs[(a["name"], True)][a["i"]]

    def build(self, s):
        import sympy as sp
        from sympde.core import Constant
        from sympde.topology import derivatives as D
        k = s["k"]
        if k == "num":
            return sp.Integer(int(s["v"]))
        if k == "rat":
            return sp.Rational(s["p"], s["q"])
        if k == "const":
            return Constant(s["name"])
        if k == "sym":
            return sp.Symbol(s["name"])
        if k == "vec":
            return self.funcs[(s["name"], True)]
        if k == "chain":
            e = self.atom(s["atom"])
            for op in reversed(s["ops"]):
                cls = getattr(D, op)
                e = cls(e) if s.get("eval") else cls(e, evaluate=False)
            return e
        if k == "add":
            return sp.Add(*[self.build(a) for a in s["args"]])
        if k == "mul":
            return sp.Mul(*[self.build(a) for a in s["args"]])
        if k == "pow":
            return sp.Pow(self.build(s["b"]), self.build(s["e"]))
        if k == "fn":
            return getattr(sp, s["name"])(*[self.build(a) for a in s["args"]])
        if k == "tuple":
            return sp.Tuple(*[self.build(a) for a in s["items"]])
        if k == "seq":
            items = [self.build(a) for a in s["items"]]
            return items if s.get("py", "list") == "list" else tuple(items)
        if k == "matrix":
            rows = [[self.build(a) for a in r] for r in s["rows"]]
            return sp.ImmutableDenseMatrix(rows) if s.get("imm") else sp.Matrix(rows)
        raise ValueError("bad spec node %r" % (k,))


# ------------------------------------------------------------------ reading real objects back
def atom_tree(e):
    from sympde.topology.space import ScalarFunction, IndexedVectorFunction, VectorFunction
    if isinstance(e, ScalarFunction):
        return {"t": "s", "name": str(e.name)}
    if isinstance(e, IndexedVectorFunction) and isinstance(e.base, VectorFunction) and len(e.indices) == 1:
        i = e.indices[0]
        if not (isinstance(i, int) or getattr(i, "is_Integer", False)) or int(i) < 0:
            raise Unsupported("component-index:%r" % (i,))
        return {"t": "c", "name": str(e.base.name), "i": int(i)}
    return None


def tree(e):
    """Neutral tree of a real object.  Derivative chains are read from the classes of the nested operators."""
    import sympy as sp
    from sympde.core import Constant
    from sympde.topology.space import ScalarFunction, IndexedVectorFunction, VectorFunction
    from sympde.topology.derivatives import DifferentialOperator
    if isinstance(e, list):
        return {"k": "seq", "py": "list", "items": [tree(a) for a in e]}
    if isinstance(e, tuple):
        return {"k": "seq", "py": "tuple", "items": [tree(a) for a in e]}
    if isinstance(e, (sp.MatrixBase,)):
        if type(e) not in (sp.Matrix, sp.ImmutableDenseMatrix):
            raise Unsupported(type(e).__name__)
        return {"k": "matrix", "imm": isinstance(e, sp.ImmutableDenseMatrix),
                "rows": [[tree(e[i, j]) for j in range(e.shape[1])] for i in range(e.shape[0])]}
    if isinstance(e, sp.Tuple):
        return {"k": "tuple", "items": [tree(a) for a in e.args]}
    if isinstance(e, DifferentialOperator):
        ops, cur = [], e
        while isinstance(cur, DifferentialOperator):
            nm = type(cur).__name__
            if nm not in OPS or len(cur.args) != 1:
                raise Unsupported("operator:" + nm)
            ops.append(nm)
            cur = cur.args[0]
        a = atom_tree(cur)
        if a is None:
            raise Unsupported("chain-over:" + type(cur).__name__)
        return {"k": "chain", "ops": ops, "atom": a}
    a = atom_tree(e)
    if a is not None:
        return {"k": "chain", "ops": [], "atom": a}
    if isinstance(e, VectorFunction):
        return {"k": "vec", "name": str(e.name)}
    if isinstance(e, (sp.Integer, sp.Rational, sp.Float)) or isinstance(e, (int, float)):
        return {"k": "num", "v": str(e)}
    if isinstance(e, sp.NumberSymbol) or e is sp.I:
        return {"k": "num", "v": str(e)}
    if isinstance(e, Constant):
        return {"k": "sym", "name": str(e.name), "const": True}
    if type(e) is sp.Symbol:
        return {"k": "sym", "name": str(e.name)}
    if isinstance(e, sp.Add):
        return {"k": "add", "args": [tree(a) for a in e.args]}
    if isinstance(e, sp.Mul):
        return {"k": "mul", "args": [tree(a) for a in e.args]}
    if isinstance(e, sp.Pow):
        return {"k": "pow", "b": tree(e.base), "e": tree(e.exp)}
    if isinstance(e, sp.Function) and type(e).__module__.startswith("sympy.") :
        return {"k": "fn", "name": type(e).__name__, "args": [tree(a) for a in e.args]}
    raise Unsupported(type(e).__name__)


# ------------------------------------------------------------------ independent walk of the real tree (oracle side)
def walk_chains(e, out):
    """Every maximal chain of derivative operators over a function atom occurring anywhere in `e`
    (also inside exponents, function arguments, matrices, sequences).  Own traversal over .args."""
    import sympy as sp
    from sympde.topology.space import ScalarFunction, IndexedVectorFunction
    from sympde.topology.derivatives import DifferentialOperator
    if isinstance(e, (list, tuple)):
        for a in e:
            walk_chains(a, out)
        return
    if isinstance(e, sp.MatrixBase):
        for i in range(e.shape[0]):
            for j in range(e.shape[1]):
                walk_chains(e[i, j], out)
        return
    if isinstance(e, DifferentialOperator):
        ops, cur = [], e
        while isinstance(cur, DifferentialOperator):
            ops.append(type(cur).__name__)
            cur = cur.args[0]
        if isinstance(cur, ScalarFunction):
            out.append(({"ops": ops, "atom": {"t": "s", "name": str(cur.name)}}, e))
            return
        if isinstance(cur, IndexedVectorFunction):
            out.append(({"ops": ops, "atom": {"t": "c", "name": str(cur.base.name), "i": int(cur.indices[0])}}, e))
            return
        walk_chains(cur, out)
        return
    if isinstance(e, ScalarFunction):
        out.append(({"ops": [], "atom": {"t": "s", "name": str(e.name)}}, e))
        return
    if isinstance(e, IndexedVectorFunction):
        out.append(({"ops": [], "atom": {"t": "c", "name": str(e.base.name), "i": int(e.indices[0])}}, e))
        return
    if isinstance(e, sp.Basic):
        for a in e.args:
            walk_chains(a, out)


def walk_vecs(e, out):
    """bare VectorFunctions (not the base of a component)"""
    import sympy as sp
    from sympde.topology.space import VectorFunction, IndexedVectorFunction
    if isinstance(e, (list, tuple)):
        for a in e:
            walk_vecs(a, out)
    elif isinstance(e, sp.MatrixBase):
        for a in e:
            walk_vecs(a, out)
    elif isinstance(e, VectorFunction):
        out.append(e)
    elif isinstance(e, IndexedVectorFunction):
        return
    elif isinstance(e, sp.Basic):
        for a in e.args:
            walk_vecs(a, out)


def generic_subst(k, sigma):
    """the homomorphic extension of `sigma`, by sympy's own substitution machinery"""
    import sympy as sp
    if isinstance(k, (list, tuple)):
        return sp.Tuple(*[generic_subst(a, sigma) for a in k])
    if isinstance(k, sp.MatrixBase):
        return type(k)([[generic_subst(k[i, j], sigma) for j in range(k.shape[1])] for i in range(k.shape[0])])
    return k.xreplace(sigma)


def residual_terminals(r, out):
    """terminal expressions (functions, components, derivative operators) still present in a result"""
    import sympy as sp
    from sympde.topology.space import ScalarFunction, VectorFunction, IndexedVectorFunction
    from sympde.topology.derivatives import DifferentialOperator
    if isinstance(r, (list, tuple)):
        for a in r:
            residual_terminals(a, out)
    elif isinstance(r, sp.MatrixBase):
        for a in r:
            residual_terminals(a, out)
    elif isinstance(r, (ScalarFunction, VectorFunction, IndexedVectorFunction, DifferentialOperator)):
        out.append(type(r).__name__)
    elif isinstance(r, sp.Basic):
        for a in r.args:
            residual_terminals(a, out)


def safe_tree(e):
    try:
        return tree(e)
    except Unsupported as ex:
        return {"unsupported": str(ex)}


def has_infinite(e):
    """zoo / nan / oo somewhere in a built kernel (log(0), 0**-1, ...): not a kernel the property talks about"""
    import sympy as sp
    if isinstance(e, (list, tuple)):
        return any(has_infinite(a) for a in e)
    if isinstance(e, sp.MatrixBase):
        return any(has_infinite(a) for a in e)
    if isinstance(e, sp.Basic):
        return bool(e.has(sp.zoo, sp.nan, sp.oo, -sp.oo))
    return False


def dict3(d, keys):
    return [int(d[k]) for k in keys]


PH, LG = ("x", "y", "z"), ("x1", "x2", "x3")


def guarded(f):
    try:
        return {"ok": f()}
    except Unsupported:
        raise
    except Exception as e:  # noqa
        return {"err": errkind(e)}


def run_case(case):
    import sympy as sp
    from sympy.core.cache import clear_cache
    from sympde.topology import SymbolicExpr
    from sympde.topology.derivatives import (find_partial_derivatives, get_max_partial_derivatives,
                                             get_max_logical_partial_derivatives, get_index_derivatives_atom,
                                             get_index_logical_derivatives_atom)
    clear_cache()
    ctx = Ctx(case)
    k = ctx.build(case["kernel"])
    if has_infinite(k):
        return {"degenerate": True}
    out = {"kernel": tree(k)}

    # every chain occurring in the kernel (own traversal), its symbol, and the type of the result
    chains = []
    walk_chains(k, chains)

    def symname(e):
        r = SymbolicExpr(e)
        return {"name": str(r.name) if isinstance(r, sp.Symbol) else None, "type": type(r).__name__,
                "plain": type(r) is sp.Symbol}
    out["true_chains"] = [dict(d, res=guarded(lambda e=e: symname(e))) for d, e in chains]
    names = []
    for spec in case.get("name_chains", []):
        e = ctx.build(spec)
        names.append({"chain": tree(e), "res": guarded(lambda e=e: symname(e))})
    out["names"] = names

    out["symbolic"] = guarded(lambda: tree(SymbolicExpr(k)))

    # oracle of the homomorphism: SymbolicExpr(k) must be the generic substitution chain -> its own symbol
    def subst_check():
        sigma = {}
        for d, e in chains:
            r = SymbolicExpr(e)
            sigma[e] = r
        vecs = []
        walk_vecs(k, vecs)
        for v in vecs:
            sigma[v] = sp.Symbol(str(v.name))
        want = generic_subst(k, sigma)
        got = SymbolicExpr(k)
        res = []
        residual_terminals(got, res)
        eq = bool(got == want)
        # (no str() of whole expressions here: printing an Add that contains a sympde Constant, which claims
        #  is_number, sends sympy into evalf and can take minutes)
        return {"equal": eq, "residual": sorted(set(res)),
                "got": None if eq else safe_tree(got), "want": None if eq else safe_tree(want)}
    out["subst"] = guarded(subst_check)
    out["find"] = guarded(lambda: [tree(c) for c in find_partial_derivatives(k)])
    out["max_phys"] = guarded(lambda: dict3(get_max_partial_derivatives(k), PH))
    out["max_log"] = guarded(lambda: dict3(get_max_logical_partial_derivatives(k), LG))
    per = []
    for f in case["funcs"]:
        if f["vector"]:
            F = ctx.funcs[(f["name"], True)]
            qs = [({"t": "v", "name": f["name"]}, F)] + \
                 [({"t": "c", "name": f["name"], "i": i}, F[i]) for i in range(ctx.dim)]
        else:
            qs = [({"t": "s", "name": f["name"]}, ctx.funcs[(f["name"], False)])]
        for q, F in qs:
            per.append({"q": q,
                        "max_phys": guarded(lambda F=F: dict3(get_max_partial_derivatives(k, F), PH)),
                        "max_log": guarded(lambda F=F: dict3(get_max_logical_partial_derivatives(k, F), LG)),
                        "idx_phys": guarded(lambda F=F: [dict3(d, PH) for d in get_index_derivatives_atom(k, F)]),
                        "idx_log": guarded(lambda F=F: [dict3(d, LG) for d in get_index_logical_derivatives_atom(k, F)])})
    out["per"] = per
    return out


def source_variant():
    """Which of the three modelled repairs are present in the SOURCE TEXT of the functions under study
    (True / False / None = shape not recognised).  Selects the model variant; the correspondence run then ties
    the selected variant to the behaviour, so a wrong reading shows up as a disagreement."""
    import inspect
    import re
    from sympde.topology import mapping as M
    from sympde.topology import derivatives as D

    def src(f):
        try:
            return inspect.getsource(inspect.unwrap(getattr(f, "__func__", f)))
        except Exception:  # noqa
            return ""
    out = {}
    s = src(M.SymbolicExpr.eval)
    arg = r"cls\.eval\(\s*%s\s*,\s*code\s*=\s*code\s*\)"
    if re.search(r"Pow\(\s*" + arg % "b" + r"\s*,\s*" + arg % "e" + r"\s*\)", s):
        out["pe"] = True
    elif re.search(r"Pow\(\s*" + arg % "b" + r"\s*,\s*e\s*\)", s):
        out["pe"] = False
    else:
        out["pe"] = None
    s = src(D.find_partial_derivatives)
    new = ["isinstance(expr, Basic)" in s, "ImmutableDenseMatrix" in s, "find_partial_derivatives(expr.base)" not in s]
    out["ea"] = True if all(new) else False if not any(new) else None
    s1, s2 = src(D.get_index_derivatives_atom), src(D.get_index_logical_derivatives_atom)
    helper = src(getattr(D, "_is_atom_of", None)) if hasattr(D, "_is_atom_of") else ""
    if "_is_atom_of(a, atom)" in s1 and "_is_atom_of(a, atom)" in s2 and "a.base == atom" in helper:
        out["vq"] = True
    elif "if a == atom" in s1 and "if a == atom" in s2:
        out["vq"] = False
    else:
        out["vq"] = None
    return out


def main():
    payload = json.load(open(sys.argv[1]))
    res = []
    for case in payload["cases"]:
        try:
            res.append(run_case(case))
        except Unsupported as e:
            res.append({"unsupported": str(e)})
        except Exception:  # noqa
            res.append({"crash": traceback.format_exc()})
    try:
        variant = source_variant()
    except Exception:  # noqa
        variant = {"pe": None, "ea": None, "vq": None, "error": traceback.format_exc()[-500:]}
    json.dump({"results": res, "variant": variant}, open(sys.argv[2], "w"))


if __name__ == "__main__":
    main()
