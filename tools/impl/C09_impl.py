"""Implementation side of C09: real linearize / NewtonIteration on generated forms.

case  : {"dim":d, "tests":[names], "fields":[names], "trials":[names], "spaces":{name:"s"|"v"},
         "domain":gx|null, "boundary":gx|null, "seed":n}          (gx: see C08_impl.py)
result: {"stage":..., "orig":[{"region","sx"}],
         "runs":[{"tag":..,"ok":bool,"err":..,"integrands":[{"region","sx"}]}],     two runs, different auxiliary names
         "newton":{"ok":..,"lhs":[..],"rhs":[..]},
         "oracle":{region: {"ok":bool,...}}}    explicit polynomials, d/d(eps) at eps = 0 by sympy.diff
"""
import contextlib
import io
import json
import random
import sys
import time
import traceback

import ser
import C08_impl as B


def lowered(expr):
    return B.lowered_integrands(expr)


def classify_exc(e):
    return type(e).__name__


class Names:
    """replacement of sympde.core.utils.random_string (which draws from SystemRandom): DISTINCT draws whose first
    letter is forced (Aaab, Aaac, ... / zaab, zaac, ...): upper-case names sort before the user's symbols, lower-case
    z names after them.  (Identical draws would make two arguments of a product group share their l_/r_ functions.)"""

    def __init__(self, tag):
        self.letter, self.k = tag[0], 0

    def __call__(self, n):
        self.k += 1
        k, s = self.k, ""
        for _ in range(max(n - 1, 1)):
            s = chr(ord("a") + k % 26) + s
            k //= 26
        return (self.letter + s)[:max(n, 2)]


def run_linearize(l, fields, trials, tag):
    """linearize with the auxiliary names drawn from Names(tag)"""
    from sympy.core.cache import clear_cache
    import sympde.expr.expr as EX
    old = EX.random_string
    EX.random_string = Names(tag)
    clear_cache()
    buf = io.StringIO()
    try:
        with contextlib.redirect_stdout(buf):
            a = EX.linearize(l, fields if len(fields) > 1 else fields[0], trials=trials if len(trials) > 1 else trials[0])
        if a == 0:          # the zero form
            return {"tag": tag, "ok": True, "integrands": [], "expr": "0", "variables": None}
        return {"tag": tag, "ok": True, "integrands": lowered(a.expr), "expr": str(a.expr)[:500],
                "variables": [[str(x) for x in a.variables[0]], [str(x) for x in a.variables[1]]]}
    except ser.Unsupported as e:
        return {"tag": tag, "ok": False, "err": "unsupported-node", "msg": str(e)[:200]}
    except Exception as e:  # noqa
        return {"tag": tag, "ok": False, "err": classify_exc(e), "msg": str(e)[:200], "printed": buf.getvalue()[:200]}
    finally:
        EX.random_string = old


def numeric_gateaux(orig, res, pairs, dim, seed):
    """d/d(eps) orig[u := u + eps du] at eps = 0 on explicit polynomials (sympy.diff) vs the returned integrand."""
    import sympy as sp
    rng = random.Random(seed)
    conc = ser.Concrete(rng, dim=dim, deg=2)
    o = B._no_normal(orig)
    conc.sx(o, True)
    got = conc.sx(B._no_normal(res), True) if res is not None else sp.Integer(0)
    eps = sp.Symbol("eps_oracle", real=True)
    assign = {}
    for key in list(conc.polys):
        if key[0] != "fld":
            continue
        for u, du in pairs:
            if key[1] == u:
                dkey = ("fld", du, key[2], key[3])
                assign[key] = conc.polys[key] + eps * conc.poly(dkey, True)
    var = ser.Concrete(rng, dim=dim, deg=2)
    var.polys = dict(conc.polys)
    var.consts = conc.consts
    var.polys.update(assign)
    e_eps = var.sx(o, True)
    want = sp.diff(e_eps, eps).subs(eps, 0)
    ok, info = ser.numeric_equal(got, want, conc)
    return {"ok": bool(ok), "info": info}


def run_case(case):
    from sympy.core.cache import clear_cache
    clear_cache()
    from sympde.expr.expr import LinearForm
    from sympde.expr.equation import NewtonIteration
    out = {"stage": "build"}
    ctx = B.Ctx(case["dim"])
    try:
        expr = B.make_expr(case, ctx)
        tests = B.get_args(case["tests"], case, ctx)
        fields = B.get_args(case["fields"], case, ctx)
        trials = B.get_args(case["trials"], case, ctx)
    except Exception as e:  # noqa
        out["err"] = "%s: %s" % (type(e).__name__, str(e)[:200])
        return out
    if expr == 0 or expr is None:
        out["stage"] = "zero"
        return out
    out["stage"] = "lower"
    try:
        out["orig"] = lowered(expr)
    except Exception as e:  # noqa
        out["err"] = "%s: %s" % (type(e).__name__, str(e)[:200])
        return out
    out["stage"] = "form"
    buf = io.StringIO()
    import sympde.expr.expr as EX
    old_rs = EX.random_string
    l = None
    for tag in ("z", "A", "m"):    # the constructor's own linearity check also draws names (C08)
        EX.random_string = Names(tag)
        try:
            with contextlib.redirect_stdout(buf):
                l = LinearForm(tests if len(tests) > 1 else tests[0], expr)
            break
        except Exception as e:  # noqa
            out["err"] = "%s: %s" % (type(e).__name__, str(e)[:200])
        finally:
            EX.random_string = old_rs
    if l is None:
        return out
    out.pop("err", None)
    out["stage"] = "linearize"
    out["expr"] = str(expr)[:500]
    out["runs"] = [run_linearize(l, list(fields), list(trials), tag) for tag in ("z", "A", "m")]
    # Newton
    nw = {}
    buf = io.StringIO()
    try:
        with contextlib.redirect_stdout(buf):
            eq = NewtonIteration(l, list(fields) if len(fields) > 1 else fields[0],
                                 trials=list(trials) if len(trials) > 1 else trials[0])
        nw = {"ok": True, "lhs": lowered(eq.lhs.expr), "rhs": lowered(eq.rhs.expr)}
    except ser.Unsupported as e:
        nw = {"ok": False, "err": "unsupported-node", "msg": str(e)[:200]}
    except Exception as e:  # noqa
        nw = {"ok": False, "err": classify_exc(e), "msg": str(e)[:200]}
    out["newton"] = nw
    # independent oracle
    orc = {}
    r0 = next((rn for rn in out["runs"] if rn["ok"]), None)
    if r0 is not None:
        got = {i["region"]: i["sx"] for i in r0["integrands"]}
        pairs = list(zip(case["fields"], case["trials"]))
        for k, itg in enumerate(out["orig"]):
            try:
                with B.time_limit(25):
                    orc[itg["region"]] = numeric_gateaux(itg["sx"], got.get(itg["region"]), pairs, case["dim"], case.get("seed", 0) + k)
            except B.CaseTimeout:
                orc[itg["region"]] = {"ok": None, "info": "timeout"}
            except Exception as e:  # noqa
                orc[itg["region"]] = {"ok": None, "info": "oracle failed: %s: %s" % (type(e).__name__, str(e)[:150])}
    out["oracle"] = orc
    return out


def main():
    payload = json.load(open(sys.argv[1]))
    B.warm_up()
    res = [B.run_forked(run_case, case, 240) for case in payload["cases"]]
    json.dump({"results": res}, open(sys.argv[2], "w"))


if __name__ == "__main__":
    main()
