"""Implementation side of C10: builds real sympde forms, calls them, serialises everything structurally.

input : {"cases":[case..]}          case = see tools/props/C10.py (gen_case)
output: {"results":[res..]}

Generator trees ("g-trees", built with the real constructors):
  {"k":"num","p":n,"q":n} {"k":"fun","n":name[,"s":space id]} {"k":"const","n":name} {"k":"coord","i":n} {"k":"normal"}
  (a function reference without "s" lives in the home space of its name: case["home"][name], default V / W; with "s" it is
   the function of that name in the space SPACES[s] - a same-named twin when the name is also used in its home space)
  {"k":"add","a":[..]} {"k":"mul","a":[..]} {"k":"pow","b":..,"e":int}
  {"k":"op","n":"grad|div|curl|laplace|dot|inner|cross|dx1|dx2|dx3","a":[..]} {"k":"idx","of":..,"i":n}

Structural trees ("c-trees", what the generic serialiser returns; mirror of coq/Model/CallM.v `expr`):
  {"l":"fun","n":name,"v":bool,"s":"<space name>:<space kind>"} {"l":"const","n":name} {"l":"coord","n":name} {"l":"num","p":n,"q":n}
  {"l":"other","c":class,"n":name}
  {"o":"Add"|"Mul"|"Pow"|<class name>,"a":[c-tree..]}
A form body is a list of [region string, c-tree]; regions: "dom:<name>" / "bnd:<domain>:<name>:<axis>:<ext>".

The serialiser is fail-closed: anything it does not know raises Unsupported (the case is reported by the driver).
"""
import json
import random
import sys
import traceback

import sympy as sp
from sympy import Add, Mul, Pow, Integer, Rational, Symbol, S

COORDS = ["x1", "x2", "x3"]

# space id -> (vector?, name of the space, kind); the identity of a function is (class, name, space): its hash is
# hash((name, space)) and hash(space) = hash((space name, domain, shape, kind))
SPACES = {"V": (False, "V", None), "W": (True, "W", None),
          "V2": (False, "V2", None), "Vh": (False, "V", "h1"), "Vl": (False, "Q", "l2"),
          "W2": (True, "W2", None), "Wc": (True, "W", "hcurl"), "Wd": (True, "Wd", "hdiv"),
          "VX": (True, "V", None), "WS": (False, "W", None)}


class Unsupported(Exception):
    pass


# ------------------------------------------------------------------------------------------------ world
class World:
    def __init__(self, case):
        from sympde.topology import Square, Cube, ScalarFunctionSpace, VectorFunctionSpace, NormalVector
        self.dim = case["dim"]
        self.domain = {2: Square, 3: Cube}[self.dim]("Omega")
        self.table = dict(SPACES)
        self.table.update({k: tuple(v) for k, v in case.get("spaces", {}).items()})
        self.spaces = {}
        self.vec = dict(case["functions"])          # name -> is vector (class of the name in its home space)
        self.home = dict(case.get("home", {}))      # name -> space id of the plain references
        self.funs = {}
        self.consts = {}
        self.nn = NormalVector("nn")

    def space(self, sid):
        from sympde.topology import ScalarFunctionSpace, VectorFunctionSpace
        if sid not in self.spaces:
            vec, name, kind = self.table[sid]
            self.spaces[sid] = (VectorFunctionSpace if vec else ScalarFunctionSpace)(name, self.domain, kind=kind)
        return self.spaces[sid]

    def sid_of(self, name, sid=None):
        if sid is not None:
            return sid
        if name in self.home:
            return self.home[name]
        if name not in self.vec:
            raise KeyError("undeclared function " + name)
        return "W" if self.vec[name] else "V"

    def isvec(self, name, sid=None):
        return bool(self.table[self.sid_of(name, sid)][0])

    def fun(self, name, sid=None):
        from sympde.topology import element_of
        sid = self.sid_of(name, sid)
        if (name, sid) not in self.funs:
            self.funs[(name, sid)] = element_of(self.space(sid), name=name)
        return self.funs[(name, sid)]

    def product_elements(self, refs):
        """the functions [(name, sid)..] created as ONE element of the product of their spaces"""
        from sympde.topology import element_of
        from sympde.topology.space import ProductSpace
        sids = [self.sid_of(n, s) for n, s in refs]
        out = list(element_of(ProductSpace(*[self.space(s) for s in sids]), name=[n for n, _ in refs]))
        for (n, _), s, f in zip(refs, sids, out):
            self.funs.setdefault((n, s), f)
        return out

    def const(self, name):
        from sympde.core import Constant
        if name not in self.consts:
            self.consts[name] = Constant(name)
        return self.consts[name]

    def region(self, r):
        if r["t"] == "dom":
            return self.domain
        return self.domain.get_boundary(axis=r["axis"], ext=r["ext"])


def build(g, w):
    from sympde.calculus import grad, div, curl, laplace, dot, inner, cross
    from sympde.topology.derivatives import dx1, dx2, dx3
    k = g["k"]
    if k == "num":
        return Rational(g["p"], g["q"])
    if k == "fun":
        return w.fun(g["n"], g.get("s"))
    if k == "const":
        return w.const(g["n"])
    if k == "coord":
        return w.domain.coordinates[g["i"]]
    if k == "normal":
        return w.nn
    if k == "add":
        r = build(g["a"][0], w)
        for x in g["a"][1:]:
            r = r + build(x, w)
        return r
    if k == "mul":
        r = build(g["a"][0], w)
        for x in g["a"][1:]:
            r = r * build(x, w)
        return r
    if k == "pow":
        return build(g["b"], w) ** g["e"]
    if k == "idx":
        return build(g["of"], w)[g["i"]]
    if k == "op":
        f = {"grad": grad, "div": div, "curl": curl, "laplace": laplace, "dot": dot, "inner": inner, "cross": cross,
             "dx1": dx1, "dx2": dx2, "dx3": dx3}[g["n"]]
        return f(*[build(x, w) for x in g["a"]])
    raise ValueError(k)


# ------------------------------------------------------------------------------------------------ serialiser
def ser(e):
    """Generic structural serialiser of sympy / sympde expression trees (class name + args, names for leaves)."""
    from sympde.topology.space import ScalarFunction, VectorFunction
    from sympde.core.basic import Constant
    from sympde.topology import NormalVector
    from sympde.topology.basic import BasicDomain
    if not isinstance(e, sp.Basic):
        raise Unsupported("non-sympy object %s" % type(e).__name__)
    if isinstance(e, (ScalarFunction, VectorFunction)):
        return {"l": "fun", "n": e.name, "v": isinstance(e, VectorFunction), "s": space_tag(e.space)}
    if isinstance(e, Constant):
        return {"l": "const", "n": e.name}
    if isinstance(e, Integer):
        return {"l": "num", "p": int(e), "q": 1}
    if isinstance(e, Rational):
        return {"l": "num", "p": int(e.p), "q": int(e.q)}
    if isinstance(e, sp.Number) or isinstance(e, sp.NumberSymbol):
        raise Unsupported("number %s" % type(e).__name__)
    if isinstance(e, NormalVector):
        return {"l": "other", "c": "NormalVector", "n": e.name}
    if isinstance(e, BasicDomain):
        raise Unsupported("domain inside an integrand")
    if type(e) is Symbol:
        if e.name in COORDS:
            return {"l": "coord", "n": e.name}
        return {"l": "other", "c": "Symbol", "n": e.name}
    if isinstance(e, sp.Atom):
        raise Unsupported("atom %s" % type(e).__name__)
    if isinstance(e, Add):
        return {"o": "Add", "a": [ser(a) for a in e.args]}
    if isinstance(e, Mul):
        return {"o": "Mul", "a": [ser(a) for a in e.args]}
    if isinstance(e, Pow):
        return {"o": "Pow", "a": [ser(e.base), ser(e.exp)]}
    if not isinstance(e, sp.Expr) and not isinstance(e, sp.Tuple):
        raise Unsupported("node %s" % type(e).__name__)
    if not e.args:
        raise Unsupported("argument-less node %s" % type(e).__name__)
    return {"o": type(e).__name__, "a": [ser(a) for a in e.args]}


def space_tag(sp):
    """what the hash of a function space depends on besides the (fixed) domain and the shape given by the class"""
    return "%s:%s" % (sp.name, sp.kind.name)


def ser_region(d):
    from sympde.topology import Boundary, InteriorDomain, Interface
    if isinstance(d, Boundary):
        return "bnd:%s:%s:%s:%s" % (d.domain.name, d.name, d.axis, d.ext)
    if isinstance(d, Interface):
        raise Unsupported("interface region")
    if isinstance(d, InteriorDomain):
        return "dom:%s" % d.name
    raise Unsupported("region %s" % type(d).__name__)


def integrals_of(expr):
    from sympde.expr.expr import Integral, IntAdd
    if expr == 0:
        return []
    if isinstance(expr, Integral):
        return [expr]
    if isinstance(expr, IntAdd):
        out = []
        for a in expr.args:
            if not isinstance(a, Integral):
                raise Unsupported("non-integral term %s" % type(a).__name__)
            out.append(a)
        return out
    raise Unsupported("form expression %s" % type(expr).__name__)


def ser_body(expr):
    return [[ser_region(i.domain), ser(i.expr)] for i in integrals_of(expr)]


def errkind(e):
    from sympde.calculus.errors import ArgumentTypeError
    if isinstance(e, ArgumentTypeError):
        return "argtype"          # the calculus refuses the kind of the space of an operand
    if isinstance(e, TypeError):
        return "type"
    if isinstance(e, ValueError):
        return "value"
    return "other:" + type(e).__name__


# ------------------------------------------------------------------------------------------------ classical evaluator (oracle)
class Conc:
    """Explicit polynomial for every function, rational for every constant, fixed rational normal vector.
    Evaluates c-trees with the classical definitions of the operators (independent of sympde's lowering)."""

    def __init__(self, seed, dim, vec):
        self.rng = random.Random(seed)
        self.dim = dim
        self.vec = dict(vec)
        self.xs = [Symbol(n, real=True) for n in COORDS[:dim]]
        self.polys, self.consts = {}, {}
        self.normal = [Rational(self.rng.randint(1, 5), self.rng.randint(1, 3)) for _ in range(dim)]
        self.override = {}     # ("fun", name) / ("const", name) -> value

    def poly(self):
        """generic polynomial of degree 3: every second derivative, the Laplacian and every first derivative are non-zero"""
        r, xs = self.rng, self.xs
        q = lambda: Rational(r.randint(1, 5), r.randint(1, 2))
        p = Rational(r.randint(1, 4))
        for i, x in enumerate(xs):
            p += q() * x ** 2 + q() * r.choice([1, -1]) * x
            for y in xs[i + 1:]:
                p += q() * r.choice([1, -1]) * x * y
        p += q() * xs[0] * xs[-1] ** 2 + q() * r.choice([1, -1]) * xs[0] ** 2 * xs[1]
        return p

    def fun(self, name, vec, tag=""):
        key = (name, vec, tag)        # same-named functions of different spaces are different functions
        if key not in self.polys:
            self.polys[key] = [self.poly() for _ in range(self.dim)] if vec else self.poly()
        return self.polys[key]

    def const(self, name):
        if name not in self.consts:
            # pairwise distinct values, none of them 0, 1 or an integer used by the generator
            self.consts[name] = Rational(2 * len(self.consts) + 3, 2) + Rational(1, self.rng.randint(3, 9))
        return self.consts[name]

    def point(self):
        return {x: Rational(self.rng.randint(1, 9), self.rng.randint(2, 7)) for x in self.xs}

    # values: ("s", expr) | ("v", [expr]) | ("m", [[expr]])
    def ev(self, t, env):
        if "l" in t:
            l = t["l"]
            if l == "num":
                return ("s", Rational(t["p"], t["q"]))
            if l == "coord":
                return ("s", self.xs[COORDS.index(t["n"])])
            if l == "const":
                if ("const", t["n"]) in env:
                    return env[("const", t["n"])]
                return ("s", self.const(t["n"]))
            if l == "fun":
                if fkey(t) in env:
                    return env[fkey(t)]
                v = self.fun(t["n"], t["v"], t.get("s", ""))
                return ("v", list(v)) if t["v"] else ("s", v)
            if l == "other" and t["c"] == "NormalVector":
                return ("v", list(self.normal))
            raise Unsupported("oracle leaf %s" % json.dumps(t))
        o, args = t["o"], t["a"]
        if o in ("IndexedVectorFunction", "Indexed"):
            b = self.ev(args[0], env)
            i = args[1]
            if b[0] != "v" or i.get("l") != "num":
                raise Unsupported("oracle index")
            return ("s", b[1][i["p"]])
        vals = [self.ev(a, env) for a in args]
        if o == "Add":
            kinds = {v[0] for v in vals}
            if len(kinds) != 1:
                # a scalar zero may be added to anything
                vals = [v for v in vals if not (v[0] == "s" and v[1] == 0)]
                kinds = {v[0] for v in vals}
                if len(kinds) != 1:
                    raise Unsupported("oracle Add of mixed shapes")
            kd = kinds.pop()
            if kd == "s":
                return ("s", sum((v[1] for v in vals), S.Zero))
            if kd == "v":
                return ("v", [sum((v[1][i] for v in vals), S.Zero) for i in range(len(vals[0][1]))])
            return ("m", [[sum((v[1][i][j] for v in vals), S.Zero) for j in range(len(vals[0][1][0]))]
                          for i in range(len(vals[0][1]))])
        if o == "Mul":
            sc = S.One
            rest = []
            for v in vals:
                if v[0] == "s":
                    sc = sc * v[1]
                else:
                    rest.append(v)
            if not rest:
                return ("s", sc)
            if len(rest) > 1:
                raise Unsupported("oracle Mul of two non-scalars")
            r = rest[0]
            if r[0] == "v":
                return ("v", [sc * x for x in r[1]])
            return ("m", [[sc * x for x in row] for row in r[1]])
        if o == "Pow":
            b, e = vals
            if b[0] != "s" or e[0] != "s":
                raise Unsupported("oracle Pow shape")
            return ("s", b[1] ** e[1])
        d = {"dx1": 0, "dx2": 1, "dx3": 2}
        if o in d:
            x = self.xs[d[o]]
            v = vals[0]
            if v[0] == "s":
                return ("s", sp.diff(v[1], x))
            if v[0] == "v":
                return ("v", [sp.diff(c, x) for c in v[1]])
            raise Unsupported("oracle d of matrix")
        if o == "Grad":
            v = vals[0]
            if v[0] == "s":
                return ("v", [sp.diff(v[1], x) for x in self.xs])
            if v[0] == "v":     # entry (i, j) = d_i F_j
                return ("m", [[sp.diff(c, x) for c in v[1]] for x in self.xs])
            raise Unsupported("oracle Grad of matrix")
        if o == "Div":
            v = vals[0]
            if v[0] != "v":
                raise Unsupported("oracle Div shape")
            return ("s", sum((sp.diff(c, x) for c, x in zip(v[1], self.xs)), S.Zero))
        if o == "Laplace":
            v = vals[0]
            if v[0] == "s":
                return ("s", sum((sp.diff(v[1], x, 2) for x in self.xs), S.Zero))
            if v[0] == "v":
                return ("v", [sum((sp.diff(c, x, 2) for x in self.xs), S.Zero) for c in v[1]])
            raise Unsupported("oracle Laplace shape")
        if o == "Curl":
            v = vals[0]
            if v[0] != "v":
                raise Unsupported("oracle Curl shape")
            F, X = v[1], self.xs
            if self.dim == 2:
                return ("s", sp.diff(F[1], X[0]) - sp.diff(F[0], X[1]))
            return ("v", [sp.diff(F[2], X[1]) - sp.diff(F[1], X[2]),
                          sp.diff(F[0], X[2]) - sp.diff(F[2], X[0]),
                          sp.diff(F[1], X[0]) - sp.diff(F[0], X[1])])
        if o in ("Dot", "Inner"):
            a, b = vals
            if a[0] == "v" and b[0] == "v":
                return ("s", sum((x * y for x, y in zip(a[1], b[1])), S.Zero))
            if a[0] == "m" and b[0] == "m" and o == "Inner":
                return ("s", sum((x * y for ra, rb in zip(a[1], b[1]) for x, y in zip(ra, rb)), S.Zero))
            if a[0] == "s" and b[0] == "s":
                return ("s", a[1] * b[1])
            raise Unsupported("oracle %s shapes %s %s" % (o, a[0], b[0]))
        if o == "Cross":
            a, b = vals
            if a[0] == "v" and b[0] == "v" and self.dim == 3:
                A, B = a[1], b[1]
                return ("v", [A[1] * B[2] - A[2] * B[1], A[2] * B[0] - A[0] * B[2], A[0] * B[1] - A[1] * B[0]])
            if a[0] == "v" and b[0] == "v" and self.dim == 2:
                A, B = a[1], b[1]
                return ("s", A[0] * B[1] - A[1] * B[0])
            raise Unsupported("oracle Cross shapes")
        raise Unsupported("oracle operator %s" % o)

    def at(self, val, pt):
        if val[0] != "s":
            raise Unsupported("integrand is not scalar")
        r = sp.sympify(val[1]).xreplace(pt)
        if not r.is_Rational:
            r = sp.nsimplify(r) if r.is_number else r
        return r


def fkey(t):
    """environment key of a serialised function leaf: class, name and space"""
    return ("fun", t["n"], bool(t["v"]), t.get("s", ""))


def eval_body(conc, body, env, pts):
    """{region: [exact values at pts]}; regions with the same name are added."""
    out = {}
    for reg, t in body:
        v = conc.ev(t, env)
        vals = [conc.at(v, p) for p in pts]
        if reg in out:
            out[reg] = [a + b for a, b in zip(out[reg], vals)]
        else:
            out[reg] = vals
    return out


def exact_integral(conc, body, env):
    """Exact integral over the unit cube / its faces of a polynomial integrand (None if not polynomial)."""
    tot = S.Zero
    for reg, t in body:
        v = conc.ev(t, env)
        if v[0] != "s":
            raise Unsupported("integrand is not scalar")
        p = sp.sympify(v[1])
        xs = list(conc.xs)
        if reg.startswith("bnd:"):
            axis, ext = [int(x) for x in reg.split(":")[-2:]]
            p = p.xreplace({xs[axis]: S.Zero if ext == -1 else S.One})
            xs = xs[:axis] + xs[axis + 1:]
        try:
            poly = sp.Poly(p, *xs)
        except Exception:  # noqa  (not a polynomial in the coordinates)
            return None
        for mon, co in poly.terms():
            if not co.is_Rational:
                return None
            for n in mon:
                co = co / (n + 1)
            tot += co
    return tot


def strs(vals):
    return {k: [str(x) for x in v] for k, v in vals.items()}


def is_zero(x):
    x = sp.sympify(x)
    if x.is_Rational:
        return x == 0
    return sp.simplify(x) == 0


def same_values(a, b):
    keys = set(a) | set(b)
    for k in keys:
        va = a.get(k)
        vb = b.get(k)
        if va is None:
            va = [S.Zero] * len(vb)
        if vb is None:
            vb = [S.Zero] * len(va)
        if any(not is_zero(x - y) for x, y in zip(va, vb)):
            return False
    return True


# ------------------------------------------------------------------------------------------------ canonical form of c-trees (oracle side)
COMM = ("Add", "Mul", "Dot", "Inner")


def canon(t):
    if "l" in t:
        return t
    a = [canon(x) for x in t["a"]]
    if t["o"] in COMM:
        a = sorted(a, key=lambda x: json.dumps(x, sort_keys=True))
    return {"o": t["o"], "a": a}


def canon_body(body):
    return sorted(([r, canon(t)] for r, t in body), key=lambda x: json.dumps(x, sort_keys=True))


# ------------------------------------------------------------------------------------------------ lowering (level-2 correspondence)
def lowered(expr, w):
    """{"body": [[region, sx-json or None]]} of TerminalExpr(integrand); an entry is None when the lowering or its
    serialisation is not available for that integrand."""
    from sympde.expr import TerminalExpr
    import ser as S1
    out = []
    try:
        ints = integrals_of(expr)
    except Exception as e:  # noqa
        return {"none": "%s: %s" % (type(e).__name__, str(e)[:120])}
    for i in ints:
        try:
            out.append([ser_region(i.domain), S1.ser_sx(TerminalExpr(i.expr, w.domain))])
        except Exception as e:  # noqa
            out.append([ser_region(i.domain), None])
    return {"body": out}


# ------------------------------------------------------------------------------------------------ one case
def subst_g(g, posmap, kwmap, declared, home=None):
    """simultaneous substitution on generator trees (the independent reference for `direct`): a plain reference to a
    declared argument takes its positional value; any other function / constant whose name is a keyword takes the
    keyword's value; what is inserted is not looked at again"""
    k = g["k"]
    if k == "fun":
        plain = "s" not in g or (home is not None and home(g["n"]) == g["s"])
        if plain and g["n"] in posmap:
            return posmap[g["n"]]
        if g["n"] in kwmap and not (plain and g["n"] in declared):
            return kwmap[g["n"]]
        return g
    if k == "const":
        return kwmap.get(g["n"], g)
    out = dict(g)
    if "a" in g:
        out["a"] = [subst_g(x, posmap, kwmap, declared, home) for x in g["a"]]
    if "b" in g:
        out["b"] = subst_g(g["b"], posmap, kwmap, declared, home)
    if "of" in g:
        out["of"] = subst_g(g["of"], posmap, kwmap, declared, home)
    return out


def direct_maps(direct):
    """direct: [[old name, new name | g-tree]..]  |  {"pos": [[name, g-tree]..], "kw": [[name, g-tree]..]}"""
    tree = lambda x: {"k": "fun", "n": x} if isinstance(x, str) else x
    if isinstance(direct, dict):
        return {n: tree(t) for n, t in direct.get("pos", [])}, {n: tree(t) for n, t in direct.get("kw", [])}
    return {n: tree(t) for n, t in direct}, {}


def build_expr(w, integrals):
    from sympde.expr import integral
    expr = None
    for it in integrals:
        term = integral(w.region(it["region"]), build(it["e"], w))
        expr = term if expr is None else expr + term
    return expr


def build_form(case, w, integrals):
    from sympde.expr import BilinearForm, LinearForm
    expr = build_expr(w, integrals)
    if case.get("product_decl") and len(case["trials"] + case["tests"]) > 1:
        # the declared arguments are created as elements of a ProductSpace
        if case["trials"]:
            tr = w.product_elements([(n, None) for n in case["trials"]])
        else:
            tr = []
        te = w.product_elements([(n, None) for n in case["tests"]])
    else:
        tr = [w.fun(n) for n in case["trials"]]
        te = [w.fun(n) for n in case["tests"]]
    pack = lambda l: l[0] if (len(l) == 1 and not case.get("tuple_args")) else tuple(l)
    info = {"check_linearity": True}
    import contextlib
    import io
    try:
        with contextlib.redirect_stdout(io.StringIO()):
            if case["kind"] == "bilinear":
                form = BilinearForm((pack(tr), pack(te)), expr)
            else:
                form = LinearForm(pack(te), expr)
    except Exception as e:  # noqa
        if type(e).__name__ != "UnconsistentLinearExpressionError":
            raise
        info = {"check_linearity": False}
        if case["kind"] == "bilinear":
            form = BilinearForm((pack(tr), pack(te)), expr, check_linearity=False)
        else:
            form = LinearForm(pack(te), expr, check_linearity=False)
    return form, info


def build_parg(p, w):
    if "seq" in p:
        if p.get("as") == "product" and len(p["seq"]) > 1 and all(x["k"] == "fun" for x in p["seq"]):
            return w.product_elements([(x["n"], x.get("s")) for x in p["seq"]])
        items = [build(x, w) for x in p["seq"]]
        if p.get("as") == "list":
            return list(items)
        if p.get("as") == "Tuple":
            return sp.Tuple(*items)
        return tuple(items)
    return build(p["val"], w)


def ser_parg(obj):
    if isinstance(obj, (tuple, list, sp.Tuple)):
        return {"seq": [ser(x) for x in obj]}
    return {"val": ser(obj)}


# ------------------------------------------------------------------------------------------------ identity oracle
def okey(x):
    """identity of an atom as Python sees it in a dictionary: class, name and (for functions) the space"""
    from sympde.topology.space import ScalarFunction, VectorFunction
    if isinstance(x, (ScalarFunction, VectorFunction)):
        spc = x.space
        return (type(x).__name__, x.name, type(spc).__name__, spc.name, spc.kind.name, spc.domain.name)
    return (type(x).__name__, x.name)


def occurrences(e):
    """every occurrence of a function / constant in the integrands of e (pre-order walk over .args), with its region"""
    from sympde.topology.space import ScalarFunction, VectorFunction
    from sympde.core.basic import Constant
    out = []

    def walk(t, reg):
        if isinstance(t, (ScalarFunction, VectorFunction, Constant)):
            out.append((reg, t))
            return
        for a in t.args:
            walk(a, reg)
    for i in integrals_of(e):
        walk(i.expr, ser_region(i.domain))
    return out


def flat_objects(kind, pos, nvars):
    """the supplied value objects, one per declared argument, as __call__ is specified to pair them (None: wrong number)"""
    aslist = lambda p: list(p) if isinstance(p, (tuple, list, sp.Tuple)) else [p]
    if kind == "bilinear":
        if len(pos) != 2:
            return None
        vals = aslist(pos[0]) + aslist(pos[1])
    else:
        vals = aslist(pos[0]) if len(pos) == 1 else list(pos)
    return vals if len(vals) == nvars else None


def identity_oracle(form, case, declared, vals, kw, result):
    """C10 read on the objects themselves (no model, no serialiser): after the call no declared argument (no keyword
    target) survives where a different value was supplied, each supplied value sits exactly where the declared one
    was, and everything else is unchanged.  Atoms are identified by Python identity first, else by class, name and
    .space."""
    from collections import Counter
    import sympy
    orig = occurrences(form.expr)
    got = occurrences(result)
    dkeys = [okey(d) for d in declared]
    atoms_of = lambda v: [x for _, x in occurrences_expr(v)]
    supplied = set()
    for v in list(vals) + [v for _, v in kw]:
        supplied |= {okey(x) for x in atoms_of(v)}
    gotkeys = Counter(okey(x) for _, x in got)
    rep = {"declared": len(declared), "occurrences": len(orig)}
    # free symbols of the form, independently of form.fields: every function that is not a declared argument, every constant
    free = {}
    for _, x in orig:
        if okey(x) not in dkeys:
            free[okey(x)] = x
    target = {}                      # key of a replaced symbol -> value object
    for d, v in zip(declared, vals):
        target[okey(d)] = v          # a later duplicate wins, as in dict(zip(..))
    for n, v in kw:
        for k, x in free.items():
            if x.name == n:
                target[k] = v
    # (a) nothing that had to go survives
    for k, v in target.items():
        same = isinstance(v, sympy.Basic) and not v.args and okey_safe(v) == k
        if same:
            continue
        if gotkeys.get(k, 0) and k not in supplied:
            rep["bad"] = "survives"
            rep["key_name"], rep["key_is_declared"] = k[1], k in dkeys
            surv = [x for _, x in got if okey(x) == k]
            rep["key_leaf"] = ser(surv[0]) if surv else None
            rep["detail"] = "%s is still in the result although the value %s was supplied for it" % (list(k), v)
            return rep
    # (b) nothing foreign appears
    allowed = {okey(x) for _, x in orig} | supplied
    for k in gotkeys:
        if k not in allowed:
            rep["bad"] = "foreign"
            rep["detail"] = "%s is neither in the form nor in a supplied value" % (list(k),)
            return rep
    # (c) a clean renaming (every value an atom, injective, no value already in the form unless it is a replaced
    #     symbol itself): region by region the occurrences of the result are exactly the renamed occurrences
    from sympde.topology.space import ScalarFunction, VectorFunction
    from sympde.core.basic import Constant
    isfun = lambda x: isinstance(x, (ScalarFunction, VectorFunction))
    # a function for a function, a function or a constant for a constant: no operator re-evaluates (grad(constant) = 0 ..)
    atom_vals = all(isfun(v) or (isinstance(v, Constant) and k[0] == "Constant") for k, v in target.items())
    if atom_vals:
        vk = [okey(v) for v in target.values()]
        others = {okey(x) for _, x in orig} - set(target)
        clean = len(set(vk)) == len(vk) and not (set(vk) & others)
        if clean:
            exp = Counter((reg, okey(target[okey(x)]) if okey(x) in target else okey(x)) for reg, x in orig)
            have = Counter((reg, okey(x)) for reg, x in got)
            rep["clean_renaming"] = True
            if exp != have:
                rep["bad"] = "moved"
                miss = list((exp - have).items())[:3]
                extra = list((have - exp).items())[:3]
                rep["detail"] = "occurrences expected but absent %s; present but not expected %s" % (miss, extra)
                return rep
            # Python identity: where a value was supplied, the object found in the result is that very object
            byid = {id(v) for v in target.values()}
            vkeys = set(vk)
            rep["objects_checked"] = sum(1 for _, x in got if okey(x) in vkeys)
            rep["objects_identical"] = sum(1 for _, x in got if okey(x) in vkeys and id(x) in byid)
    rep["bad"] = None
    return rep


def okey_safe(v):
    try:
        return okey(v)
    except Exception:  # noqa
        return None


def occurrences_expr(v):
    from sympde.topology.space import ScalarFunction, VectorFunction
    from sympde.core.basic import Constant
    out = []

    def walk(t):
        if isinstance(t, (ScalarFunction, VectorFunction, Constant)):
            out.append((None, t))
            return
        for a in getattr(t, "args", ()):
            walk(a)
    walk(v)
    return out


def run_case(case):
    import sympy.core.cache
    from sympde.expr.basic import BasicForm
    sympy.core.cache.clear_cache()
    w = World(case)
    form, info = build_form(case, w, case["integrals"])
    res = {"info": info}
    if not hasattr(form, "variables"):
        res["form"] = {"zero": True}
        return res
    if case["kind"] == "bilinear":
        declared = list(form.variables[0]) + list(form.variables[1])
        trials = [ser(x) for x in form.variables[0]]
        tests = [ser(x) for x in form.variables[1]]
    else:
        declared = list(form.variables)
        trials, tests = [], [ser(x) for x in form.variables]
    body = ser_body(form.expr)
    # the iteration order of the Python set of function atoms (hash-seed dependent; an input of the model, which
    # registers ONE free symbol per name: the last one of this order)
    from sympde.topology.space import ScalarFunction, VectorFunction
    atoms = [ser(x) for x in form.expr.atoms(ScalarFunction, VectorFunction)]
    res["form"] = {"trials": trials, "tests": tests, "body": body, "atoms": atoms}
    decl_leaves = trials + tests
    dkeys = {okey(d) for d in declared}
    # free symbols, independently of the implementation: every function of the integrands that is not (by class, name
    # and space) a declared argument, and every constant
    free_f, free_c = {}, set()
    for _, x in occurrences(form.expr):
        if okey(x) in dkeys:
            continue
        t = ser(x)
        if t["l"] == "fun":
            free_f[json.dumps(t, sort_keys=True)] = t
        else:
            free_c.add(t["n"])
    res["free"] = {"fields": sorted(t["n"] for t in free_f.values()), "consts": sorted(free_c),
                   "field_leaves": [free_f[k] for k in sorted(free_f)]}
    res["free_impl"] = {"fields": sorted(json.dumps(ser(x), sort_keys=True) for x in form.fields),
                        "consts": sorted(x.name for x in form.constants),
                        "names": sorted(form.get_free_variables()),
                        # the ONE symbol that the implementation registers under each name (last of a set iteration)
                        "table": {n: ser(x) for n, x in form.get_free_variables().items()}}
    # the attributes of the base class (anchored): the integration domain(s) recorded for the form
    dom0 = BasicForm.domain.fget(form)
    res["base"] = {"domain": str(dom0), "domain_is_form_domain": dom0 is form.domain, "ldim": str(BasicForm.ldim.fget(form))}
    # the third arm of BasicForm.fields (an object that is neither linear nor bilinear: every function is a field)
    try:
        from sympde.expr.expr import Functional
        i0 = integrals_of(form.expr)[0]
        fn = Functional(i0.expr, w.domain)
        res["base"]["functional_fields_are_all_functions"] = \
            {okey(x) for x in fn.fields} == {okey(x) for x in i0.expr.atoms(ScalarFunction, VectorFunction)}
    except Exception as e:  # noqa
        res["base"]["functional_fields_err"] = "%s: %s" % (type(e).__name__, str(e)[:100])
    res["lowered"] = lowered(form.expr, w)
    conc = Conc(case["seed"], case["dim"], case["functions"])
    pts = [conc.point() for _ in range(2)]

    # ---- symmetry flag (bilinear only) and what exchange really does to the value
    if case["kind"] == "bilinear":
        sym = {}
        try:
            sym["flag"] = bool(form.is_symmetric)
        except Exception as e:  # noqa
            sym["flag_err"] = errkind(e)
        if [t["v"] for t in trials] == [t["v"] for t in tests]:
            try:
                base = eval_body(conc, body, {}, pts)
                env = {}
                for a, b in zip(trials, tests):
                    va, vb = conc.ev(a, {}), conc.ev(b, {})
                    env[fkey(a)] = vb
                    env[fkey(b)] = va
                exch = eval_body(conc, body, env, pts)
                sym["pointwise_symmetric"] = same_values(base, exch)
                if not sym["pointwise_symmetric"]:
                    i1 = exact_integral(conc, body, {})
                    i2 = exact_integral(conc, body, env)
                    sym["integral_changes"] = None if (i1 is None or i2 is None) else bool(sp.simplify(i1 - i2) != 0)
                    sym["values"] = [strs(base), strs(exch)]
            except Unsupported as e:
                sym["oracle_unsupported"] = str(e)
        else:
            sym["exchangeable"] = False
        res["sym"] = sym

    # ---- calls
    res["calls"] = []
    for call in case["calls"]:
        out = {"id": call["id"]}
        res["calls"].append(out)
        try:
            pos = [build_parg(p, w) for p in call["pos"]]
            kw = [(n, build(v, w)) for n, v in call["kw"]]
            out["pos"] = [ser_parg(p) for p in pos]
            out["kw"] = [[n, ser(v)] for n, v in kw]
        except Exception as e:  # noqa
            out["build_err"] = traceback.format_exc()[-600:]
            continue
        # (ii) the reference built directly: the integrands written with the values in the places of the arguments
        if call.get("direct"):
            try:
                pm, km = direct_maps(call["direct"])
                names = set(case["trials"] + case["tests"])
                home = lambda n: w.sid_of(n) if (n in w.vec or n in w.home) else None
                ints = [{"region": it["region"], "e": subst_g(it["e"], pm, km, names, home)} for it in case["integrals"]]
                e2 = build_expr(w, ints)
                out["direct_body"] = ser_body(e2)
            except Unsupported as e:
                out["direct_unsupported"] = str(e)
            except Exception as e:  # noqa
                out["direct_err"] = traceback.format_exc()[-600:]
                out["direct_err_kind"] = errkind(e)
        try:
            if call.get("via") == "update_free":
                # BasicForm._update_free_variables: the keyword substitution alone
                r = form._update_free_variables(**dict(kw))
            else:
                r = form(*pos, **dict(kw))
        except Exception as e:  # noqa
            out["err"] = errkind(e)
            out["msg"] = str(e)[:200]
            continue
        try:
            out["body"] = ser_body(r)
        except Unsupported as e:
            out["unsupported"] = str(e)
            continue
        if call.get("kind") == "own":
            try:
                out["eq_self"] = bool(r == form.expr) and hash(r) == hash(form.expr)
            except Exception as e:  # noqa
                out["eq_self"] = False
                out["eq_self_err"] = errkind(e)
        # the form itself is not altered by the call
        try:
            if ser_body(form.expr) != body or BasicForm.domain.fget(form) is not dom0:
                out["form_altered"] = True
        except Exception:  # noqa
            out["form_altered"] = True
        if call.get("lower"):
            out["lowered"] = lowered(r, w)
        # (v) the identity oracle on the objects
        vals_obj = declared if call.get("via") == "update_free" else flat_objects(case["kind"], pos, len(declared))
        if vals_obj is not None:
            try:
                out["ident"] = identity_oracle(form, case, declared, vals_obj, kw, r)
            except Unsupported as e:
                out["ident"] = {"unsupported": str(e)}
        # (iv) numeric instantiation: result vs original evaluated at the substituted arguments, simultaneously
        orc = {}
        out["oracle"] = orc
        try:
            values = None if vals_obj is None else list(zip(decl_leaves, [ser(v) for v in vals_obj]))
            if values is None:
                orc["skipped"] = "arity"
            elif any(shape_of(t) not in (None, d["v"]) for d, t in values) or \
                    any(shape_of(t) not in (None, fl["v"]) for n, t in out["kw"] for fl in res["free"]["field_leaves"] if fl["n"] == n) or \
                    any(shape_of(t) is True for n, t in out["kw"] if n in res["free"]["consts"]):
                orc["skipped"] = "shape"        # a vector where a scalar was declared (or the converse)
            else:
                def keys_of(n):
                    ks = [fkey(t) for t in res["free"]["field_leaves"] if t["n"] == n]
                    if n in res["free"]["consts"]:
                        ks.append(("const", n))
                    return ks or [("not-free", n)]       # binds nothing: the name is not a free symbol of the form
                # simultaneous: every replacement is evaluated in the caller's environment
                env = {}
                for d, t in values:
                    env[fkey(d)] = conc.ev(t, {})
                for n, t in out["kw"]:
                    for k in keys_of(n):
                        env[k] = conc.ev(t, {})
                exp = eval_body(conc, body, env, pts)
                got = eval_body(conc, out["body"], {}, pts)
                orc["ok"] = same_values(exp, got)
                if not orc["ok"]:
                    orc["expected"], orc["got"] = strs(exp), strs(got)
                    orc["points"] = [{str(k): str(v) for k, v in p.items()} for p in pts]
                    # what one-substitution-after-the-other predicts (keywords in order, then the arguments)
                    senv = {}
                    for d, t in values:
                        senv[fkey(d)] = conc.ev(t, {})
                    for n, t in reversed(out["kw"]):
                        senv2 = dict(senv)
                        for k in keys_of(n):
                            senv2[k] = conc.ev(t, senv)
                        senv = senv2
                    orc["sequential_predicts_got"] = same_values(eval_body(conc, body, senv, pts), got)
                    # what "one symbol per keyword name" predicts (the symbol that the implementation's name table holds)
                    oenv = {}
                    for d, t in values:
                        oenv[fkey(d)] = conc.ev(t, {})
                    for n, t in out["kw"]:
                        tl = res["free_impl"]["table"].get(n)
                        if tl is not None:
                            oenv[fkey(tl) if tl["l"] == "fun" else ("const", n)] = conc.ev(t, {})
                    orc["one_symbol_per_name_predicts_got"] = same_values(eval_body(conc, body, oenv, pts), got)
        except Unsupported as e:
            orc["unsupported"] = str(e)
        if "direct_body" in out:
            b2 = out["direct_body"]
            out["direct_same"] = canon_body(b2) == canon_body(out["body"])
            if not out["direct_same"]:
                try:
                    out["direct_numeric"] = same_values(eval_body(conc, b2, {}, pts), eval_body(conc, out["body"], {}, pts))
                except Unsupported as e:
                    out["direct_undecided"] = str(e)
    return res


def shape_of(t):
    """True: vector-valued, False: scalar-valued, None: not determined from the leaves alone"""
    if "l" in t:
        if t["l"] == "fun":
            return bool(t["v"])
        return None if t["l"] == "other" else False
    if t["o"] in ("Add", "Mul"):
        ss = [shape_of(x) for x in t["a"]]
        if any(x is True for x in ss):
            return True
        return False if all(x is False for x in ss) else None
    return None


def main():
    payload = json.load(open(sys.argv[1]))
    res = []
    for case in payload["cases"]:
        try:
            res.append(run_case(case))
        except Exception as e:  # noqa
            res.append({"crash": traceback.format_exc()[-2000:]})
    json.dump({"results": res}, open(sys.argv[2], "w"))


if __name__ == "__main__":
    main()
