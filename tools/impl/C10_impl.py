"""Implementation side of C10: builds real sympde forms, calls them, serialises everything structurally.

input : {"cases":[case..]}          case = see tools/props/C10.py (gen_case)
output: {"results":[res..]}

Generator trees ("g-trees", built with the real constructors):
  {"k":"num","p":n,"q":n} {"k":"fun","n":name} {"k":"const","n":name} {"k":"coord","i":n} {"k":"normal"}
  {"k":"add","a":[..]} {"k":"mul","a":[..]} {"k":"pow","b":..,"e":int}
  {"k":"op","n":"grad|div|curl|laplace|dot|inner|cross|dx1|dx2|dx3","a":[..]} {"k":"idx","of":..,"i":n}

Structural trees ("c-trees", what the generic serialiser returns; mirror of coq/Model/CallM.v `expr`):
  {"l":"fun","n":name,"v":bool} {"l":"const","n":name} {"l":"coord","n":name} {"l":"num","p":n,"q":n}
  {"l":"other","c":class,"n":name}
  {"o":"Add"|"Mul"|"Pow"|<class name>,"a":[c-tree..]}
A form body is a list of [region string, c-tree]; regions: "dom:<name>" / "bnd:<domain>:<name>:<axis>:<ext>".

The serialiser is fail-closed: anything it does not know raises Unsupported (the case is reported by the driver).
"""
import json
import random
import sys
import traceback

import sympy as sp
from sympy import Add, Mul, Pow, Integer, Rational, Symbol, S

COORDS = ["x1", "x2", "x3"]


class Unsupported(Exception):
    pass


# ------------------------------------------------------------------------------------------------ world
class World:
    def __init__(self, case):
        from sympde.topology import Square, Cube, ScalarFunctionSpace, VectorFunctionSpace, NormalVector
        self.dim = case["dim"]
        self.domain = {2: Square, 3: Cube}[self.dim]("Omega")
        self.V = ScalarFunctionSpace("V", self.domain)
        self.W = VectorFunctionSpace("W", self.domain)
        self.vec = dict(case["functions"])          # name -> is vector
        self.funs = {}
        self.consts = {}
        self.nn = NormalVector("nn")

    def fun(self, name):
        from sympde.topology import element_of
        if name not in self.funs:
            if name not in self.vec:
                raise KeyError("undeclared function " + name)
            self.funs[name] = element_of(self.W if self.vec[name] else self.V, name=name)
        return self.funs[name]

    def const(self, name):
        from sympde.core import Constant
        if name not in self.consts:
            self.consts[name] = Constant(name)
        return self.consts[name]

    def region(self, r):
        if r["t"] == "dom":
            return self.domain
        return self.domain.get_boundary(axis=r["axis"], ext=r["ext"])


def build(g, w):
    from sympde.calculus import grad, div, curl, laplace, dot, inner, cross
    from sympde.topology.derivatives import dx1, dx2, dx3
    k = g["k"]
    if k == "num":
        return Rational(g["p"], g["q"])
    if k == "fun":
        return w.fun(g["n"])
    if k == "const":
        return w.const(g["n"])
    if k == "coord":
        return w.domain.coordinates[g["i"]]
    if k == "normal":
        return w.nn
    if k == "add":
        r = build(g["a"][0], w)
        for x in g["a"][1:]:
            r = r + build(x, w)
        return r
    if k == "mul":
        r = build(g["a"][0], w)
        for x in g["a"][1:]:
            r = r * build(x, w)
        return r
    if k == "pow":
        return build(g["b"], w) ** g["e"]
    if k == "idx":
        return build(g["of"], w)[g["i"]]
    if k == "op":
        f = {"grad": grad, "div": div, "curl": curl, "laplace": laplace, "dot": dot, "inner": inner, "cross": cross,
             "dx1": dx1, "dx2": dx2, "dx3": dx3}[g["n"]]
        return f(*[build(x, w) for x in g["a"]])
    raise ValueError(k)


# ------------------------------------------------------------------------------------------------ serialiser
def ser(e):
    """Generic structural serialiser of sympy / sympde expression trees (class name + args, names for leaves)."""
    from sympde.topology.space import ScalarFunction, VectorFunction
    from sympde.core.basic import Constant
    from sympde.topology import NormalVector
    from sympde.topology.basic import BasicDomain
    if not isinstance(e, sp.Basic):
        raise Unsupported("non-sympy object %s" % type(e).__name__)
    if isinstance(e, (ScalarFunction, VectorFunction)):
        return {"l": "fun", "n": e.name, "v": isinstance(e, VectorFunction)}
    if isinstance(e, Constant):
        return {"l": "const", "n": e.name}
    if isinstance(e, Integer):
        return {"l": "num", "p": int(e), "q": 1}
    if isinstance(e, Rational):
        return {"l": "num", "p": int(e.p), "q": int(e.q)}
    if isinstance(e, sp.Number) or isinstance(e, sp.NumberSymbol):
        raise Unsupported("number %s" % type(e).__name__)
    if isinstance(e, NormalVector):
        return {"l": "other", "c": "NormalVector", "n": e.name}
    if isinstance(e, BasicDomain):
        raise Unsupported("domain inside an integrand")
    if type(e) is Symbol:
        if e.name in COORDS:
            return {"l": "coord", "n": e.name}
        return {"l": "other", "c": "Symbol", "n": e.name}
    if isinstance(e, sp.Atom):
        raise Unsupported("atom %s" % type(e).__name__)
    if isinstance(e, Add):
        return {"o": "Add", "a": [ser(a) for a in e.args]}
    if isinstance(e, Mul):
        return {"o": "Mul", "a": [ser(a) for a in e.args]}
    if isinstance(e, Pow):
        return {"o": "Pow", "a": [ser(e.base), ser(e.exp)]}
    if not isinstance(e, sp.Expr) and not isinstance(e, sp.Tuple):
        raise Unsupported("node %s" % type(e).__name__)
    if not e.args:
        raise Unsupported("argument-less node %s" % type(e).__name__)
    return {"o": type(e).__name__, "a": [ser(a) for a in e.args]}


def ser_region(d):
    from sympde.topology import Boundary, InteriorDomain, Interface
    if isinstance(d, Boundary):
        return "bnd:%s:%s:%s:%s" % (d.domain.name, d.name, d.axis, d.ext)
    if isinstance(d, Interface):
        raise Unsupported("interface region")
    if isinstance(d, InteriorDomain):
        return "dom:%s" % d.name
    raise Unsupported("region %s" % type(d).__name__)


def integrals_of(expr):
    from sympde.expr.expr import Integral, IntAdd
    if expr == 0:
        return []
    if isinstance(expr, Integral):
        return [expr]
    if isinstance(expr, IntAdd):
        out = []
        for a in expr.args:
            if not isinstance(a, Integral):
                raise Unsupported("non-integral term %s" % type(a).__name__)
            out.append(a)
        return out
    raise Unsupported("form expression %s" % type(expr).__name__)


def ser_body(expr):
    return [[ser_region(i.domain), ser(i.expr)] for i in integrals_of(expr)]


def errkind(e):
    if isinstance(e, TypeError):
        return "type"
    if isinstance(e, ValueError):
        return "value"
    return "other:" + type(e).__name__


# ------------------------------------------------------------------------------------------------ classical evaluator (oracle)
class Conc:
    """Explicit polynomial for every function, rational for every constant, fixed rational normal vector.
    Evaluates c-trees with the classical definitions of the operators (independent of sympde's lowering)."""

    def __init__(self, seed, dim, vec):
        self.rng = random.Random(seed)
        self.dim = dim
        self.vec = dict(vec)
        self.xs = [Symbol(n, real=True) for n in COORDS[:dim]]
        self.polys, self.consts = {}, {}
        self.normal = [Rational(self.rng.randint(1, 5), self.rng.randint(1, 3)) for _ in range(dim)]
        self.override = {}     # ("fun", name) / ("const", name) -> value

    def poly(self):
        """generic polynomial of degree 3: every second derivative, the Laplacian and every first derivative are non-zero"""
        r, xs = self.rng, self.xs
        q = lambda: Rational(r.randint(1, 5), r.randint(1, 2))
        p = Rational(r.randint(1, 4))
        for i, x in enumerate(xs):
            p += q() * x ** 2 + q() * r.choice([1, -1]) * x
            for y in xs[i + 1:]:
                p += q() * r.choice([1, -1]) * x * y
        p += q() * xs[0] * xs[-1] ** 2 + q() * r.choice([1, -1]) * xs[0] ** 2 * xs[1]
        return p

    def fun(self, name, vec):
        key = (name, vec)
        if key not in self.polys:
            self.polys[key] = [self.poly() for _ in range(self.dim)] if vec else self.poly()
        return self.polys[key]

    def const(self, name):
        if name not in self.consts:
            # pairwise distinct values, none of them 0, 1 or an integer used by the generator
            self.consts[name] = Rational(2 * len(self.consts) + 3, 2) + Rational(1, self.rng.randint(3, 9))
        return self.consts[name]

    def point(self):
        return {x: Rational(self.rng.randint(1, 9), self.rng.randint(2, 7)) for x in self.xs}

    # values: ("s", expr) | ("v", [expr]) | ("m", [[expr]])
    def ev(self, t, env):
        if "l" in t:
            l = t["l"]
            if l == "num":
                return ("s", Rational(t["p"], t["q"]))
            if l == "coord":
                return ("s", self.xs[COORDS.index(t["n"])])
            if l == "const":
                if ("const", t["n"]) in env:
                    return env[("const", t["n"])]
                return ("s", self.const(t["n"]))
            if l == "fun":
                if ("fun", t["n"], t["v"]) in env:
                    return env[("fun", t["n"], t["v"])]
                v = self.fun(t["n"], t["v"])
                return ("v", list(v)) if t["v"] else ("s", v)
            if l == "other" and t["c"] == "NormalVector":
                return ("v", list(self.normal))
            raise Unsupported("oracle leaf %s" % json.dumps(t))
        o, args = t["o"], t["a"]
        if o in ("IndexedVectorFunction", "Indexed"):
            b = self.ev(args[0], env)
            i = args[1]
            if b[0] != "v" or i.get("l") != "num":
                raise Unsupported("oracle index")
            return ("s", b[1][i["p"]])
        vals = [self.ev(a, env) for a in args]
        if o == "Add":
            kinds = {v[0] for v in vals}
            if len(kinds) != 1:
                # a scalar zero may be added to anything
                vals = [v for v in vals if not (v[0] == "s" and v[1] == 0)]
                kinds = {v[0] for v in vals}
                if len(kinds) != 1:
                    raise Unsupported("oracle Add of mixed shapes")
            kd = kinds.pop()
            if kd == "s":
                return ("s", sum((v[1] for v in vals), S.Zero))
            if kd == "v":
                return ("v", [sum((v[1][i] for v in vals), S.Zero) for i in range(len(vals[0][1]))])
            return ("m", [[sum((v[1][i][j] for v in vals), S.Zero) for j in range(len(vals[0][1][0]))]
                          for i in range(len(vals[0][1]))])
        if o == "Mul":
            sc = S.One
            rest = []
            for v in vals:
                if v[0] == "s":
                    sc = sc * v[1]
                else:
                    rest.append(v)
            if not rest:
                return ("s", sc)
            if len(rest) > 1:
                raise Unsupported("oracle Mul of two non-scalars")
            r = rest[0]
            if r[0] == "v":
                return ("v", [sc * x for x in r[1]])
            return ("m", [[sc * x for x in row] for row in r[1]])
        if o == "Pow":
            b, e = vals
            if b[0] != "s" or e[0] != "s":
                raise Unsupported("oracle Pow shape")
            return ("s", b[1] ** e[1])
        d = {"dx1": 0, "dx2": 1, "dx3": 2}
        if o in d:
            x = self.xs[d[o]]
            v = vals[0]
            if v[0] == "s":
                return ("s", sp.diff(v[1], x))
            if v[0] == "v":
                return ("v", [sp.diff(c, x) for c in v[1]])
            raise Unsupported("oracle d of matrix")
        if o == "Grad":
            v = vals[0]
            if v[0] == "s":
                return ("v", [sp.diff(v[1], x) for x in self.xs])
            if v[0] == "v":     # entry (i, j) = d_i F_j
                return ("m", [[sp.diff(c, x) for c in v[1]] for x in self.xs])
            raise Unsupported("oracle Grad of matrix")
        if o == "Div":
            v = vals[0]
            if v[0] != "v":
                raise Unsupported("oracle Div shape")
            return ("s", sum((sp.diff(c, x) for c, x in zip(v[1], self.xs)), S.Zero))
        if o == "Laplace":
            v = vals[0]
            if v[0] == "s":
                return ("s", sum((sp.diff(v[1], x, 2) for x in self.xs), S.Zero))
            if v[0] == "v":
                return ("v", [sum((sp.diff(c, x, 2) for x in self.xs), S.Zero) for c in v[1]])
            raise Unsupported("oracle Laplace shape")
        if o == "Curl":
            v = vals[0]
            if v[0] != "v":
                raise Unsupported("oracle Curl shape")
            F, X = v[1], self.xs
            if self.dim == 2:
                return ("s", sp.diff(F[1], X[0]) - sp.diff(F[0], X[1]))
            return ("v", [sp.diff(F[2], X[1]) - sp.diff(F[1], X[2]),
                          sp.diff(F[0], X[2]) - sp.diff(F[2], X[0]),
                          sp.diff(F[1], X[0]) - sp.diff(F[0], X[1])])
        if o in ("Dot", "Inner"):
            a, b = vals
            if a[0] == "v" and b[0] == "v":
                return ("s", sum((x * y for x, y in zip(a[1], b[1])), S.Zero))
            if a[0] == "m" and b[0] == "m" and o == "Inner":
                return ("s", sum((x * y for ra, rb in zip(a[1], b[1]) for x, y in zip(ra, rb)), S.Zero))
            if a[0] == "s" and b[0] == "s":
                return ("s", a[1] * b[1])
            raise Unsupported("oracle %s shapes %s %s" % (o, a[0], b[0]))
        if o == "Cross":
            a, b = vals
            if a[0] == "v" and b[0] == "v" and self.dim == 3:
                A, B = a[1], b[1]
                return ("v", [A[1] * B[2] - A[2] * B[1], A[2] * B[0] - A[0] * B[2], A[0] * B[1] - A[1] * B[0]])
            if a[0] == "v" and b[0] == "v" and self.dim == 2:
                A, B = a[1], b[1]
                return ("s", A[0] * B[1] - A[1] * B[0])
            raise Unsupported("oracle Cross shapes")
        raise Unsupported("oracle operator %s" % o)

    def at(self, val, pt):
        if val[0] != "s":
            raise Unsupported("integrand is not scalar")
        r = sp.sympify(val[1]).xreplace(pt)
        if not r.is_Rational:
            r = sp.nsimplify(r) if r.is_number else r
        return r


def eval_body(conc, body, env, pts):
    """{region: [exact values at pts]}; regions with the same name are added."""
    out = {}
    for reg, t in body:
        v = conc.ev(t, env)
        vals = [conc.at(v, p) for p in pts]
        if reg in out:
            out[reg] = [a + b for a, b in zip(out[reg], vals)]
        else:
            out[reg] = vals
    return out


def exact_integral(conc, body, env):
    """Exact integral over the unit cube / its faces of a polynomial integrand (None if not polynomial)."""
    tot = S.Zero
    for reg, t in body:
        v = conc.ev(t, env)
        if v[0] != "s":
            raise Unsupported("integrand is not scalar")
        p = sp.sympify(v[1])
        xs = list(conc.xs)
        if reg.startswith("bnd:"):
            axis, ext = [int(x) for x in reg.split(":")[-2:]]
            p = p.xreplace({xs[axis]: S.Zero if ext == -1 else S.One})
            xs = xs[:axis] + xs[axis + 1:]
        try:
            poly = sp.Poly(p, *xs)
        except Exception:  # noqa  (not a polynomial in the coordinates)
            return None
        for mon, co in poly.terms():
            if not co.is_Rational:
                return None
            for n in mon:
                co = co / (n + 1)
            tot += co
    return tot


def strs(vals):
    return {k: [str(x) for x in v] for k, v in vals.items()}


def is_zero(x):
    x = sp.sympify(x)
    if x.is_Rational:
        return x == 0
    return sp.simplify(x) == 0


def same_values(a, b):
    keys = set(a) | set(b)
    for k in keys:
        va = a.get(k)
        vb = b.get(k)
        if va is None:
            va = [S.Zero] * len(vb)
        if vb is None:
            vb = [S.Zero] * len(va)
        if any(not is_zero(x - y) for x, y in zip(va, vb)):
            return False
    return True


# ------------------------------------------------------------------------------------------------ canonical form of c-trees (oracle side)
COMM = ("Add", "Mul", "Dot", "Inner")


def canon(t):
    if "l" in t:
        return t
    a = [canon(x) for x in t["a"]]
    if t["o"] in COMM:
        a = sorted(a, key=lambda x: json.dumps(x, sort_keys=True))
    return {"o": t["o"], "a": a}


def canon_body(body):
    return sorted(([r, canon(t)] for r, t in body), key=lambda x: json.dumps(x, sort_keys=True))


# ------------------------------------------------------------------------------------------------ lowering (level-2 correspondence)
def lowered(expr, w):
    """{"body": [[region, sx-json or None]]} of TerminalExpr(integrand); an entry is None when the lowering or its
    serialisation is not available for that integrand."""
    from sympde.expr import TerminalExpr
    import ser as S1
    out = []
    try:
        ints = integrals_of(expr)
    except Exception as e:  # noqa
        return {"none": "%s: %s" % (type(e).__name__, str(e)[:120])}
    for i in ints:
        try:
            out.append([ser_region(i.domain), S1.ser_sx(TerminalExpr(i.expr, w.domain))])
        except Exception as e:  # noqa
            out.append([ser_region(i.domain), None])
    return {"body": out}


# ------------------------------------------------------------------------------------------------ one case
def swap_roles(g, m):
    if g["k"] == "fun":
        return {"k": "fun", "n": m.get(g["n"], g["n"])}
    out = dict(g)
    if "a" in g:
        out["a"] = [swap_roles(x, m) for x in g["a"]]
    if "b" in g:
        out["b"] = swap_roles(g["b"], m)
    if "of" in g:
        out["of"] = swap_roles(g["of"], m)
    return out


def build_form(case, w, integrals):
    from sympde.expr import BilinearForm, LinearForm, integral
    expr = None
    for it in integrals:
        term = integral(w.region(it["region"]), build(it["e"], w))
        expr = term if expr is None else expr + term
    tr = [w.fun(n) for n in case["trials"]]
    te = [w.fun(n) for n in case["tests"]]
    pack = lambda l: l[0] if (len(l) == 1 and not case.get("tuple_args")) else tuple(l)
    info = {"check_linearity": True}
    try:
        if case["kind"] == "bilinear":
            form = BilinearForm((pack(tr), pack(te)), expr)
        else:
            form = LinearForm(pack(te), expr)
    except Exception as e:  # noqa
        if type(e).__name__ != "UnconsistentLinearExpressionError":
            raise
        info = {"check_linearity": False}
        if case["kind"] == "bilinear":
            form = BilinearForm((pack(tr), pack(te)), expr, check_linearity=False)
        else:
            form = LinearForm(pack(te), expr, check_linearity=False)
    return form, info


def build_parg(p, w):
    if "seq" in p:
        items = [build(x, w) for x in p["seq"]]
        if p.get("as") == "list":
            return list(items)
        if p.get("as") == "Tuple":
            return sp.Tuple(*items)
        return tuple(items)
    return build(p["val"], w)


def ser_parg(obj):
    if isinstance(obj, (tuple, list, sp.Tuple)):
        return {"seq": [ser(x) for x in obj]}
    return {"val": ser(obj)}


def run_case(case):
    import sympy.core.cache
    sympy.core.cache.clear_cache()
    w = World(case)
    form, info = build_form(case, w, case["integrals"])
    res = {"info": info}
    if not hasattr(form, "variables"):
        res["form"] = {"zero": True}
        return res
    if case["kind"] == "bilinear":
        trials = [ser(x) for x in form.variables[0]]
        tests = [ser(x) for x in form.variables[1]]
    else:
        trials, tests = [], [ser(x) for x in form.variables]
    body = ser_body(form.expr)
    res["form"] = {"trials": trials, "tests": tests, "body": body}
    res["free"] = {"fields": sorted(x.name for x in form.fields), "consts": sorted(x.name for x in form.constants)}
    res["lowered"] = lowered(form.expr, w)
    conc = Conc(case["seed"], case["dim"], case["functions"])
    pts = [conc.point() for _ in range(2)]
    varnames = case["trials"] + case["tests"]

    # ---- symmetry flag (bilinear only) and what exchange really does to the value
    if case["kind"] == "bilinear":
        sym = {}
        try:
            sym["flag"] = bool(form.is_symmetric)
        except Exception as e:  # noqa
            sym["flag_err"] = errkind(e)
        kinds_tr = [w.vec[n] for n in case["trials"]]
        kinds_te = [w.vec[n] for n in case["tests"]]
        if kinds_tr == kinds_te:
            try:
                base = eval_body(conc, body, {}, pts)
                env = {}
                for a, b in zip(case["trials"], case["tests"]):
                    va = conc.ev({"l": "fun", "n": a, "v": w.vec[a]}, {})
                    vb = conc.ev({"l": "fun", "n": b, "v": w.vec[b]}, {})
                    env[("fun", a, w.vec[a])] = vb
                    env[("fun", b, w.vec[b])] = va
                exch = eval_body(conc, body, env, pts)
                sym["pointwise_symmetric"] = same_values(base, exch)
                if not sym["pointwise_symmetric"]:
                    i1 = exact_integral(conc, body, {})
                    i2 = exact_integral(conc, body, env)
                    sym["integral_changes"] = None if (i1 is None or i2 is None) else bool(sp.simplify(i1 - i2) != 0)
                    sym["values"] = [strs(base), strs(exch)]
            except Unsupported as e:
                sym["oracle_unsupported"] = str(e)
        else:
            sym["exchangeable"] = False
        res["sym"] = sym

    # ---- calls
    res["calls"] = []
    for call in case["calls"]:
        out = {"id": call["id"]}
        res["calls"].append(out)
        try:
            pos = [build_parg(p, w) for p in call["pos"]]
            kw = [(n, build(v, w)) for n, v in call["kw"]]
            out["pos"] = [ser_parg(p) for p in pos]
            out["kw"] = [[n, ser(v)] for n, v in kw]
        except Exception as e:  # noqa
            out["build_err"] = traceback.format_exc()[-600:]
            continue
        try:
            r = form(*pos, **dict(kw))
        except Exception as e:  # noqa
            out["err"] = errkind(e)
            out["msg"] = str(e)[:200]
            continue
        try:
            out["body"] = ser_body(r)
        except Unsupported as e:
            out["unsupported"] = str(e)
            continue
        if call.get("kind") == "own":
            try:
                out["eq_self"] = bool(r == form.expr)
            except Exception as e:  # noqa
                out["eq_self"] = False
                out["eq_self_err"] = errkind(e)
        if call.get("lower"):
            out["lowered"] = lowered(r, w)
        # (iv) numeric instantiation: result vs original evaluated at the substituted arguments, simultaneously
        orc = {}
        out["oracle"] = orc
        try:
            values = flat_values(case, call, out)
            if values is None:
                orc["skipped"] = "arity"
            else:
                free = res["free"]

                def key_of(n):
                    if n in free["consts"]:
                        return ("const", n)
                    if n in free["fields"]:
                        return ("fun", n, w.vec[n])
                    return ("not-free", n)        # binds nothing: the name is not a free symbol of the form
                # simultaneous: every replacement is evaluated in the caller's environment
                env = {}
                for name, t in values:
                    env[("fun", name, w.vec[name])] = conc.ev(t, {})
                for n, t in out["kw"]:
                    env[key_of(n)] = conc.ev(t, {})
                exp = eval_body(conc, body, env, pts)
                got = eval_body(conc, out["body"], {}, pts)
                orc["ok"] = same_values(exp, got)
                if not orc["ok"]:
                    orc["expected"], orc["got"] = strs(exp), strs(got)
                    orc["points"] = [{str(k): str(v) for k, v in p.items()} for p in pts]
                    # what one-substitution-after-the-other predicts (keywords in order, then the arguments)
                    senv = {}
                    for name, t in values:
                        senv[("fun", name, w.vec[name])] = conc.ev(t, {})
                    for n, t in reversed(out["kw"]):
                        senv2 = dict(senv)
                        senv2[key_of(n)] = conc.ev(t, senv)
                        senv = senv2
                    orc["sequential_predicts_got"] = same_values(eval_body(conc, body, senv, pts), got)
        except Unsupported as e:
            orc["unsupported"] = str(e)
        # (ii) exchange: the form built directly with exchanged roles
        if call.get("direct"):
            try:
                m = dict(call["direct"])
                ints = [{"region": it["region"], "e": swap_roles(it["e"], m)} for it in case["integrals"]]
                form2, _ = build_form(case, w, ints)
                b2 = ser_body(form2.expr) if hasattr(form2, "expr") else []
                out["direct_body"] = b2
                out["direct_same"] = canon_body(b2) == canon_body(out["body"])
                if not out["direct_same"]:
                    out["direct_numeric"] = same_values(eval_body(conc, b2, {}, pts), eval_body(conc, out["body"], {}, pts))
            except Unsupported as e:
                out["direct_unsupported"] = str(e)
            except Exception as e:  # noqa
                out["direct_err"] = traceback.format_exc()[-600:]
    return res


def flat_values(case, call, out):
    """[(variable name, c-tree of its value)] when the call supplies exactly one value per declared variable."""
    pos = out["pos"]
    aslist = lambda p: p["seq"] if "seq" in p else [p["val"]]
    if case["kind"] == "bilinear":
        if len(pos) != 2:
            return None
        tr, te = aslist(pos[0]), aslist(pos[1])
        if len(tr) != len(case["trials"]) or len(te) != len(case["tests"]):
            return None
        vals = tr + te
    else:
        vals = aslist(pos[0]) if len(pos) == 1 else [p.get("val") for p in pos]
        if len(vals) != len(case["tests"]) or any(v is None for v in vals):
            return None
    return list(zip(case["trials"] + case["tests"], vals))


def main():
    payload = json.load(open(sys.argv[1]))
    res = []
    for case in payload["cases"]:
        try:
            res.append(run_case(case))
        except Exception as e:  # noqa
            res.append({"crash": traceback.format_exc()[-2000:]})
    json.dump({"results": res}, open(sys.argv[2], "w"))


if __name__ == "__main__":
    main()
