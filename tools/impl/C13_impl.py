"""Implementation side of C13 (and the domain builder shared with C15): drives the real
sympde Domain.join / get_boundary / get_subdomain / corners / Mapping on JSON cases.

input : {"cases":[case..]}   (grammar: tools/props/C13.py, docstring of gen_case)
output: {"ci_canonical": bool, "results":[{"patches":[dom..], "pre":R?, "join":R, "getb":[R..], "sub":[R..], "corners":R?,
                     "rot":[R..], "adj":[R..], "links":{..}} | {"crash":trace}]}
corners: [[ [patch, [coordinates], [[patch,axis,ext],[patch,axis,ext]]] per CornerBoundary ] per CornerInterface]
         in the order of the Union / of the arguments
corner_pops: [[face, face]..] the corners taken by not_treated_corners.pop(), in order
rot    : Boundary.rotate( *dirs ) of the face (patch index, axis, ext)       (queries.rot = [[i,axis,ext,[dir..]]..])
adj    : Boundary.adjacent_boundaries of the face (patch index, axis, ext)   (queries.adj = [[i,axis,ext]..])
igetb  : NCubeInterior.get_boundary(axis, ext) on the interior of a patch    (queries.igetb = [[i,axis,ext]..])
cbn    : CornerBoundary(face of patch i, face of patch j): its arguments     (queries.cbn = [[i,axis,ext,j,axis,ext]..])
R     : {"ok": value} | {"err": kind}
dom   : {"name","dim","cls","interiors":[{"name","cls","lname","map","min","max","dtype","is_interior"}],
         "boundary":[[patch,axis,ext,gname]..], "conn":[iface..] (dict order), "interfaces":[iface..] (Union order),
         "mapping": null|{"single":m}|{"multi":[[lname,m]..]}, "logical": dom|null}
iface : {"name","minus":[patch,axis,ext],"plus":[patch,axis,ext],"ornt": null|int|[a,b,c]}
"""
import json
import signal
import sys
import traceback


def errkind(e):
    for cls, k in ((AssertionError, "EAssert"), (UnboundLocalError, "EUnbound"), (NotImplementedError, "ENotImplemented"),
                   (IndexError, "EIndex"), (KeyError, "EKey"), (ValueError, "EValue"), (TypeError, "EType"),
                   (AttributeError, "EAttr"), (NameError, "EName")):
        if isinstance(e, cls):
            return k
    return "other:" + type(e).__name__


def as_list(u):
    from sympde.topology.basic import Union
    if u is None:
        return []
    if isinstance(u, Union):
        return list(u.args)
    return [u]


def enc_face(b):
    return [str(b.domain.name), int(b.axis), int(b.ext), str(b.name)]


def enc_ornt(o):
    if o is None:
        return None
    if isinstance(o, (tuple, list)) or type(o).__name__ == "Tuple":
        return [int(x) for x in o]
    return int(o)


def enc_iface(i):
    return {"name": str(i.name), "minus": enc_face(i.minus)[:3], "plus": enc_face(i.plus)[:3],
            "ornt": enc_ornt(i.ornt)}


def enc_interior(i):
    from sympde.topology.basic import InteriorDomain
    ld = getattr(i, "logical_domain", None)
    mp = getattr(i, "mapping", None)
    mn = getattr(i, "min_coords", None)
    mx = getattr(i, "max_coords", None)
    return {"name": str(i.name), "cls": type(i).__name__, "is_interior": isinstance(i, InteriorDomain),
            "lname": str(ld.name) if ld is not None else None,
            "map": str(mp.name) if mp is not None else None,
            "dim": int(i.dim),
            "min": [float(x).hex() for x in mn] if mn is not None else None,
            "max": [float(x).hex() for x in mx] if mx is not None else None,
            "dtype": getattr(i, "dtype", None)}


def enc_mapping(m):
    if m is None:
        return None
    if type(m).__name__ == "MultiPatchMapping":
        return {"multi": [[str(k.name), str(v.name)] for k, v in m.mappings.items()]}
    return {"single": str(m.name)}


def enc_domain(D, depth=0):
    from sympde.topology.domain import Domain
    from sympde.topology.basic import InteriorDomain
    if D is None:
        return None
    if isinstance(D, InteriorDomain) and not isinstance(D, Domain):
        # the logical_domain of a sub-domain made of one mapped patch is the bare logical interior:
        # serialised as the equivalent one-patch domain
        return {"name": str(D.name), "dim": int(D.dim), "cls": type(D).__name__,
                "interiors": [enc_interior(D)], "boundary": [enc_face(b) for b in as_list(D.boundary)],
                "conn": [], "interfaces": [], "mapping": None, "logical": None, "bare_interior": True}
    out = {"name": str(D.name), "dim": int(D.dim), "cls": type(D).__name__,
           "interiors": [enc_interior(i) for i in as_list(D.interior)],
           "boundary": [enc_face(b) for b in as_list(D.boundary)],
           "conn": [enc_iface(v) for v in D.connectivity._data.values()],
           "conn_keys": [str(k) for k in D.connectivity._data.keys()],
           "interfaces": [enc_iface(v) for v in as_list(D.interfaces)],
           "mapping": enc_mapping(D.mapping),
           "logical": enc_domain(D.logical_domain, depth + 1) if depth < 2 else None}
    return out


def twin_links(D):
    """object-level links physical -> logical: what .logical_domain of every face / interface points to"""
    out = {"faces": [], "ifaces": []}
    for b in as_list(D.boundary):
        ld = b.logical_domain
        out["faces"].append([enc_face(b)[:3], enc_face(ld)[:3] if ld is not None else None])
    for i in as_list(D.interfaces):
        for side in (i.minus, i.plus):
            ld = side.logical_domain
            out["faces"].append([enc_face(side)[:3], enc_face(ld)[:3] if ld is not None else None])
        ld = i.logical_domain
        out["ifaces"].append([str(i.name), enc_iface(ld) if ld is not None else None])
    return out


def build_patch(spec, cache):
    """spec: {"name","dim","min":[..],"max":[..],"map":null|str}; bounds are numbers or hex strings"""
    from sympde.topology import Line, Square, Cube, Mapping
    from sympde.topology.domain import NCube

    def num(x):
        if isinstance(x, str):
            return float.fromhex(x)
        return x
    mn = [num(x) for x in spec["min"]]
    mx = [num(x) for x in spec["max"]]
    d = spec["dim"]
    if d == 1:
        P = Line(spec["name"], bounds=(mn[0], mx[0]))
    elif d == 2:
        P = Square(spec["name"], bounds1=(mn[0], mx[0]), bounds2=(mn[1], mx[1]))
    elif d == 3:
        P = Cube(spec["name"], bounds1=(mn[0], mx[0]), bounds2=(mn[1], mx[1]), bounds3=(mn[2], mx[2]))
    else:
        P = NCube(spec["name"], d, tuple(mn), tuple(mx))
    if spec.get("map"):
        key = (spec["map"], d)
        if key not in cache:
            cache[key] = Mapping(spec["map"], dim=d)
        P = cache[key](P)
    return P


def build_join(case, patches):
    from sympde.topology import Domain
    byobj = case.get("byobj", False)
    conns = []
    for k, c in enumerate(case["conns"]):
        sides = []
        for s, key in ((c["m"], "m"), (c["p"], "p")):
            obj = byobj
            if c.get("mix") == key:
                obj = not obj
            ref = s[0]
            if obj:
                ref = patches[ref] if 0 <= ref < len(patches) else ref
            sides.append((ref, s[1], s[2]))
        o = c.get("o", None)
        if o is None:
            conns.append((sides[0], sides[1]))
        else:
            conns.append((sides[0], sides[1], tuple(o) if isinstance(o, list) else o))
    plist = [patches[i] for i in case["plist"]] if "plist" in case else list(patches)
    # joining must not alter its inputs (the same connectivity list may be used for another set of patches):
    # element-wise identity / equality of the two lists before and after the call
    snap_c = list(conns)          # the entries are immutable tuples: identity of every entry is the test
    snap_p = list(plist)
    D = Domain.join(plist, conns, case["name"])
    same_c = len(conns) == len(snap_c) and all(x is y for x, y in zip(conns, snap_c))
    same_p = len(plist) == len(snap_p) and all(a is b for a, b in zip(plist, snap_p))
    if not (same_c and same_p):
        raise InputsAltered("connectivity" if not same_c else "patches")
    return D


class Timeout(Exception):
    pass


class InputsAltered(Exception):
    """Domain.join changed the list of patches / connectivity entries it was given"""


def _alarm(signum, frame):
    raise Timeout()


def guarded(f, enc):
    try:
        return {"ok": enc(f())}
    except Timeout:
        return {"err": "timeout"}
    except Exception as e:  # noqa
        return {"err": errkind(e), "msg": str(e)[:120]}


def enc_corners(cs):
    out = []
    for ci in as_list(cs):
        out.append([[str(c.domain.name), [None if x is None else int(x) for x in c.coordinates],
                     [enc_face(b)[:3] for b in c.boundaries]] for c in ci.corners])
    return out


def dir_value(o):
    return tuple(o) if isinstance(o, list) else o


def corners_with_pops(D, pops):
    """D.corners; `pops` receives the corners handed out by `not_treated_corners.pop()`, in order (read off the local
    variable `corner` of Domain.get_shared_corners with a line trace: nothing in the code under test is changed)"""
    import inspect
    from sympde.topology.domain import Domain
    code = Domain.get_shared_corners.__code__
    try:
        src, first = inspect.getsourcelines(Domain.get_shared_corners)
        poplines = {first + k for k, l in enumerate(src) if "not_treated_corners.pop()" in l}
    except Exception:  # noqa
        poplines = set()
    state = {"prev": None}

    def local(frame, event, arg):
        if event == "line":
            if state["prev"] in poplines:
                c = frame.f_locals.get("corner")
                try:
                    pops.append([enc_face(c[0])[:3], enc_face(c[1])[:3]])
                except Exception:  # noqa
                    pops.append(None)
            state["prev"] = frame.f_lineno
        return local

    def tracer(frame, event, arg):
        if event == "call" and frame.f_code is code:
            state["prev"] = None
            return local
        return None
    old = sys.gettrace()
    sys.settrace(tracer)
    try:
        return D.corners
    finally:
        sys.settrace(old)


def run_case(case):
    from sympy.core.cache import clear_cache
    from sympde.topology import Mapping
    clear_cache()
    cache = {}
    patches = [build_patch(s, cache) for s in case["patches"]]
    out = {"patches": [enc_domain(p) for p in patches]}
    holder = {}

    def do_join():
        J = build_join(case, patches)
        if case.get("mapjoined"):
            holder["pre"] = J
            J = Mapping(case["mapjoined"], dim=case["dim"])(J)
        holder["D"] = J
        return J
    out["join"] = guarded(do_join, enc_domain)
    if "pre" in holder:
        out["pre"] = {"ok": enc_domain(holder["pre"])}
    D = holder.get("D")
    out["getb"], out["sub"] = [], []
    q = case.get("queries", {})
    # Boundary.rotate / Boundary.adjacent_boundaries on faces of the single patches
    out["rot"], out["adj"] = [], []
    for i, a, e, dirs in q.get("rot", []):
        out["rot"].append(guarded(lambda: patches[i].get_boundary(axis=a, ext=e).rotate(*[dir_value(o) for o in dirs]),
                                  lambda b: enc_face(b)))
    out["igetb"], out["cbn"] = [], []
    for i, a, e, j, a2, e2 in q.get("cbn", []):
        from sympde.topology.basic import CornerBoundary
        out["cbn"].append(guarded(lambda: CornerBoundary(patches[i].get_boundary(axis=a, ext=e),
                                                         patches[j].get_boundary(axis=a2, ext=e2)),
                                  lambda c: [enc_face(b) for b in c.boundaries]))
    for i, a, e in q.get("igetb", []):
        out["igetb"].append(guarded(lambda: patches[i].interior.get_boundary(axis=a, ext=e), lambda b: enc_face(b)))
    for i, a, e in q.get("adj", []):
        out["adj"].append(guarded(lambda: as_list(patches[i].get_boundary(axis=a, ext=e).adjacent_boundaries),
                                  lambda l: [enc_face(b) for b in l]))
    if D is not None:
        out["links"] = twin_links(D)
        for tgt, a, e in q.get("getb", []):
            obj = D if tgt < 0 else patches[tgt]
            out["getb"].append(guarded(lambda: obj.get_boundary(axis=a, ext=e), lambda b: enc_face(b)))
        for sel in q.get("sub", []):
            s = tuple(sel["t"]) if "t" in sel else sel["s"]

            def enc_sub(S):
                if S is None:
                    return None
                d = enc_domain(S)
                d["is_self"] = S is D
                return d
            out["sub"].append(guarded(lambda: D.get_subdomain(s), enc_sub))
        if q.get("corners"):
            signal.signal(signal.SIGALRM, _alarm)
            signal.alarm(10)
            pops = []
            # pre-history: the corners of a near-equal domain - same name, same patches, same joined faces, the
            # OPPOSITE orientation on every connection (Domain equality ignores the connectivity) - asked for first in
            # the same interpreter; the answer for D must not depend on it
            if case.get("dim") == 2 and case.get("conns") and not case.get("mapjoined"):
                try:
                    twin = dict(case)
                    twin["conns"] = [dict(c, o=(-c["o"] if isinstance(c.get("o"), int) else -1)) for c in case["conns"]]
                    build_join(twin, patches).corners
                except Exception:  # noqa
                    pass
                except Timeout:
                    pass
            try:
                out["corners"] = guarded(lambda: corners_with_pops(D, pops), enc_corners)
            finally:
                signal.alarm(0)
            out["corner_pops"] = pops
    return out


def probe_ci_canonical():
    """does CornerInterface put two corners of the SAME patch in an order of its own (True), or does it keep the
    order of its arguments (False: the code before "fix: the corners of a CornerInterface are in a canonical order")"""
    try:
        from sympde.topology import Square
        from sympde.topology.basic import CornerBoundary, CornerInterface
        A = Square('A')
        c1 = CornerBoundary(A.get_boundary(axis=0, ext=-1), A.get_boundary(axis=1, ext=-1))
        c2 = CornerBoundary(A.get_boundary(axis=0, ext=1), A.get_boundary(axis=1, ext=-1))
        return CornerInterface(c1, c2).args == CornerInterface(c2, c1).args
    except Exception:  # noqa
        return None


def main():
    payload = json.load(open(sys.argv[1]))
    res = []
    for case in payload["cases"]:
        try:
            res.append(run_case(case))
        except Exception:  # noqa
            res.append({"crash": traceback.format_exc()})
    json.dump({"results": res, "ci_canonical": probe_ci_canonical()}, open(sys.argv[2], "w"))


if __name__ == "__main__":
    main()
