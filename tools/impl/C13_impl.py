"""Implementation side of C13 (and the domain builder shared with C15): drives the real
sympde Domain.join / get_boundary / get_subdomain / corners / Mapping on JSON cases.

input : {"cases":[case..]}   (grammar: tools/props/C13.py, docstring of gen_case)
output: {"results":[{"patches":[dom..], "pre":R?, "join":R, "getb":[R..], "sub":[R..], "corners":R?,
                     "links":{..}} | {"crash":trace}]}
R     : {"ok": value} | {"err": kind}
dom   : {"name","dim","cls","interiors":[{"name","cls","lname","map","min","max","dtype","is_interior"}],
         "boundary":[[patch,axis,ext,gname]..], "conn":[iface..] (dict order), "interfaces":[iface..] (Union order),
         "mapping": null|{"single":m}|{"multi":[[lname,m]..]}, "logical": dom|null}
iface : {"name","minus":[patch,axis,ext],"plus":[patch,axis,ext],"ornt": null|int|[a,b,c]}
"""
import json
import signal
import sys
import traceback


def errkind(e):
    for cls, k in ((AssertionError, "EAssert"), (UnboundLocalError, "EUnbound"), (NotImplementedError, "ENotImplemented"),
                   (IndexError, "EIndex"), (KeyError, "EKey"), (ValueError, "EValue"), (TypeError, "EType"),
                   (AttributeError, "EAttr"), (NameError, "EName")):
        if isinstance(e, cls):
            return k
    return "other:" + type(e).__name__


def as_list(u):
    from sympde.topology.basic import Union
    if u is None:
        return []
    if isinstance(u, Union):
        return list(u.args)
    return [u]


def enc_face(b):
    return [str(b.domain.name), int(b.axis), int(b.ext), str(b.name)]


def enc_ornt(o):
    if o is None:
        return None
    if isinstance(o, (tuple, list)) or type(o).__name__ == "Tuple":
        return [int(x) for x in o]
    return int(o)


def enc_iface(i):
    return {"name": str(i.name), "minus": enc_face(i.minus)[:3], "plus": enc_face(i.plus)[:3],
            "ornt": enc_ornt(i.ornt)}


def enc_interior(i):
    from sympde.topology.basic import InteriorDomain
    ld = getattr(i, "logical_domain", None)
    mp = getattr(i, "mapping", None)
    mn = getattr(i, "min_coords", None)
    mx = getattr(i, "max_coords", None)
    return {"name": str(i.name), "cls": type(i).__name__, "is_interior": isinstance(i, InteriorDomain),
            "lname": str(ld.name) if ld is not None else None,
            "map": str(mp.name) if mp is not None else None,
            "dim": int(i.dim),
            "min": [float(x).hex() for x in mn] if mn is not None else None,
            "max": [float(x).hex() for x in mx] if mx is not None else None,
            "dtype": getattr(i, "dtype", None)}


def enc_mapping(m):
    if m is None:
        return None
    if type(m).__name__ == "MultiPatchMapping":
        return {"multi": [[str(k.name), str(v.name)] for k, v in m.mappings.items()]}
    return {"single": str(m.name)}


def enc_domain(D, depth=0):
    from sympde.topology.domain import Domain
    from sympde.topology.basic import InteriorDomain
    if D is None:
        return None
    if isinstance(D, InteriorDomain) and not isinstance(D, Domain):
        # the logical_domain of a sub-domain made of one mapped patch is the bare logical interior:
        # serialised as the equivalent one-patch domain
        return {"name": str(D.name), "dim": int(D.dim), "cls": type(D).__name__,
                "interiors": [enc_interior(D)], "boundary": [enc_face(b) for b in as_list(D.boundary)],
                "conn": [], "interfaces": [], "mapping": None, "logical": None, "bare_interior": True}
    out = {"name": str(D.name), "dim": int(D.dim), "cls": type(D).__name__,
           "interiors": [enc_interior(i) for i in as_list(D.interior)],
           "boundary": [enc_face(b) for b in as_list(D.boundary)],
           "conn": [enc_iface(v) for v in D.connectivity._data.values()],
           "conn_keys": [str(k) for k in D.connectivity._data.keys()],
           "interfaces": [enc_iface(v) for v in as_list(D.interfaces)],
           "mapping": enc_mapping(D.mapping),
           "logical": enc_domain(D.logical_domain, depth + 1) if depth < 2 else None}
    return out


def twin_links(D):
    """object-level links physical -> logical: what .logical_domain of every face / interface points to"""
    out = {"faces": [], "ifaces": []}
    for b in as_list(D.boundary):
        ld = b.logical_domain
        out["faces"].append([enc_face(b)[:3], enc_face(ld)[:3] if ld is not None else None])
    for i in as_list(D.interfaces):
        for side in (i.minus, i.plus):
            ld = side.logical_domain
            out["faces"].append([enc_face(side)[:3], enc_face(ld)[:3] if ld is not None else None])
        ld = i.logical_domain
        out["ifaces"].append([str(i.name), enc_iface(ld) if ld is not None else None])
    return out


def build_patch(spec, cache):
    """spec: {"name","dim","min":[..],"max":[..],"map":null|str}; bounds are numbers or hex strings"""
    from sympde.topology import Line, Square, Cube, Mapping
    from sympde.topology.domain import NCube

    def num(x):
        if isinstance(x, str):
            return float.fromhex(x)
        return x
    mn = [num(x) for x in spec["min"]]
    mx = [num(x) for x in spec["max"]]
    d = spec["dim"]
    if d == 1:
        P = Line(spec["name"], bounds=(mn[0], mx[0]))
    elif d == 2:
        P = Square(spec["name"], bounds1=(mn[0], mx[0]), bounds2=(mn[1], mx[1]))
    elif d == 3:
        P = Cube(spec["name"], bounds1=(mn[0], mx[0]), bounds2=(mn[1], mx[1]), bounds3=(mn[2], mx[2]))
    else:
        P = NCube(spec["name"], d, tuple(mn), tuple(mx))
    if spec.get("map"):
        key = (spec["map"], d)
        if key not in cache:
            cache[key] = Mapping(spec["map"], dim=d)
        P = cache[key](P)
    return P


def build_join(case, patches):
    from sympde.topology import Domain
    byobj = case.get("byobj", False)
    conns = []
    for k, c in enumerate(case["conns"]):
        sides = []
        for s, key in ((c["m"], "m"), (c["p"], "p")):
            obj = byobj
            if c.get("mix") == key:
                obj = not obj
            ref = s[0]
            if obj:
                ref = patches[ref] if 0 <= ref < len(patches) else ref
            sides.append((ref, s[1], s[2]))
        o = c.get("o", None)
        if o is None:
            conns.append((sides[0], sides[1]))
        else:
            conns.append((sides[0], sides[1], tuple(o) if isinstance(o, list) else o))
    plist = [patches[i] for i in case["plist"]] if "plist" in case else list(patches)
    # joining must not alter its inputs (the same connectivity list may be used for another set of patches):
    # element-wise identity / equality of the two lists before and after the call
    snap_c = list(conns)          # the entries are immutable tuples: identity of every entry is the test
    snap_p = list(plist)
    D = Domain.join(plist, conns, case["name"])
    same_c = len(conns) == len(snap_c) and all(x is y for x, y in zip(conns, snap_c))
    same_p = len(plist) == len(snap_p) and all(a is b for a, b in zip(plist, snap_p))
    if not (same_c and same_p):
        raise InputsAltered("connectivity" if not same_c else "patches")
    return D


class Timeout(Exception):
    pass


class InputsAltered(Exception):
    """Domain.join changed the list of patches / connectivity entries it was given"""


def _alarm(signum, frame):
    raise Timeout()


def guarded(f, enc):
    try:
        return {"ok": enc(f())}
    except Timeout:
        return {"err": "timeout"}
    except Exception as e:  # noqa
        return {"err": errkind(e), "msg": str(e)[:120]}


def enc_corners(cs):
    out = []
    for ci in as_list(cs):
        out.append([[str(c.domain.name), [int(x) for x in c.coordinates]] for c in ci.corners])
    return out


def run_case(case):
    from sympy.core.cache import clear_cache
    from sympde.topology import Mapping
    clear_cache()
    cache = {}
    patches = [build_patch(s, cache) for s in case["patches"]]
    out = {"patches": [enc_domain(p) for p in patches]}
    holder = {}

    def do_join():
        J = build_join(case, patches)
        if case.get("mapjoined"):
            holder["pre"] = J
            J = Mapping(case["mapjoined"], dim=case["dim"])(J)
        holder["D"] = J
        return J
    out["join"] = guarded(do_join, enc_domain)
    if "pre" in holder:
        out["pre"] = {"ok": enc_domain(holder["pre"])}
    D = holder.get("D")
    out["getb"], out["sub"] = [], []
    q = case.get("queries", {})
    if D is not None:
        out["links"] = twin_links(D)
        for tgt, a, e in q.get("getb", []):
            obj = D if tgt < 0 else patches[tgt]
            out["getb"].append(guarded(lambda: obj.get_boundary(axis=a, ext=e), lambda b: enc_face(b)))
        for sel in q.get("sub", []):
            s = tuple(sel["t"]) if "t" in sel else sel["s"]

            def enc_sub(S):
                if S is None:
                    return None
                d = enc_domain(S)
                d["is_self"] = S is D
                return d
            out["sub"].append(guarded(lambda: D.get_subdomain(s), enc_sub))
        if q.get("corners"):
            signal.signal(signal.SIGALRM, _alarm)
            signal.alarm(10)
            try:
                out["corners"] = guarded(lambda: D.corners, enc_corners)
            finally:
                signal.alarm(0)
    return out


def main():
    payload = json.load(open(sys.argv[1]))
    res = []
    for case in payload["cases"]:
        try:
            res.append(run_case(case))
        except Exception:  # noqa
            res.append({"crash": traceback.format_exc()})
    json.dump({"results": res}, open(sys.argv[2], "w"))


if __name__ == "__main__":
    main()
