"""Implementation side of C03, interface family: TerminalExpr(LogicalExpr(e, I), I.logical_domain) for an expression e of
functions RESTRICTED to one side of an interface I of a mapped two-patch domain (different mappings per patch).

case : {"dim":d, "iface":{"minus":MAP,"plus":MAP,"axis":a,"em":+-1,"ep":+-1}, "spaces":{..}, "tree":E, "seed":n}
  MAP ::= {"type":"symbolic","name":..} | {"type":"catalogue","cls":..,"name":..,"params":{..}}
          (the same symbolic name on both sides = ONE Mapping object applied to both patches)
  E   ::= the grammar of C03_impl with a side on every function atom: {"k":"sf","f","s":"-|+"}, {"k":"vf",..,"s"},
          {"k":"comp","f","i","s"}   (minus(u), plus(F), plus(F)[i])
result: like C03_impl: {"in":E, "out":TENS|{"err":..}, "mapexprs":{"minus":[sx]|None,"plus":[sx]|None}, "oracle":{..}}

Oracle: explicit maps F_minus, F_plus with the same trace on the common face (tools/impl/C04if_impl.py), explicit
polynomials for every (function, side), logical unknowns DEFINED by the pull-back formula of their kind with the mapping
of THEIR side, the output evaluated at the pair of logical points (x^-, x^+) of the same physical point p of the
interface, compared with the classical value of e at p.
"""
import random
import traceback

import sympy as sp
from sympy import Rational, Symbol, Matrix, ImmutableDenseMatrix, S

import ser
import C04if_impl as IF

LS, LP, XS = IF.LS, IF.LP, IF.XS
KINDS = {"h1": "h1", "hcurl": "hcurl", "hdiv": "hdiv", "l2": "l2", "undef": None}


class IWorld:
    def __init__(self, case):
        from sympde.topology import Domain, Mapping, ScalarFunctionSpace, VectorFunctionSpace, element_of, Line, Square, Cube
        import sympde.topology as top
        self.case = case
        self.dim = d = case["dim"]
        f = case["iface"]
        self.same = f["minus"]["type"] == "symbolic" and f["plus"]["type"] == "symbolic" and f["minus"]["name"] == f["plus"]["name"]

        def mk(m):
            if m["type"] == "symbolic":
                return Mapping(m["name"], dim=d)
            if m["type"] == "user":
                ex = {"xyz"[i]: m["exprs"][i] for i in range(d)}
                return type("UserMapping", (Mapping,), {"_expressions": ex, "_ldim": d, "_pdim": d})(m["name"], dim=d)
            cls = getattr(top, m["cls"])
            kw = {k: Rational(v[0], v[1]) for k, v in m.get("params", {}).items()}
            if m["cls"] in ("IdentityMapping", "AffineMapping"):
                return cls(m["name"], dim=d, **kw)
            return cls(m["name"], **kw)
        self.Mm = mk(f["minus"])
        self.Mp = self.Mm if self.same else mk(f["plus"])
        L = [Line, Square, Cube][d - 1]

        def patch(name, b, e):
            # b = [p, q]: the (rational) logical coordinate of the common face; the patch is the unit interval next to it
            if b is None:
                return L(name)
            v = Rational(b[0], b[1])
            iv = (float(v - 1), float(v)) if e == 1 else (float(v), float(v + 1))
            if d == 1:
                return L(name, bounds=iv)
            return L(name, **{"bounds%d" % (f["axis"] + 1): iv})
        self.patches = [self.Mm(patch("A", f.get("bm"), f["em"])), self.Mp(patch("B", f.get("bp"), f["ep"]))]
        conn = ((0, f["axis"], f["em"]), (1, f["axis"], f["ep"]))
        if f.get("ornt", 1) == -1:
            conn = conn + (-1,)
        self.D = Domain.join(self.patches, [conn], "Omega")
        self.I = self.D.interfaces
        self.funcs = {}
        for name, sp_ in sorted(case["spaces"].items()):
            kind = KINDS[sp_["kind"]]
            if sp_["vector"]:
                V = VectorFunctionSpace("W_" + name, self.D, kind=kind)
            else:
                V = ScalarFunctionSpace("V_" + name, self.D, kind=kind)
            self.funcs[name] = element_of(V, name=name)
        self.consts = {}

    def const(self, name):
        from sympde.core import Constant
        if name not in self.consts:
            self.consts[name] = Constant(name)
        return self.consts[name]


def build(j, w, C03):
    from sympde.calculus import minus, plus
    k = j["k"]
    if k in ("sf", "vf", "comp"):
        f = w.funcs[j["f"]]
        s = j.get("s", "0")
        r = {"-": minus, "+": plus, "0": (lambda a: a)}[s](f)
        return r[j["i"]] if k == "comp" else r
    if k in ("num", "const", "coord"):
        return C03.build(j, w)
    # same constructors as C03_impl.build, with this function on the children
    sub = {"add": lambda: _fold(j, w, C03, "+"), "mul": lambda: _fold(j, w, C03, "*")}
    if k in sub:
        return sub[k]()
    if k == "pow":
        return build(j["b"], w, C03) ** build(j["e"], w, C03)
    if k == "fn":
        return C03.FN[j["f"]](build(j["a"], w, C03))
    if k == "op":
        from sympde.calculus import core as calc
        return getattr(calc, j["name"])(*[build(a, w, C03) for a in j["a"]])
    if k == "d":
        from sympde.topology import dx, dy, dz
        return [dx, dy, dz][j["i"]](build(j["a"], w, C03))
    if k == "mat":
        return ImmutableDenseMatrix([[build(a, w, C03) for a in row] for row in j["rows"]])
    raise ValueError(k)


def _fold(j, w, C03, op):
    r = build(j["a"][0], w, C03)
    for a in j["a"][1:]:
        r = (r + build(a, w, C03)) if op == "+" else (r * build(a, w, C03))
    return r


def ser_tree(e, C03, orig):
    """constructed expression -> E with sides; `orig` = C03_impl.ser_tree, whose recursion is routed through this
    function while an interface case runs (run_if_case patches and restores the module attribute)"""
    from sympde.calculus.core import MinusInterfaceOperator, PlusInterfaceOperator
    from sympde.topology.space import ScalarFunction, VectorFunction, IndexedVectorFunction
    e = sp.sympify(e)
    if isinstance(e, (MinusInterfaceOperator, PlusInterfaceOperator)):
        s = "-" if isinstance(e, MinusInterfaceOperator) else "+"
        a = e.args[0]
        if isinstance(a, ScalarFunction):
            return {"k": "sf", "f": a.name, "s": s}
        if isinstance(a, VectorFunction):
            return {"k": "vf", "f": a.name, "s": s}
        if isinstance(a, IndexedVectorFunction):
            return {"k": "comp", "f": a.base.name, "i": int(a.indices[0]), "s": s}
        raise ser.Unsupported("restriction of %s" % type(a).__name__)
    r = orig(e)
    if isinstance(e, (ScalarFunction, VectorFunction, IndexedVectorFunction)):
        r["s"] = "0"
    return r


def prep_out(e, w):
    """normal form of an output entry before serialisation: floats -> rationals, and - when ONE Mapping object is
    applied to both patches - the components of its plus copy (flag is_plus) get the name <M>__plus"""
    from sympde.topology import Mapping
    e = IF.prep_kernel(e)
    if w.same:
        rep = {}
        twin = Mapping(w.Mm.name + "__plus", dim=w.dim)
        for a in e.atoms(sp.Indexed):
            if isinstance(a.base, Mapping) and a.base.is_plus:
                rep[a] = twin[a.indices[0]]
        if rep:
            e = e.xreplace(rep)
    if e.has(sp.Derivative):
        raise ser.Unsupported("node Derivative")
    return e


def ser_out(res, w, C03):
    from sympy import Tuple
    one = lambda a: C03._logical_atoms(ser.ser_sx(prep_out(a, w)))  # noqa
    if isinstance(res, (Matrix, ImmutableDenseMatrix)):
        return {"k": "mat", "rows": [[one(res[i, j]) for j in range(res.shape[1])] for i in range(res.shape[0])]}
    if isinstance(res, (Tuple, tuple, list)):
        return {"k": "mat", "rows": [[one(a)] for a in res]}
    return {"k": "sc", "v": one(res)}


# ------------------------------------------------------------------------------------------ oracle
class TwoSided:
    def __init__(self, w, rng):
        self.w, self.rng, self.d = w, rng, w.dim
        d = self.d
        f = w.case["iface"]
        self.ax, self.em, self.ep = f["axis"], f["em"], f["ep"]
        self.bm = Rational(*f["bm"]) if f.get("bm") else sp.Integer(1 if self.em == 1 else 0)
        self.bp = Rational(*f["bp"]) if f.get("bp") else sp.Integer(1 if self.ep == 1 else 0)
        base = ser.Concrete(rng, dim=3)
        self.base = base
        am = f["minus"]["type"] != "symbolic"
        ap = f["plus"]["type"] != "symbolic"
        Fm = IF.analytic_map(w.Mm, base) if am else None
        Fp = IF.analytic_map(w.Mp, base) if ap else None
        self.flip = f.get("ornt", 1) == -1
        if Fm is None and Fp is None:
            Fm = IF.rand_map(rng, d, LS[:d])
            Fp = IF.derived_map(rng, Fm, self.ax, self.bm, self.em, self.bp, self.ep, d, self.flip)
        elif Fm is None:
            Fm = IF.derived_map(rng, Fp, self.ax, self.bp, self.ep, self.bm, self.em, d, self.flip)
        elif Fp is None:
            Fp = IF.derived_map(rng, Fm, self.ax, self.bm, self.em, self.bp, self.ep, d, self.flip)
        self.F = {"-": Fm, "+": Fp}
        self.J = {s: Matrix([[sp.diff(F[i], LS[j]) for j in range(d)] for i in range(d)]) for s, F in self.F.items()}
        self.det = {s: J.det() for s, J in self.J.items()}
        self.names = {"-": f["minus"]["name"], "+": (f["plus"]["name"] + "__plus") if w.same else f["plus"]["name"]}
        self.phys, self.logi = {}, {}
        for name, s in sorted(w.case["spaces"].items()):
            for side in "-+":
                self.define(name, s, side)

    def poly(self):
        r = self.rng
        p = Rational(r.randint(1, 5))
        for _ in range(r.randint(2, 4)):
            mon = Rational(r.randint(1, 7), r.randint(1, 3)) * r.choice([1, -1])
            for x in XS[: self.d]:
                mon *= x ** r.randint(0, 2)
            p += mon
        mixed = Rational(r.randint(1, 5), r.randint(1, 3))           # every coordinate occurs: no gradient vanishes
        for x in XS[: self.d]:
            mixed *= x
        return p + mixed + sum(Rational(r.randint(1, 3), 2) * x for x in XS[: self.d])

    def define(self, name, s, side):
        d, kind = self.d, s["kind"]
        F, J, det = self.F[side], self.J[side], self.det[side]
        comp = lambda p: p.xreplace(dict(zip(XS[:d], F)))  # noqa
        if not s["vector"]:
            p = self.poly()
            self.phys[(name, 0, side)] = p
            c = comp(p)
            if kind in ("h1", "undef"):
                self.logi[(name, 0, side)] = c
            elif kind == "l2":
                self.logi[(name, 0, side)] = det * c
            else:
                raise ser.Unsupported("scalar space of kind %s" % kind)
            return
        ps = [self.poly() for _ in range(d)]
        for i in range(d):
            self.phys[(name, i + 1, side)] = ps[i]
        c = Matrix([comp(p) for p in ps])
        l = {"h1": c, "undef": c, "hcurl": J.T * c, "hdiv": det * (J.inv() * c), "l2": det * c}[kind]
        for i in range(d):
            self.logi[(name, i + 1, side)] = l[i]

    # classical value: the evaluator of C03_impl.Explicit with side-specific polynomials
    def classical(self, e, C03):
        from sympde.calculus.core import MinusInterfaceOperator, PlusInterfaceOperator
        from sympde.topology.space import ScalarFunction, VectorFunction, IndexedVectorFunction
        outer = self

        class Shim(C03.Explicit):
            def __init__(sh):  # noqa
                sh.d, sh.X = outer.d, XS[: outer.d]
                sh.phys = {}

            def const(sh, name):  # noqa
                return sp.pi if name == "pi" else outer.base.const(name)

            def classical(sh, x):  # noqa
                x = sp.sympify(x)
                if isinstance(x, (MinusInterfaceOperator, PlusInterfaceOperator)):
                    side = "-" if isinstance(x, MinusInterfaceOperator) else "+"
                    a = x.args[0]
                    if isinstance(a, ScalarFunction):
                        return outer.phys[(a.name, 0, side)]
                    if isinstance(a, VectorFunction):
                        return Matrix([outer.phys[(a.name, i + 1, side)] for i in range(outer.d)])
                    if isinstance(a, IndexedVectorFunction):
                        return outer.phys[(a.base.name, int(a.indices[0]) + 1, side)]
                    raise ser.Unsupported("classical: restriction of %s" % type(a).__name__)
                if isinstance(x, (ScalarFunction, VectorFunction, IndexedVectorFunction)):
                    raise ser.Unsupported("classical: a function without restriction on an interface")
                return C03.Explicit.classical(sh, x)
        return Shim().classical(e)

    def atom(self, a):
        t = a["t"]
        if t == "coord":
            if not a["lg"]:
                raise ser.Unsupported("physical coordinate left in the logical expression")
            return LS[a["i"]]
        if t == "const":
            n = a["name"]
            if n.endswith("_plus") and n[:-5] in ser.LOGI:
                return LP[ser.LOGI.index(n[:-5])]
            return self.base.const(n)
        if t == "fld":
            if any(a["al"]) and not a["lg"]:
                raise ser.Unsupported("physical derivative left in the logical expression")
            if a["s"] not in "-+":
                raise ser.Unsupported("a function without restriction in the output")
            p = self.logi[(a["f"], a["c"], a["s"])]
            for i, n in enumerate(a["al"]):
                for _ in range(n):
                    p = sp.diff(p, LS[i])
            return p.xreplace(dict(zip(LS, LP))) if a["s"] == "+" else p
        if t == "map":
            side = [s for s, n in self.names.items() if n == a["m"]]
            if len(side) != 1:
                raise ser.Unsupported("mapping %s" % a["m"])
            p = self.F[side[0]][a["i"]]
            for i, n in enumerate(a["al"]):
                for _ in range(n):
                    p = sp.diff(p, LS[i])
            return p.xreplace(dict(zip(LS, LP))) if side[0] == "+" else p
        raise ser.Unsupported("atom " + t)

    def sx(self, j):
        k = j["k"]
        if k == "num":
            return Rational(j["p"], j["q"])
        if k == "at":
            return self.atom(j)
        if k == "add":
            return sp.Add(*[self.sx(a) for a in j["a"]])
        if k == "mul":
            return sp.Mul(*[self.sx(a) for a in j["a"]])
        if k == "pow":
            return sp.Pow(self.sx(j["b"]), self.sx(j["e"]))
        if k == "fn":
            return ser.FN[j["f"]](self.sx(j["a"]))
        raise ser.Unsupported("node " + k)

    def compare(self, out, expr, C03, npts=2):
        import mpmath
        d = self.d
        got = [[self.sx(out["v"])]] if out["k"] == "sc" else [[self.sx(a) for a in row] for row in out["rows"]]
        want = C03.as_rows(self.classical(expr, C03))
        fg, fw = [c for r in got for c in r], [c for r in want for c in r]
        sg, sw = (len(got), len(got[0])), (len(want), len(want[0]))
        if len(fg) != len(fw) or (sg != sw and 1 not in sg):
            return False, {"why": "shape", "got": list(sg), "want": list(sw)}
        cols = [j for j in range(d) if j != self.ax]
        used, worst = 0, 0.0
        for _ in range(npts):
            t = {j: Rational(self.rng.randint(1, 9), self.rng.randint(10, 13)) for j in cols}
            xm = {LS[j]: t[j] for j in cols}; xm[LS[self.ax]] = self.bm
            xp = {LP[j]: (1 - t[j] if self.flip else t[j]) for j in cols}; xp[LP[self.ax]] = self.bp
            pm = [f.xreplace(xm) for f in self.F["-"]]
            pp = [f.xreplace(dict(zip(LS, LP))).xreplace(xp) for f in self.F["+"]]
            gap = max(abs(IF.num(a - b)) for a, b in zip(pm, pp))
            if gap > mpmath.mpf(10) ** (-30):
                return None, {"why": "the two parametrisations do not coincide on the interface"}
            sub = dict(xm); sub.update(xp)
            img = dict(zip(XS[:d], pm))
            for idx, (g, wv) in enumerate(zip(fg, fw)):
                try:
                    vg = IF.num(sp.sympify(g).xreplace(sub))
                    vw = IF.num(sp.sympify(wv).xreplace(img))
                except C03.CaseTimeout:
                    raise
                except Exception as e:  # noqa
                    return None, {"why": "evaluation failed: %s %s" % (type(e).__name__, str(e)[:100])}
                used += 1
                with mpmath.workdps(50):
                    dlt = abs(vg - vw) / max(1, abs(vg), abs(vw))
                worst = max(worst, float(dlt))
                if dlt > mpmath.mpf(10) ** (-9 if IF.APPROX[0] else -25):
                    return False, {"why": "value", "entry": idx,
                                   "point_minus": {str(k): str(v) for k, v in xm.items()},
                                   "point_plus": {str(k): str(v) for k, v in xp.items()},
                                   "logical_value": mpmath.nstr(vg, 25), "physical_value": mpmath.nstr(vw, 25)}
        if used == 0:
            return None, {"why": "no point could be evaluated"}
        return True, {"worst_rel": worst, "evaluated": used}


# ------------------------------------------------------------------------------------------ one case
def run_if_case(case, C03):
    from sympy.core.cache import clear_cache
    clear_cache()
    from sympde.topology import LogicalExpr
    from sympde.expr.evaluation import TerminalExpr
    out = {}
    w = IWorld(case)
    try:
        expr = build(case["tree"], w, C03)
    except Exception as ex:  # noqa
        return {"in": None, "out": {"err": "constructor:" + C03.classify(ex), "msg": str(ex)[:200]}}
    orig = C03.ser_tree
    try:
        C03.ser_tree = lambda x: ser_tree(x, C03, orig)
        out["in"] = ser_tree(expr, C03, orig)
    except ser.Unsupported as ex:
        return {"in": None, "out": {"err": "unsupported-input", "msg": str(ex)[:200]}}
    finally:
        C03.ser_tree = orig
    me = {}
    for side, M in (("minus", w.Mm), ("plus", w.Mp)):
        me[side] = None
        if M.is_analytical:
            try:
                me[side] = [C03.ser_scalar(IF.prep_kernel(a)) for a in M.expressions]
            except ser.Unsupported:
                out["mapexprs_err"] = side
    out["mapexprs"] = me
    try:
        le = LogicalExpr(expr, w.I)
        res = TerminalExpr(le, w.I.logical_domain)
    except Exception as ex:  # noqa
        tb = traceback.extract_tb(ex.__traceback__)
        out["out"] = {"err": C03.classify(ex), "msg": str(ex)[:200],
                      "where": ["%s:%d" % (f.filename.split("/")[-1], f.lineno) for f in tb[-3:]]}
        return out
    try:
        IF.APPROX[0] = False
        out["out"] = ser_out(res, w, C03)
    except ser.Unsupported as ex:
        out["out"] = {"err": "unsupported-node", "msg": str(ex)[:200], "text": str(res)[:400]}
        return out
    except Exception as ex:  # noqa
        out["out"] = {"err": "serialise:" + type(ex).__name__, "msg": str(ex)[:200]}
        return out
    try:
        rng = random.Random(case.get("seed", 0))
        ts = TwoSided(w, rng)
        ok, info = ts.compare(out["out"], expr, C03)
        out["oracle"] = {"ok": ok, "info": info}
    except C03.CaseTimeout:
        raise
    except Exception as ex:  # noqa
        out["oracle"] = {"ok": None, "info": "oracle failed: %s %s" % (type(ex).__name__, str(ex)[:300]),
                         "tb": traceback.format_exc()[-600:]}
    return out
