"""Implementation side of C11: the real Norm / SemiNorm lowered with the real TerminalExpr / LogicalExpr.

case  : {"dim":d, "domain":"plain"|"mapped", "mapping":None|{"kind":"symbolic","name":..}|{"kind":"catalogue","cls":..,"name":..,"params":{..}},
         "cls":"Norm"|"SemiNorm", "kind":"l2|h1|h2", "vector":bool, "container":"Matrix|ImmutableDenseMatrix|Tuple|list|tuple|row",
         "comps":[sx..], "seed":n}
         (plain: Domain('Omega', dim) - logical coordinates x1.., operators dx1.. ;
          mapped: M(Line|Square|Cube) - physical coordinates x,y,z, operators dx..)
result: {"in":[sx..] components as received, "shape":[r,c] | None,
         "phys": lowering on the given domain            {"out":sx} | {"err":enum,"msg":..}
         "lt"  : TerminalExpr(LogicalExpr(norm, D), D.logical_domain)      (mapped only)
         "tl"  : LogicalExpr(TerminalExpr(norm, D)[0], D)                   (mapped only)
         "meas": kernel of the transformed unit integral                     (mapped only)
         "fm"  : [sx..] the mapping's component expressions (catalogue only)
         "oracle": {"phys":{"ok":..,"first_row":..}, "lt":.., "tl":.., "meas":..}}
The oracle is independent of the Coq model: explicit polynomials for every field, explicit (polynomial or
catalogue) mapping, sympy.diff, the classical Sobolev integrand evaluated at rational points.
"""
import json
import random
import sys
import traceback

import sympy as sp

import ser

ERR = {"TypeError": "TypeError", "IndexError": "IndexError", "NameError": "NameError",
       "NotImplementedError": "NotImplementedError", "ValueError": "ValueError", "AttributeError": "AttributeError"}


def err_of(e):
    return {"err": ERR.get(type(e).__name__, "other:" + type(e).__name__), "msg": str(e)[:160]}


class Env11(ser.Env):
    def __init__(self, dim, domain):
        from sympde.topology import ScalarFunctionSpace, VectorFunctionSpace
        self.dim = dim
        self.domain = domain
        self.V = ScalarFunctionSpace("V", domain)
        self.W = VectorFunctionSpace("W", domain)
        self.fields, self.consts, self.maps, self.mapping = {}, {}, {}, None


def make_domain(case):
    from sympde.topology import Domain, Line, Square, Cube, Mapping
    import sympde.topology.analytical_mapping as am
    d = case["dim"]
    if case["domain"] == "plain":
        return Domain("Omega", dim=d), None
    m = case["mapping"]
    if m["kind"] == "symbolic":
        M = Mapping(m["name"], dim=d)
    else:
        cls = getattr(am, m["cls"])
        kw = {k: sp.Rational(v[0], v[1]) for k, v in m.get("params", {}).items()}
        if m["cls"] in ("IdentityMapping", "AffineMapping"):
            M = cls(m["name"], dim=d, **kw)
        else:
            M = cls(m["name"], **kw)
    L = [Line, Square, Cube][d - 1]("S")
    return M(L), M


def kernel_of(r):
    """single DomainExpression -> its scalar kernel"""
    from sympy import Matrix, ImmutableDenseMatrix
    if isinstance(r, (tuple, list, sp.Tuple)):
        if len(r) != 1:
            raise ser.Unsupported("expected one kernel, got %d" % len(r))
        r = r[0]
    e = r.expr if hasattr(r, "target") else r
    if isinstance(e, (Matrix, ImmutableDenseMatrix)):
        if e.shape != (1, 1):
            raise ser.Unsupported("kernel of shape %s" % (e.shape,))
        e = e[0, 0]
    return e


def attempt(f):
    try:
        return {"out": ser.ser_sx(kernel_of(f()))}
    except ser.Unsupported as e:
        return {"err": "unsupported-node", "msg": str(e)[:160]}
    except RecursionError as e:
        return {"err": "other:RecursionError", "msg": ""}
    except Exception as e:  # noqa
        return err_of(e)


# ------------------------------------------------------------------------------------ oracle
class Conc(ser.Concrete):
    """fields are explicit polynomials of the PHYSICAL (mapped domain) or logical (plain) coordinates; on a
    mapped domain the logical atoms are the explicit composition u o F differentiated by sympy.diff"""

    def __init__(self, rng, dim, F=None):
        super().__init__(rng, dim=dim, deg=2)
        self.F = F          # list of expressions in the logical symbols, or None (plain domain)

    def atom(self, a, fam):
        t = a["t"]
        if self.F is None or t in ("const",):
            return super().atom(a, fam)
        xs, ls = self.syms[False], self.syms[True]
        if t == "coord":
            return ls[a["i"]] if a["lg"] else xs[a["i"]]
        if t == "fld":
            p = self.poly(("fld", a["f"], a["c"], a["s"]), False)       # polynomial of x,y,z
            if any(a["al"]) and not a["lg"]:
                for i, n in enumerate(a["al"]):
                    for _ in range(n):
                        p = sp.diff(p, xs[i])
                return p
            if not a["lg"] and not fam:
                return p
            p = p.subs(list(zip(xs[: self.dim], self.F)), simultaneous=True)   # u o F
            for i, n in enumerate(a["al"]):
                for _ in range(n):
                    p = sp.diff(p, ls[i])
            return p
        if t == "map":
            p = self.F[a["i"]]
            for i, n in enumerate(a["al"]):
                for _ in range(n):
                    p = sp.diff(p, ls[i])
            return p
        raise ser.Unsupported("concrete atom " + t)

    def point(self):
        return {s: sp.Rational(self.rng.randint(2, 9), self.rng.randint(10, 13)) for fam in (False, True) for s in self.syms[fam]}


def numeric_equal(a, b, conc, npts=3, tol=1e-12):
    """a == b at random rational points, evaluated with mpmath at 50 digits through lambdify (sympy.N can return 0 for
    products containing sin(c)**2 + cos(c)**2 at high precision, so it is not used here)"""
    import mpmath
    syms = sorted((a.free_symbols | b.free_symbols), key=lambda s: s.name)
    try:
        fa = sp.lambdify(syms, a, "mpmath")
        fb = sp.lambdify(syms, b, "mpmath")
    except Exception as e:  # noqa
        return ser.numeric_equal(a, b, conc, npts=npts)
    worst = 0.0
    old = mpmath.mp.dps
    mpmath.mp.dps = 50
    try:
        for _ in range(npts):
            pt = conc.point()
            vals = []
            for s in syms:
                v = pt.get(s)
                if v is None:
                    v = pt.get(sp.Symbol(s.name, real=True), sp.Rational(1, 3))
                vals.append(mpmath.mpf(int(v.p)) / mpmath.mpf(int(v.q)))
            try:
                va, vb = mpmath.mpmathify(fa(*vals)), mpmath.mpmathify(fb(*vals))
            except Exception:  # noqa  (pole, domain error: try another point)
                continue
            if not (mpmath.isfinite(va) and mpmath.isfinite(vb)):
                continue
            d = abs(va - vb)
            scale = max(mpmath.mpf(1), abs(va), abs(vb))
            worst = max(worst, float(d / scale))
            if d / scale > tol:
                return False, {"point": {str(k): str(v) for k, v in pt.items()}, "lhs": mpmath.nstr(va, 30), "rhs": mpmath.nstr(vb, 30)}
    finally:
        mpmath.mp.dps = old
    return True, {"worst_rel": worst}


def classical(E, xs, kind, semi, first_row=False):
    """the classical Sobolev integrand of the explicit components E in the variables xs"""
    l2 = sum(e ** 2 for e in E)
    h1 = sum(sp.diff(e, x) ** 2 for e in E for x in xs)
    if kind == "l2":
        return l2
    if kind == "h1":
        return h1 if semi else h1 + l2
    if len(E) != 1:
        return None
    rows = xs[:1] if first_row else xs
    h2 = sum(sp.diff(E[0], xi, xj) ** 2 for xi in rows for xj in xs)
    return h2 if semi else h2 + h1 + l2


def rand_map(rng, dim, ls):
    """a polynomial mapping close to the identity (det > 0 on the unit cube)"""
    F = []
    for i in range(dim):
        p = ls[i] * sp.Rational(rng.randint(4, 7), 4)
        for j in range(dim):
            p += sp.Rational(rng.randint(-2, 2), 16) * ls[j] * ls[(i + j + 1) % dim]
            p += sp.Rational(rng.randint(-1, 1), 8) * ls[j]
        F.append(p + sp.Rational(rng.randint(0, 3), 5))
    return F


def oracle(case, res, M):
    rng = random.Random(case.get("seed", 0))
    d = case["dim"]
    kind, semi = case["kind"], case["cls"] == "SemiNorm"
    out = {}
    mapped = case["domain"] == "mapped"
    conc0 = Conc(rng, d, None)
    ls, xs = conc0.syms[True][:d], conc0.syms[False][:d]
    F = None
    if mapped:
        if case["mapping"]["kind"] == "symbolic":
            F = rand_map(rng, d, ls)
        else:
            F = [sp.sympify(e) for e in M.expressions]
            cs = {}
            for e in F:
                for s in e.free_symbols:
                    if s.name not in ser.LOGI:
                        cs[s] = conc0.const(s.name)
            F = [e.xreplace(cs).xreplace({sp.Symbol(n): sp.Symbol(n, real=True) for n in ser.LOGI}) for e in F]
    conc = Conc(rng, d, F)
    conc.consts = conc0.consts
    fam_in = not mapped        # plain domains: logical family
    E = [conc.sx(c, fam_in) for c in res["in"]]
    var = xs if mapped else ls
    want = classical(E, var, kind, semi)
    want_fr = classical(E, var, kind, semi, first_row=True) if kind == "h2" else None

    def cmp(got_sx, ref, fam):
        if ref is None:
            return {"ok": None}
        got = conc.sx(got_sx, fam)
        ok, info = numeric_equal(got, ref, conc)
        return {"ok": bool(ok), "info": info}

    if "out" in res.get("phys", {}):
        o = cmp(res["phys"]["out"], want, fam_in)
        if want_fr is not None and o["ok"] is False:
            o["first_row"] = cmp(res["phys"]["out"], want_fr, fam_in)["ok"]
        out["phys"] = o
    if mapped and want is not None:
        J = sp.Matrix([[sp.diff(Fi, l) for l in ls] for Fi in F])
        vol = sp.sqrt((J.T * J).det())
        sub = list(zip(xs, F))
        wl = want.subs(sub, simultaneous=True) * vol
        wl_fr = want_fr.subs(sub, simultaneous=True) * vol if want_fr is not None else None
        for key in ("lt", "tl"):
            if "out" in res.get(key, {}):
                o = cmp(res[key]["out"], wl, True)
                if wl_fr is not None and o["ok"] is False:
                    o["first_row"] = cmp(res[key]["out"], wl_fr, True)["ok"]
                out[key] = o
        if "out" in res.get("meas", {}):
            out["meas"] = cmp(res["meas"]["out"], vol, True)
    return out


# ------------------------------------------------------------------------------------ one case
def run_case(case):
    from sympy.core.cache import clear_cache
    from sympy import Matrix, ImmutableDenseMatrix, Tuple
    from sympde.expr import Norm, SemiNorm, TerminalExpr
    from sympde.expr.expr import Integral
    from sympde.topology.mapping import LogicalExpr
    clear_cache()
    D, M = make_domain(case)
    env = Env11(case["dim"], D)
    comps = [ser.build_sx(c, env) for c in case["comps"]]
    res = {"in": [ser.ser_sx(c) for c in comps]}
    if case["vector"]:
        cont = case.get("container", "Matrix")
        if cont == "row":
            arg = Matrix([comps])
        else:
            arg = {"Matrix": Matrix, "ImmutableDenseMatrix": ImmutableDenseMatrix, "Tuple": lambda l: Tuple(*l),
                   "list": list, "tuple": tuple}[cont](comps)
        res["shape"] = list(ImmutableDenseMatrix(arg).shape)
    else:
        arg = comps[0]
        res["shape"] = None
    cls = Norm if case["cls"] == "Norm" else SemiNorm
    try:
        n = cls(arg, D, kind=case.get("kind_spelling", case["kind"]))     # 'H1', 'L2', ... : the kind is case-insensitive
    except Exception as e:  # noqa
        res["phys"] = err_of(e)
        res["construct_failed"] = True
        return res
    res["phys"] = attempt(lambda: TerminalExpr(n, D))
    if case["domain"] == "mapped":
        res["lt"] = attempt(lambda: TerminalExpr(LogicalExpr(n, D), D.logical_domain))
        if "out" in res["phys"]:
            res["tl"] = attempt(lambda: LogicalExpr(TerminalExpr(n, D)[0], D))
        res["meas"] = attempt(lambda: TerminalExpr(LogicalExpr(Integral(sp.S.One, D.interior), D), D.logical_domain))
        if M.is_analytical:
            try:
                res["fm"] = [ser.ser_sx(e) for e in M.expressions]
            except ser.Unsupported as e:
                res["fm"] = None
    try:
        res["oracle"] = oracle(case, res, M)
    except Exception as e:  # noqa
        res["oracle"] = {"failed": "%s: %s" % (type(e).__name__, str(e)[:200]), "tb": traceback.format_exc()[-600:]}
    return res


def main():
    payload = json.load(open(sys.argv[1]))
    res = []
    import time
    for case in payload["cases"]:
        t0 = time.time()
        try:
            res.append(run_case(case))
        except Exception:  # noqa
            res.append({"crash": traceback.format_exc()[-1500:]})
        res[-1]["seconds"] = round(time.time() - t0, 2)
    json.dump({"results": res}, open(sys.argv[2], "w"))


if __name__ == "__main__":
    main()
