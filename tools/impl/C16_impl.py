"""Implementation side of C16 (analytical mappings are coherent).

Run with /venv/bin/python, PYTHONPATH=<repo>:<verif>/tools/impl ; argv[1] = input JSON, argv[2] = output JSON.
input : {"cases":[CASE..]} ; output {"results":[RESULT..]} (same order; a crash of one case is recorded, not fatal).

CASE kinds ("mode"):
  "entry"   {"cls":name | "user":{"name","expressions":{x:..},"ldim","pdim"}, "dim":null|d, "ldim","pdim",
             "params":{name: PARAM}}           PARAM = ["int",n] | ["rat",p,q] | ["float",repr]
            -> the real object's expressions / jacobian_expr / jacobian_inv_expr / metric_expr / metric_det_expr as
               JSON sx trees (grammar of ser.py, extended by  fn sqrt  and the constant pi), build time, constants
  "oracle"  same input + "seed","npoints": the property's own coherence oracle evaluated on the real object with
            exact rational parameters at rational points (sympy.diff / explicit inverse / J^T J / det), 50 digits
  "numeric" same input (all parameters numeric) + "points":[[..]..] (rational strings) + "grids": callable mapping
            against exact evaluation of the symbolic quantities
  "shape"   lambdify_sympde / get_callable_mapping on given input shapes
  "classes" introspection of sympde.topology.analytical_mapping (class names, _ldim, _pdim, _expressions)
"""
import json
import sys
import time
import traceback

import ser

LOGI = ["x1", "x2", "x3"]


class Refused(Exception):
    pass


# ----------------------------------------------------------------------------------------------- serialiser
def _num(p, q=1):
    return {"k": "num", "p": int(p), "q": int(q)}


def ser16(expr):
    """real sympy scalar -> JSON sx.  Extends ser.ser_sx: half-integer powers are written with sqrt
    (b**(k/2) = sqrt(b)**k, exact for the principal branch), exact binary Floats become their rational value,
    pi is the symbolic constant "pi".  Anything else unknown: ser.Unsupported (fail closed)."""
    import sympy as sp
    expr = sp.sympify(expr)
    if isinstance(expr, sp.Integer):
        return _num(expr)
    if isinstance(expr, sp.Rational):
        return _num(expr.p, expr.q)
    if isinstance(expr, sp.Float):
        r = sp.Rational(expr)          # exact value of the binary float
        if sp.Float(r, expr._prec) != expr or abs(r.q) > 2 ** 40 or abs(r.p) > 2 ** 60:
            raise ser.Unsupported("float literal without a short exact binary value: %r" % expr)
        return _num(r.p, r.q)
    if expr is sp.pi:
        return {"k": "at", "t": "const", "name": "pi"}
    if isinstance(expr, (sp.Symbol, sp.Indexed)):
        return ser.ser_atom(expr)
    if _is_derivative(expr):           # dx1(M[0]) of a mapping without expressions: the atom  AMap M 0 [1]
        return ser.ser_atom(expr)
    if isinstance(expr, sp.Add):
        return {"k": "add", "a": [ser16(a) for a in expr.args]}
    if isinstance(expr, sp.Mul):
        return {"k": "mul", "a": [ser16(a) for a in expr.args]}
    if isinstance(expr, sp.Pow):
        b, e = expr.base, expr.exp
        if e.is_Integer:
            return {"k": "pow", "b": ser16(b), "e": _num(e)}
        if e.is_Rational and e.q == 2:
            root = {"k": "fn", "f": "sqrt", "a": ser16(b)}
            return root if e.p == 1 else {"k": "pow", "b": root, "e": _num(e.p)}
        rest, n = ser._split_exponent(e)
        gen = {"k": "pow", "b": ser16(b), "e": ser16(rest)}
        if n == 0:
            return gen
        return {"k": "mul", "a": [gen, {"k": "pow", "b": ser16(b), "e": _num(n)}]}
    for name, f in ser.FN.items():
        if isinstance(expr, f):
            return {"k": "fn", "f": name, "a": ser16(expr.args[0])}
    raise ser.Unsupported("node %s" % type(expr).__name__)


def _is_derivative(expr):
    from sympde.topology.derivatives import DifferentialOperator
    return isinstance(expr, DifferentialOperator)


def ser_mat(m):
    if m is None:
        return None
    return [[ser16(m[i, j]) for j in range(m.shape[1])] for i in range(m.shape[0])]


def has_float(e):
    import sympy as sp
    return bool(sp.sympify(e).atoms(sp.Float))


def sx_to_sympy(j):
    """JSON sx (as written by ser16) -> sympy expression over plain real symbols named like the atoms."""
    import sympy as sp
    k = j["k"]
    if k == "num":
        return sp.Rational(j["p"], j["q"])
    if k == "at":
        if j["t"] == "coord" and j["lg"]:
            return sp.Symbol(LOGI[j["i"]], real=True)
        if j["t"] == "const":
            return sp.pi if j["name"] == "pi" else sp.Symbol(j["name"], real=True)
        raise ser.Unsupported("atom " + j["t"])
    if k == "add":
        return sp.Add(*[sx_to_sympy(a) for a in j["a"]])
    if k == "mul":
        return sp.Mul(*[sx_to_sympy(a) for a in j["a"]])
    if k == "pow":
        return sp.Pow(sx_to_sympy(j["b"]), sx_to_sympy(j["e"]))
    if k == "fn":
        f = sp.sqrt if j["f"] == "sqrt" else ser.FN[j["f"]]
        return f(sx_to_sympy(j["a"]))
    raise ser.Unsupported("node " + k)


def compare_reference(M, ref, seed, ranges, n=6):
    """The coordinate expressions of the real object against the pinned reference definition, at random exact
    parameter sets x rational points (symbols matched by NAME)."""
    import random
    import sympy as sp
    rng = random.Random(seed)
    refs = [sx_to_sympy(r) for r in ref]
    exprs = [sp.sympify(e) for e in M.expressions]
    if len(refs) != len(exprs):
        return {"tried": 0, "fails": [{"what": "number of coordinate expressions %d != %d" % (len(exprs), len(refs))}]}
    names = set()
    for e in exprs + refs:
        names |= {str(x) for x in e.free_symbols}
    tried, fails = 0, []
    for _ in range(n):
        vals = {nm: _in_range(rng, *(ranges.get(nm, (0.1, 0.95) if nm in LOGI else (0.25, 2.0))), den=rng.choice([7, 11, 13, 20, 60]))
                for nm in sorted(names)}
        try:
            got = [exact_eval(e.xreplace({x: vals[str(x)] for x in e.free_symbols}), 40) for e in exprs]
            want = [exact_eval(e.xreplace({x: vals[str(x)] for x in e.free_symbols}), 40) for e in refs]
        except (Refused, ZeroDivisionError):
            continue
        tried += 1
        floaty = any(has_float(e) for e in exprs)
        tol = sp.Float(10) ** (-11 if floaty else -30)
        for i, (g, w) in enumerate(zip(got, want)):
            if abs(g - w) > tol * (1 + abs(w)):
                fails.append({"component": i, "values": {k: str(v) for k, v in vals.items()}, "got": str(g)[:25], "want": str(w)[:25]})
                break
        if fails:
            break
    return {"tried": tried, "fails": fails}


# ----------------------------------------------------------------------------------------------- building
def param_value(p, exact=False):
    import sympy as sp
    if p[0] == "int":
        return int(p[1])
    if p[0] == "rat":
        return sp.Rational(int(p[1]), int(p[2]))
    if p[0] == "float":
        return sp.Rational(float(p[1])) if exact else float(p[1])
    if p[0] == "npfloat":
        import numpy as np
        return sp.Rational(float(p[1])) if exact else np.float64(p[1])
    if p[0] == "npint":
        import numpy as np
        return int(p[1]) if exact else np.int64(p[1])
    raise ValueError(p)


_user_classes = {}


def get_class(case):
    from sympde.topology import analytical_mapping as am
    from sympde.topology.mapping import Mapping
    if "user" in case:
        u = case["user"]
        key = json.dumps(u, sort_keys=True)
        if key not in _user_classes:
            ns = {"_expressions": dict(u["expressions"])}
            if u.get("ldim") is not None:
                ns["_ldim"] = u["ldim"]
                ns["_pdim"] = u["pdim"]
            # the class may provide its own Jacobian and / or inverse Jacobian as matrices of strings
            if u.get("jac") is not None:
                ns["_jac"] = [list(r) for r in u["jac"]]
            if u.get("inv_jac") is not None:
                ns["_inv_jac"] = [list(r) for r in u["inv_jac"]]
            _user_classes[key] = type(str(u.get("name", "UserMapping")), (Mapping,), ns)
        return _user_classes[key]
    if case.get("cls") == "Mapping":          # a mapping without analytical expressions
        return Mapping
    return getattr(am, case["cls"])


def _wrap_dim(d, how):
    """the ways a dimension may be given: an int, or a tuple / list / sympy Tuple / Matrix of length 1"""
    import sympy as sp
    if how in (None, "int"):
        return d
    if how == "tuple":
        return (d,)
    if how == "list":
        return [d]
    if how == "Tuple":
        return sp.Tuple(d)
    if how == "Matrix":
        return sp.Matrix([d])
    raise ValueError(how)


def _wrap_coords(names, how):
    import sympy as sp
    if how in (None, "list"):
        return list(names)
    if how == "tuple":
        return tuple(names)
    if how == "Tuple":
        return sp.Tuple(*[sp.Symbol(n) for n in names])
    if how == "symbols":                      # Symbol objects without the real assumption
        return [sp.Symbol(n) for n in names]
    if how == "mixed":
        return [sp.Symbol(n) if i % 2 else n for i, n in enumerate(names)]
    raise ValueError(how)


def build_kwargs(case, cls, exact=False):
    kw = {k: param_value(v, exact) for k, v in (case.get("params") or {}).items()}
    how = case.get("dim_as")
    if case.get("dim") is not None:
        kw["dim"] = _wrap_dim(case["dim"], how)
    elif case.get("ldim") is not None and cls._ldim is None:
        kw["ldim"] = _wrap_dim(case["ldim"], how)
        kw["pdim"] = _wrap_dim(case["pdim"], how)
    if case.get("coordinates") is not None:
        kw["coordinates"] = _wrap_coords(case["coordinates"], case.get("coord_as"))
    return kw


def build(case, exact=False):
    """Instantiate the real class.  exact=True: float parameters are replaced by their exact rational value."""
    from sympy.core.cache import clear_cache
    clear_cache()
    cls = get_class(case)
    return cls(str(case.get("mname", "M")), **build_kwargs(case, cls, exact))


def run_entry(case):
    t0 = time.time()
    M = build(case)
    dt = time.time() - t0
    out = {"ldim": int(M.ldim), "pdim": int(M.pdim), "build_s": round(dt, 2),
           "constants": sorted(str(c) for c in (M.constants or ())),
           "has_float": any(has_float(e) for e in list(M.expressions) + list(M.jacobian_expr))}
    try:
        out["expr"] = [ser16(e) for e in M.expressions]
        out["jac"] = ser_mat(M.jacobian_expr)
        out["jinv"] = ser_mat(M.jacobian_inv_expr)
        out["metric"] = ser_mat(M.metric_expr)
        out["mdet"] = ser16(M.metric_det_expr)
    except ser.Unsupported as e:
        return {"err": "unsupported-node", "msg": str(e), "build_s": round(dt, 2)}
    if case.get("ref") is not None:
        try:
            out["ref_cmp"] = compare_reference(M, case["ref"], (case.get("oracle") or {}).get("seed", 0),
                                               (case.get("oracle") or {}).get("ranges") or {})
        except Exception as e:  # noqa
            out["ref_cmp"] = {"err": errkind(e), "msg": traceback.format_exc()[-600:]}
    if case.get("oracle"):
        try:
            out["oracle"] = run_oracle(dict(case, **case["oracle"]), M)
        except Exception as e:  # noqa
            out["oracle"] = {"err": errkind(e), "msg": traceback.format_exc()[-600:]}
    return out


# ----------------------------------------------------------------------------------------------- oracle
def _rand_rat(rng, lo=1, hi=9, den=(1, 2, 3, 4, 5, 7)):
    import sympy as sp
    return sp.Rational(rng.randint(lo, hi), rng.choice(den)) * rng.choice([1, 1, 1, -1])


def exact_eval(e, prec=50):
    import sympy as sp
    v = sp.N(e, prec)
    if not v.is_number or v.has(sp.nan, sp.zoo, sp.oo) or not v.is_real:
        # a non-real value means the point is outside the (real) domain of the expressions
        if v.is_number and not v.has(sp.nan, sp.zoo, sp.oo) and abs(sp.im(v)) < sp.Float(10) ** (-prec + 10):
            return sp.re(v)
        raise Refused("value not a finite real: %s" % str(v)[:60])
    return v


def coherence_at(M, consts, pt, prec=50, tol=None, base="ref", given=None):
    """The property itself on the stored quantities of the real object M, with the symbolic constants and the
    logical coordinates replaced by the exact rationals in `consts`/`pt`.  Independent reference: sympy.diff of
    the (substituted) coordinate expressions.  Returns list of failures [(part, i, j, got, want)].

    base="stored" (classes that supply their own matrices): the INTERNAL coherence of what the object exposes - the
    inverse, metric and determinant are measured against the stored Jacobian instead of the reference one, and the
    stored matrices against `given` = the supplied ones in the runner's own reading ({"jac": m | None, "inv": m | None})."""
    import sympy as sp
    if tol is None:
        # Float literals inside the stored expressions (CollelaMapping2D's "2.", float parameters) are evaluated by
        # sympy with 15 digits whatever the requested precision
        floaty = any(has_float(e) for e in list(M.expressions) + list(M.jacobian_expr) + [M.metric_det_expr])
        tol = sp.Float(10) ** (-11) if floaty else sp.Float(10) ** (-(prec - 15))
    xs = list(M.logical_coordinates) if M.ldim > 1 else [M.logical_coordinates]
    l, p = M.ldim, M.pdim
    sub = dict(consts)
    sub.update(pt)

    def val(e):
        return exact_eval(sp.sympify(e).xreplace(sub), prec)

    bad = []
    exprs = [sp.sympify(e).xreplace(consts) for e in M.expressions]
    Jref = [[exact_eval(sp.diff(exprs[i], xs[j]).xreplace(pt), prec) for j in range(l)] for i in range(p)]
    J = M.jacobian_expr
    if tuple(J.shape) != (p, l):
        return [("jac-shape", 0, 0, str(J.shape), str((p, l)))]
    Jv = [[val(J[i, j]) for j in range(l)] for i in range(p)]
    scale = 1 + max(abs(x) for r in Jref for x in r)

    def close(a, b, s):
        return abs(a - b) <= tol * s

    if base == "ref":
        for i in range(p):
            for j in range(l):
                if not close(Jv[i][j], Jref[i][j], scale):
                    bad.append(("jac", i, j, str(Jv[i][j])[:25], str(Jref[i][j])[:25]))
    else:
        Jref = Jv
        scale = 1 + max(abs(x) for r in Jref for x in r)
    for key, stored in (("jac", J), ("inv", M.jacobian_inv_expr)):
        g = (given or {}).get(key)
        if g is None:
            continue
        if stored is None or tuple(stored.shape) != tuple(g.shape):
            bad.append(("given-" + key, 0, 0, "shape %s" % (None if stored is None else str(stored.shape)), str(g.shape)))
            continue
        for i in range(g.shape[0]):
            for j in range(g.shape[1]):
                a, b = val(stored[i, j]), val(g[i, j])
                if not close(a, b, 1 + abs(b)):
                    bad.append(("given-" + key, i, j, str(a)[:25], str(b)[:25]))
    Ji = M.jacobian_inv_expr
    if l == p:
        if Ji is None:
            bad.append(("jinv-missing", 0, 0, "None", "inverse"))
        else:
            Jiv = [[val(Ji[i, j]) for j in range(p)] for i in range(l)]
            s2 = scale * (1 + max(abs(x) for r in Jiv for x in r))
            for i in range(p):
                for k in range(p):
                    got = sum(Jref[i][j] * Jiv[j][k] for j in range(l))
                    if not close(got, 1 if i == k else 0, s2):
                        bad.append(("jinv", i, k, str(got)[:25], "1" if i == k else "0"))
    G = M.metric_expr
    Gref = [[sum(Jref[i][a] * Jref[i][b] for i in range(p)) for b in range(l)] for a in range(l)]
    for a in range(l):
        for b in range(l):
            got = val(G[a, b])
            if not close(got, Gref[a][b], scale * scale):
                bad.append(("metric", a, b, str(got)[:25], str(Gref[a][b])[:25]))
    dref = sp.Matrix(Gref).det()
    got = val(M.metric_det_expr)
    if not close(got, dref, scale ** (2 * l)):
        bad.append(("mdet", 0, 0, str(got)[:25], str(dref)[:25]))
    return bad


def read_given(M, case):
    """The matrices a user class supplies (strings), in the runner's OWN reading - independent of Mapping.__new__:
    symbols are matched by name and replaced simultaneously: logical coordinates -> the mapping's logical coordinates
    (those beyond ldim -> 0), parameters -> the values given to the constructor resp. the parameter objects of the
    coordinate expressions, names of the physical coordinates -> the coordinate expressions."""
    import sympy as sp
    u = case.get("user") or {}
    l, p = int(M.ldim), int(M.pdim)
    xs = list(M.logical_coordinates) if l > 1 else [M.logical_coordinates]
    repl = {}
    for i, n in enumerate(LOGI):
        repl[n] = xs[i] if i < l else sp.Integer(0)
    for s_ in sp.Tuple(*M.expressions).free_symbols - set(xs):
        repl[s_.name] = s_
    for k, v in (case.get("params") or {}).items():
        repl[k] = sp.sympify(param_value(v))
    pnames = case.get("coordinates") or ["x", "y", "z"][:p]
    for n, e in zip(pnames, M.expressions):
        repl[str(n)] = e
    out = {}
    for key, attr in (("jac", "jac"), ("inv", "inv_jac")):
        if u.get(attr) is None:
            out[key] = None
            continue
        m = sp.Matrix([[sp.sympify(x) for x in row] for row in u[attr]])
        out[key] = m.xreplace({sp.Symbol(k): v for k, v in repl.items()})
    return out


def stored_inverse(M):
    """jacobian_inv_expr; a mapping WITHOUT expressions computes it on demand and raises on a non-square Jacobian"""
    from sympy.matrices import NonSquareMatrixError
    try:
        return M.jacobian_inv_expr
    except NonSquareMatrixError:
        if M.expressions is None and int(M.ldim) != int(M.pdim):
            return None
        raise


def mapping_exprs(M):
    """the coordinate functions: the analytical expressions, or the components M[i] of a mapping without expressions"""
    return list(M.expressions) if M.expressions is not None else [M[i] for i in range(int(M.pdim))]


def meta_of(M, case):
    """What the object exposes besides the five quantities: dimensions, names and assumptions of its coordinates,
    and the symbols of the stored quantities that are NOT the mapping's logical coordinates / the parameter objects
    of its coordinate expressions (compared as sympy objects: name AND assumptions AND class)."""
    import sympy as sp
    l, p = int(M.ldim), int(M.pdim)
    lc = M.logical_coordinates
    lc = list(lc) if l > 1 else [lc]
    pc = M.coordinates
    is_seq = isinstance(pc, (tuple, sp.Tuple))
    pcl = list(pc) if is_seq else [pc]
    out = {"ldim": l, "pdim": p, "name": str(M.name), "coordinates": [str(c) for c in pcl],
           "coordinates_real": [bool(getattr(c, "is_real", False)) and isinstance(c, sp.Symbol) for c in pcl],
           "coordinates_seq": bool(is_seq), "logical": [str(c) for c in lc],
           "logical_real": [bool(c.is_real) for c in lc], "analytical": bool(M.is_analytical)}
    if M.expressions is not None:
        from sympde.core import Constant
        allowed = set(lc) | sp.Tuple(*M.expressions).free_symbols
        fs = set()
        Ji = M.jacobian_inv_expr
        for e in list(M.jacobian_expr) + list(M.metric_expr) + [M.metric_det_expr] + (list(Ji) if Ji is not None else []):
            fs |= sp.sympify(e).free_symbols
        out["stray_symbols"] = sorted(sp.srepr(x) for x in fs - allowed)[:6]
        params = sp.Tuple(*M.expressions).free_symbols - set(lc)
        out["parameters"] = sorted(str(x) for x in params)
        out["parameters_are_Constant"] = all(isinstance(x, Constant) for x in params)
        out["constants"] = sorted(str(x) for x in (M.constants or ()))
    return out


def abstract_oracle(M, seed):
    """A mapping WITHOUT expressions: the stored Jacobian must be the matrix of the atoms d M[i] / d x_j; inverse,
    metric and determinant are evaluated exactly with random rational values for these atoms."""
    import random
    import sympy as sp
    rng = random.Random(seed)
    l, p = int(M.ldim), int(M.pdim)
    J = M.jacobian_expr
    bad = []
    if tuple(J.shape) != (p, l):
        return {"tried": 0, "refused": 0, "fails": [{"params": {}, "point": {}, "bad": [("jac-shape", 0, 0, str(J.shape), str((p, l)))]}]}
    for i in range(p):
        for j in range(l):
            want = {"k": "at", "t": "map", "m": str(M.name), "i": i, "al": [0] * j + [1]}
            try:
                got = ser.ser_atom(J[i, j]) if _is_derivative(J[i, j]) else None
            except ser.Unsupported:
                got = None
            if got != want:
                bad.append(("jac", i, j, str(J[i, j])[:25], "dx%d(%s[%d])" % (j + 1, M.name, i)))
    tried = 0
    Ji = stored_inverse(M)
    if not bad:
        for _ in range(3):
            vals = {J[i, j]: sp.Rational(rng.randint(1, 9) * rng.choice([1, -1]), rng.choice([1, 2, 3, 5])) + (3 if i == j else 0)
                    for i in range(p) for j in range(l)}
            Jv = sp.Matrix(p, l, lambda i, j: vals[J[i, j]])
            if l == p and Jv.det() == 0:
                continue
            tried += 1
            Gv = Jv.T * Jv
            if sp.Matrix(M.metric_expr).xreplace(vals) != Gv:
                bad.append(("metric", 0, 0, "", ""))
            if sp.nsimplify(sp.sympify(M.metric_det_expr).xreplace(vals)) != Gv.det():
                bad.append(("mdet", 0, 0, str(sp.sympify(M.metric_det_expr).xreplace(vals)), str(Gv.det())))
            if l == p:
                if Ji is None:
                    bad.append(("jinv-missing", 0, 0, "None", "inverse"))
                elif (Jv * sp.Matrix(Ji).xreplace(vals)).applyfunc(sp.nsimplify) != sp.eye(p):
                    bad.append(("jinv", 0, 0, "", ""))
            if bad:
                break
    fails = [{"params": {}, "point": {}, "bad": bad[:6]}] if bad else []
    return {"tried": tried, "refused": 0, "fails": fails}


def _in_range(rng, lo, hi, den=60):
    import sympy as sp
    a, b = int(round(lo * den)), int(round(hi * den))
    n = rng.randint(min(a, b), max(a, b))
    if n == 0:
        n = 1
    return sp.Rational(n, den)


def run_oracle(case, M=None):
    """Random exact parameter sets (inside the admissible ranges given by the caller) x rational points;
    returns the failing (parameters, point) pairs."""
    import random
    rng = random.Random(case.get("seed", 0))
    if M is None:
        M = build(case, exact=True)
    xs = list(M.logical_coordinates) if M.ldim > 1 else [M.logical_coordinates]
    # the symbols that really occur in the stored expressions (M.constants holds plain Symbols of the same names,
    # which are NOT the Constant objects substituted into the expressions)
    import sympy as sp
    fs = set()
    for e in list(M.expressions) + list(M.jacobian_expr) + list(M.metric_expr) + [M.metric_det_expr] + \
            (list(M.jacobian_inv_expr) if M.jacobian_inv_expr is not None else []):
        fs |= sp.sympify(e).free_symbols
    consts_syms = sorted(fs - set(xs), key=str)
    ranges = case.get("ranges") or {}
    given = read_given(M, case) if case.get("base") == "stored" else None
    tried, refused = 0, 0
    fails = []
    for _ in range(case.get("nparams", 3)):
        consts = {c: _in_range(rng, *ranges.get(str(c), (0.25, 2.0))) for c in consts_syms}
        for _ in range(case.get("npoints", 3)):
            pt = {x: _in_range(rng, *ranges.get(str(x), (0.1, 0.95)), den=rng.choice([7, 11, 13, 20])) for x in xs}
            try:
                bad = coherence_at(M, consts, pt, base=case.get("base", "ref"), given=given)
            except (Refused, ZeroDivisionError):
                refused += 1
                continue
            tried += 1
            if bad:
                fails.append({"params": {str(k): str(v) for k, v in consts.items()},
                              "point": {str(k): str(v) for k, v in pt.items()}, "bad": bad[:6]})
                if len(fails) >= 2:
                    return {"tried": tried, "refused": refused, "fails": fails}
    return {"tried": tried, "refused": refused, "fails": fails}


# ----------------------------------------------------------------------------------------------- numeric part
def _f(x):
    return float(x)


def _frac(v):
    """exact value of a number as 'p/q' (or 'p'); anything symbolic: its srepr"""
    import fractions
    import sympy as sp
    try:
        if isinstance(v, sp.Rational):
            return str(fractions.Fraction(int(v.p), int(v.q)))
        if isinstance(v, sp.Float):
            return str(fractions.Fraction(float(v)))
        if isinstance(v, sp.Basic):
            return "sym:" + sp.srepr(v)
        return str(fractions.Fraction(v.item() if hasattr(v, "item") else v))
    except (TypeError, ValueError):
        return "other:" + type(v).__name__


def callable_props(F, M):
    """The symbolic information a CallableMapping exposes (properties ldim / pdim / params / symbolic_mapping)."""
    prm = F.params
    return {"ldim": int(F.ldim), "pdim": int(F.pdim), "params": {str(k): _frac(v) for k, v in dict(prm).items()},
            "symbolic_is_mapping": F.symbolic_mapping is M,
            "symbolic_dims": [int(F.symbolic_mapping.ldim), int(F.symbolic_mapping.pdim)]}


def run_numeric(case, M=None, F=None):
    """Callable mapping (real get_callable_mapping) against exact evaluation.

    Reference, independent of every stored quantity: the coordinate expressions of the object built with the EXACT
    rational value of every parameter, differentiated by sympy.diff, evaluated at the exact rational value of each
    float point with 40 digits; inverse / J^T J / determinant computed from those numbers.
    tolerance: |a-b| <= tol * (1+|b|) * kappa, kappa = 1 except for the inverse (condition number of J).
    """
    import numpy as np
    import sympy as sp
    tol = case.get("tol", 1e-9)
    if M is None:
        M = build(case)
    Mx = build(case, exact=True)
    l, p = int(M.ldim), int(M.pdim)
    xs = list(M.logical_coordinates) if l > 1 else [M.logical_coordinates]
    xsx = list(Mx.logical_coordinates) if l > 1 else [Mx.logical_coordinates]
    own = F is None
    if own:
        F = M.get_callable_mapping()
    exprs = [sp.sympify(e) for e in Mx.expressions]
    Jsym = [[sp.diff(e, x) for x in xsx] for e in exprs]
    out = {"points": 0, "compared": 0, "worst": {}, "fails": [], "refused_points": 0}
    out["props"] = dict(callable_props(F, M), cached=(M.get_callable_mapping() is F) if own else None)

    def reference(pt):
        sub = {x: sp.Rational(v) for x, v in zip(xsx, pt)}
        X = [exact_eval(e.xreplace(sub), 40) for e in exprs]
        J = sp.Matrix([[exact_eval(Jsym[i][j].xreplace(sub), 40) for j in range(l)] for i in range(p)])
        G = J.T * J
        ref = {"call": X, "jacobian": J, "metric": G, "metric_det": G.det()}
        kap = 1.0
        if l == p:
            Ji = J.inv()
            ref["jacobian_inv"] = Ji
            kap = max(1.0, float(J.norm() * Ji.norm()))
        return ref, kap

    def cmp(name, got, want, kap, pt, idx=None):
        got = np.asarray(got, dtype=float)
        want = np.array([[_f(want[i, j]) for j in range(want.shape[1])] for i in range(want.shape[0])]) \
            if hasattr(want, "shape") else np.asarray([_f(w) for w in want] if isinstance(want, (list, tuple)) else _f(want))
        if got.shape != want.shape:
            out["fails"].append({"quantity": name, "point": pt, "shape": list(got.shape), "want_shape": list(want.shape)})
            return
        err = np.abs(got - want) / (1.0 + np.abs(want))
        e = float(np.max(err)) if err.size else 0.0
        out["compared"] += int(err.size)
        out["worst"][name] = max(out["worst"].get(name, 0.0), e)
        k = kap if name == "jacobian_inv" else 1.0
        if not (e <= tol * k):
            out["fails"].append({"quantity": name, "point": pt, "index": idx, "rel_err": e, "kappa": k,
                                 "got": np.asarray(got).ravel().tolist()[:9], "want": want.ravel().tolist()[:9]})

    quantities = ["jacobian", "metric", "metric_det"] + (["jacobian_inv"] if l == p else [])
    refs = {}
    for pt in case["points"]:
        pt = [float(v) for v in pt]
        try:
            ref, kap = reference(pt)
        except (Refused, ZeroDivisionError, ValueError):
            out["refused_points"] += 1
            continue
        if kap > 1e6:
            out["refused_points"] += 1
            continue
        refs[tuple(pt)] = (ref, kap)
        out["points"] += 1
        cmp("call", list(F(*pt)), ref["call"], kap, pt)
        for q in quantities:
            cmp(q, getattr(F, q)(*pt), ref[q], kap, pt)
    # arrays of points: every element must equal the value at that point, and the shape must be component shape + grid
    for grid in case.get("grids", []):
        arrs = [np.array(a, dtype=float) for a in grid]
        try:
            bshape = np.broadcast_shapes(*[a.shape for a in arrs])
        except ValueError:
            continue
        barr = [np.broadcast_to(a, bshape) for a in arrs]
        got = {"call": F(*arrs)}
        for q in quantities:
            got[q] = getattr(F, q)(*arrs)
        cshape = {"call": None, "jacobian": (p, l), "jacobian_inv": (l, p), "metric": (l, l), "metric_det": ()}
        for q in ["call"] + quantities:
            shapes = [np.shape(c) for c in got[q]] if q == "call" else [np.shape(got[q])]
            want_shape = tuple(bshape) if q == "call" else tuple(cshape[q]) + tuple(bshape)
            if any(tuple(sh) != want_shape for sh in shapes):
                out["fails"].append({"quantity": q, "grid_shapes": [list(a.shape) for a in arrs],
                                     "shape": [list(sh) for sh in shapes], "want_shape": list(want_shape)})
        for idx in np.ndindex(*bshape):
            pt = [float(b[idx]) for b in barr]
            key = tuple(pt)
            if key not in refs:
                try:
                    refs[key] = reference(pt)
                except (Refused, ZeroDivisionError, ValueError):
                    continue
            ref, kap = refs[key]
            if kap > 1e6:
                continue
            out["points"] += 1
            try:
                cmp("call", [np.asarray(c)[idx] for c in got["call"]], ref["call"], kap, pt, list(idx))
                for q in quantities:
                    g = np.asarray(got[q])
                    cmp(q, g[(Ellipsis,) + idx] if g.ndim > len(idx) else g[idx], ref[q], kap, pt, list(idx))
            except (IndexError, TypeError):
                pass   # a wrong shape was already recorded above
    out["fails"] = out["fails"][:8]
    return out


# ----------------------------------------------------------------------------------------------- shape part
def _mk_input(spec):
    import numpy as np
    t = spec["t"]
    if t == "py":
        return float(spec.get("v", 0.5))
    if t == "pyint":
        return int(spec.get("v", 1))
    if t == "0d":
        return np.array(float(spec.get("v", 0.5)))
    n = 1
    for d in spec["shape"]:
        n *= d
    a = (np.arange(n, dtype=float) * 0.07 + spec.get("v", 0.3)).reshape(spec["shape"])
    if spec.get("int"):
        a = (np.arange(n) % 3 + 1).reshape(spec["shape"])
    return a


def _shape_of(x):
    import numpy as np
    return [int(d) for d in np.shape(x)]


def _kind(e):
    if isinstance(e, ValueError) and "broadcast" in str(e):
        return "refused:broadcast"
    return "error:" + type(e).__name__


def run_shape(case):
    import numpy as np
    import sympy as sp
    kind = case["kind"]
    if kind == "numpy":
        # numpy's own rule on arrays of the given shapes, and plain assignment dst[...] = src
        res = {}
        try:
            res["broadcast"] = [int(d) for d in np.broadcast(*[np.zeros(s) for s in case["shapes"]]).shape]
        except ValueError:
            res["broadcast"] = None
        asg = []
        for src, dst in case.get("assign", []):
            try:
                d = np.zeros(dst)
                d[...] = np.ones(src)
                asg.append(True)
            except ValueError:
                asg.append(False)
        res["assign"] = asg
        return res
    if kind == "lambdify":
        from sympde.utilities.utils import lambdify_sympde
        nv = len(case["inputs"])
        xs = sp.symbols("x1:%d" % (nv + 1), real=True)
        comps = []
        for k, mask in enumerate(case["masks"]):
            e = sp.Integer(k + 2)
            for i, m in enumerate(mask):
                if m:
                    e = e + (i + 2) * xs[i] if case.get("linear", True) else e * sp.cos(xs[i] + i)
            comps.append(e)
        cs = case["cshape"]
        if cs == []:
            expr = comps[0]
        elif len(cs) == 1:
            expr = sp.Tuple(*comps)
        else:
            expr = sp.Matrix(cs[0], cs[1], comps)
        f = lambdify_sympde(list(xs), expr)
        args = [_mk_input(s) for s in case["inputs"]]
        try:
            r = f(*args)
        except Exception as e:  # noqa
            return {"err": _kind(e), "msg": str(e)[:150]}
        out = {"shape": _shape_of(r)}
        # the property itself: shape = component shape + numpy broadcast shape, values = elementwise evaluation
        try:
            b = list(np.broadcast_shapes(*[np.shape(a) for a in args]))
        except ValueError:
            return dict(out, oracle="should-have-refused")
        want_shape = list(cs) + b
        ok = out["shape"] == want_shape
        if ok:
            ra = np.asarray(r, dtype=float).reshape([len(comps)] + b)
            for k, mask in enumerate(case["masks"]):
                e = np.zeros(b) + (k + 2)
                for i, m in enumerate(mask):
                    if m:
                        e = e + (i + 2) * np.broadcast_to(np.asarray(args[i], dtype=float), b) if case.get("linear", True) \
                            else e * np.cos(np.broadcast_to(np.asarray(args[i], dtype=float), b) + i)
                if not np.allclose(ra[k], e, rtol=1e-12, atol=1e-12):
                    ok = False
        out["oracle"] = "ok" if ok else "wrong"
        out["want_shape"] = want_shape
        return out
    if kind == "callable":
        M = build(case)
        F = M.get_callable_mapping()
        l, p = int(M.ldim), int(M.pdim)
        xs = list(M.logical_coordinates) if l > 1 else [M.logical_coordinates]

        def mask(e):
            fs = sp.sympify(e).free_symbols if e is not None else set()
            return [x in fs for x in xs]

        def mmask(m):
            return [mask(m[i, j]) for i in range(m.shape[0]) for j in range(m.shape[1])] if m is not None else None
        out = {"ldim": l, "pdim": p, "m_expr": [mask(e) for e in M.expressions], "m_jac": mmask(M.jacobian_expr),
               "m_jinv": mmask(M.jacobian_inv_expr), "m_metric": mmask(M.metric_expr), "m_mdet": mask(M.metric_det_expr),
               "runs": []}
        for inputs in case["input_sets"]:
            args = [_mk_input(s) for s in inputs]
            r = {}
            try:
                b = list(np.broadcast_shapes(*[np.shape(a) for a in args]))
            except ValueError:
                b = None
            for q in ("call", "jacobian", "jacobian_inv", "metric", "metric_det"):
                if q == "jacobian_inv" and l != p:
                    continue
                try:
                    v = F(*args) if q == "call" else getattr(F, q)(*args)
                    r[q] = [_shape_of(c) for c in v] if q == "call" else _shape_of(v)
                except Exception as e:  # noqa
                    r[q] = {"err": _kind(e)}
                    continue
                # values: every element equals the value of the scalar call at that point
                if b is not None and 0 < int(np.prod(b)) <= 24 and b != []:
                    barr = [np.broadcast_to(np.asarray(a, dtype=float), b) for a in args]
                    ok = True
                    for idx in np.ndindex(*b):
                        pt = [float(x[idx]) for x in barr]
                        try:
                            s = F(*pt) if q == "call" else getattr(F, q)(*pt)
                            if q == "call":
                                g = [np.asarray(c)[idx] for c in v]
                                ok = ok and np.allclose(g, s, rtol=1e-10, atol=1e-12, equal_nan=True)
                            else:
                                g = np.asarray(v)
                                ok = ok and np.allclose(g[(Ellipsis,) + idx] if g.ndim > len(idx) else g[idx], s, rtol=1e-10,
                                                        atol=1e-12, equal_nan=True)
                        except (IndexError, TypeError, ValueError):
                            ok = False
                    r[q + ":values"] = bool(ok)
            r["broadcast"] = b
            out["runs"].append(r)
        return out
    raise ValueError(kind)


def run_probe(case):
    """CallableMapping(mapping, **params) on a mapping whose parameters were left symbolic: the values of all five
    quantities against the exact reference, and the symbolic information the callable exposes."""
    import numpy as np
    import sympy as sp
    from sympde.topology.callable_mapping import CallableMapping
    sym = dict(case, params={})
    M = build(sym)
    kw = {k: param_value(v) for k, v in case["params"].items()}
    Mx = build(dict(case), exact=True)
    xs = list(Mx.logical_coordinates) if Mx.ldim > 1 else [Mx.logical_coordinates]
    pt = [float(v) for v in case["point"]]
    sub = {x: sp.Rational(v) for x, v in zip(xs, pt)}
    want = [float(sp.N(e.xreplace(sub), 30)) for e in Mx.expressions]
    try:
        F = CallableMapping(M, **kw)
        got = [float(v) for v in F(*pt)]
    except Exception as e:  # noqa
        return {"ok": False, "what": "raised %s" % errkind(e), "msg": str(e)[:200], "want": want}
    ok = bool(np.allclose(got, want, rtol=1e-9, atol=1e-12))
    out = {"ok": ok, "got": got, "want": want, "what": None if ok else "wrong values",
           "symbolic_constants": sorted(str(c) for c in (M.constants or ()))}
    if ok:
        try:
            out["numeric"] = run_numeric(dict(case, points=[pt] + list(case.get("points", [])), grids=case.get("grids", [])), M, F=F)
        except Exception as e:  # noqa
            out["numeric"] = {"err": errkind(e), "msg": traceback.format_exc()[-600:]}
    return out


def run_ctor(case):
    """Behaviour of the constructor as a small enum: refusal kind / unevaluated object / object with its meta data."""
    cls = get_class(case)
    kw = build_kwargs(case, cls)
    for k, v in (case.get("raw") or {}).items():
        kw[k] = tuple(v) if case.get("raw_tuple") and isinstance(v, list) else v
    if "evaluate" in case:
        kw["evaluate"] = case["evaluate"]
    from sympy.core.cache import clear_cache
    clear_cache()
    try:
        M = cls(str(case.get("mname", "M")), **kw)
    except (ValueError, TypeError, AssertionError) as e:
        return {"outcome": errkind(e)}
    if case.get("evaluate") is False:
        # the bare object: nothing is parsed or computed (Mapping.copy fills it afterwards)
        return {"outcome": "unevaluated", "jac_none": M.jacobian_expr is None, "metric_none": getattr(M, "_metric", None) is None,
                "expressions_raw": M._expressions is None or isinstance(M._expressions, dict)}
    return {"outcome": "ok", "meta": meta_of(M, case)}


def run_full(case):
    """Build once; serialise, run the coherence oracle, the numeric comparison and the shape runs as requested."""
    want = case.get("want", ["entry"])
    t0 = time.time()
    M = build(case)
    out = {"build_s": round(time.time() - t0, 2)}
    abstract = M.expressions is None
    out["meta"] = meta_of(M, case)
    if "entry" in want:
        try:
            out["entry"] = {"ldim": int(M.ldim), "pdim": int(M.pdim), "expr": [ser16(e) for e in mapping_exprs(M)],
                            "jac": ser_mat(M.jacobian_expr), "jinv": ser_mat(stored_inverse(M)),
                            "metric": ser_mat(M.metric_expr), "mdet": ser16(M.metric_det_expr),
                            "constants": sorted(str(c) for c in (M.constants or ()))}
        except ser.Unsupported as e:
            out["entry"] = {"err": "unsupported-node", "msg": str(e)[:200]}
        if case.get("base") == "stored" and "err" not in out["entry"]:
            try:
                g = read_given(M, case)
                out["entry"]["given_jac"] = ser_mat(g["jac"])
                out["entry"]["given_inv"] = ser_mat(g["inv"])
            except ser.Unsupported as e:
                out["entry"]["given_err"] = str(e)[:200]
    if "copy" in want:
        # Mapping.copy() goes through the evaluate=False constructor: the copy must expose the same quantities
        C = M.copy()
        same = all(a == b for a, b in [(C.jacobian_expr, M.jacobian_expr), (C.metric_expr, M.metric_expr),
                                       (C.metric_det_expr, M.metric_det_expr), (C.expressions, M.expressions),
                                       (C.ldim, M.ldim), (C.pdim, M.pdim), (C.name, M.name)])
        if not abstract:
            same = same and C.jacobian_inv_expr == M.jacobian_inv_expr
        out["copy_same"] = bool(same)
    if "oracle" in want:
        try:
            if abstract:
                out["oracle"] = abstract_oracle(M, case.get("seed", 0))
            else:
                floaty = any(v[0] in ("float", "npfloat") for v in (case.get("params") or {}).values())
                out["oracle"] = run_oracle(dict(case, base="ref"), M if not floaty else None)
                if case.get("base") == "stored":
                    out["internal"] = run_oracle(case, M if not floaty else None)
        except Exception as e:  # noqa
            out["oracle"] = {"err": errkind(e), "msg": traceback.format_exc()[-600:]}
    if "numeric" in want:
        try:
            out["numeric"] = run_numeric(case, M)
        except Exception as e:  # noqa
            out["numeric"] = {"err": errkind(e), "msg": traceback.format_exc()[-600:]}
    return out


# ----------------------------------------------------------------------------------------------- main
def run_classes(case):
    import inspect
    from sympde.topology import analytical_mapping as am
    from sympde.topology.mapping import Mapping
    out = []
    for n, c in vars(am).items():
        if inspect.isclass(c) and issubclass(c, Mapping) and c is not Mapping and c.__module__ == am.__name__:
            out.append({"name": n, "ldim": c._ldim, "pdim": c._pdim,
                        "expressions": dict(c._expressions) if isinstance(c._expressions, dict) else None,
                        "jac": c._jac is not None, "inv_jac": c._inv_jac is not None})
    return {"classes": out}


def errkind(e):
    for cls in (NotImplementedError, AttributeError, TypeError, ValueError, AssertionError, IndexError, KeyError,
                ZeroDivisionError):
        if isinstance(e, cls):
            return cls.__name__
    return "other:" + type(e).__name__


def run_case(case):
    mode = case["mode"]
    if mode == "entry":
        return run_entry(case)
    if mode == "oracle":
        return run_oracle(case)
    if mode == "classes":
        return run_classes(case)
    if mode == "numeric":
        return run_numeric(case)
    if mode == "shape":
        return run_shape(case)
    if mode == "full":
        return run_full(case)
    if mode == "probe":
        return run_probe(case)
    if mode == "ctor":
        return run_ctor(case)
    raise ValueError(mode)


class CaseTimeout(BaseException):
    """per-case alarm; a BaseException so that no `except Exception` of a sub-step can swallow it"""


def _alarm(signum, frame):
    raise CaseTimeout()


def main():
    import signal
    payload = json.load(open(sys.argv[1]))
    res = []
    signal.signal(signal.SIGALRM, _alarm)
    for case in payload["cases"]:
        signal.alarm(int(case.get("timeout", payload.get("timeout", 600))))
        try:
            res.append(run_case(case))
        except CaseTimeout:
            res.append({"timeout": int(case.get("timeout", payload.get("timeout", 600)))})
        except Exception as e:  # noqa
            res.append({"crash": traceback.format_exc()[-1500:], "errkind": errkind(e)})
        finally:
            signal.alarm(0)
    json.dump({"results": res}, open(sys.argv[2], "w"))


if __name__ == "__main__":
    main()
