"""Implementation side of C02 (matrices stage): applies the real constructors of sympde.calculus.matrices
(Transpose, Inverse, MatSymbolicMul, MatSymbolicAdd, SymbolicTrace, SymbolicDeterminant, MatrixElement, the
Add / Mul post-processors, MatrixSymbolicExpr.__neg__ / __sub__) to generated argument trees.

case  : {"dim":d, "op":name, "args":[X..], "ij":[i,j], "seed":n}
          op in T Inv Tr Det Elem Mul Add PMul PAdd Neg Sub
X (JSON mx, one grammar for recipes and for serialised real expressions; mirrors coq mx, Model/MatricesM.v):
  {"k":"num","p","q"} {"k":"sc","t":"const|sf","n"} {"k":"mat","t":"jac|jaci|grad","n"}
  {"k":"add","a":[..]} {"k":"mul","a":[..]} {"k":"pow","b","e":int}
  {"k":"T","a"} {"k":"inv","a"} {"k":"tr","a"} {"k":"det","a"} {"k":"elem","a","i","j"}
result: {"ins":[X..]  the constructed arguments the constructor really received,
         "out": X | {"err":kind}, "str": str(result),
         "strs": [[X, str(X)]..]  str(.) of the sub-expressions (the code sorts sums by str),
         "term": TerminalExpr(result, domain) serialised (ser.ser_any) | {"err":..},
         "oracle": {"lit_ok", "res_vs_lit", "term_vs_lit", ...}}
The oracle is independent of the model: every mapping component / field / constant is an explicit polynomial
(ser.Concrete), the literal application is evaluated bottom-up with exact rational matrix algebra (sympy Matrix:
.T, .inv(), .trace(), .det(), *, +) at a rational point, and compared with (a) the same evaluation of the
constructed object and (b) the library's own evaluation TerminalExpr(result) instantiated at the same point.
"""
import json
import random
import sys
import traceback

import sympy as sp
from sympy import Add, Mul, Pow, Integer, Rational, S, Matrix

import ser
from ser import Unsupported

ERR = {"TypeError": "type-error", "ValueError": "value-error", "AttributeError": "attribute-error",
       "AssertionError": "assertion-error", "NotImplementedError": "not-implemented", "RecursionError": "recursion-error",
       "IndexError": "index-error", "ShapeError": "shape-error", "NonInvertibleMatrixError": "singular"}
OPS = ("T", "Inv", "Tr", "Det", "Elem", "Mul", "Add", "PMul", "PAdd", "Neg", "Sub")


def mats():
    import importlib
    return importlib.import_module("sympde.calculus.matrices")


# --------------------------------------------------------------------------- build (recipes -> real objects)
def build(j, env):
    M = mats()
    k = j["k"]
    if k == "num":
        return Rational(j["p"], j["q"])
    if k == "sc":
        return env.const(j["n"]) if j["t"] == "const" else env.scalar(j["n"])
    if k == "mat":
        if j["t"] == "jac":
            return env.map(j["n"]).jacobian
        if j["t"] == "jaci":
            return env.map(j["n"]).jacobian.inv()
        from sympde.calculus import grad
        return grad(env.vector(j["n"]))
    if k == "add":
        a = [build(x, env) for x in j["a"]]
        r = a[0]
        for x in a[1:]:
            r = r + x
        return r
    if k == "mul":
        a = [build(x, env) for x in j["a"]]
        r = a[0]
        for x in a[1:]:
            r = r * x
        return r
    if k == "pow":
        return build(j["b"], env) ** Integer(j["e"])
    if k == "T":
        return M.Transpose(build(j["a"], env))
    if k == "inv":
        return M.Inverse(build(j["a"], env))
    if k == "tr":
        return M.SymbolicTrace(build(j["a"], env))
    if k == "det":
        return M.SymbolicDeterminant(build(j["a"], env))
    if k == "elem":
        return M.MatrixElement(build(j["a"], env), (j["i"], j["j"]))
    raise Unsupported("recipe node " + k)


def apply_op(op, args, case):
    M = mats()
    if op == "T":
        return M.Transpose(args[0])
    if op == "Inv":
        return M.Inverse(args[0])
    if op == "Tr":
        return M.SymbolicTrace(args[0])
    if op == "Det":
        return M.SymbolicDeterminant(args[0])
    if op == "Elem":
        return M.MatrixElement(args[0], tuple(case["ij"]))
    if op == "Mul":
        return M.MatSymbolicMul(*args)
    if op == "Add":
        return M.MatSymbolicAdd(*args)
    if op == "PMul":
        return Mul(*args)
    if op == "PAdd":
        return Add(*args)
    if op == "Neg":
        return -args[0]
    if op == "Sub":
        return args[0] - args[1]
    raise Unsupported("op " + op)


def literal(op, ins, case):
    """the literal (un-rewritten) application as a tree"""
    if op == "T":
        return {"k": "T", "a": ins[0]}
    if op == "Inv":
        return {"k": "inv", "a": ins[0]}
    if op == "Tr":
        return {"k": "tr", "a": ins[0]}
    if op == "Det":
        return {"k": "det", "a": ins[0]}
    if op == "Elem":
        return {"k": "elem", "a": ins[0], "i": case["ij"][0], "j": case["ij"][1]}
    if op in ("Mul", "PMul"):
        return {"k": "mul", "a": list(ins)}
    if op in ("Add", "PAdd"):
        return {"k": "add", "a": list(ins)}
    if op == "Neg":
        return {"k": "mul", "a": [{"k": "num", "p": -1, "q": 1}, ins[0]]}
    if op == "Sub":
        return {"k": "add", "a": [ins[0], {"k": "mul", "a": [{"k": "num", "p": -1, "q": 1}, ins[1]]}]}
    raise Unsupported("op " + op)


# --------------------------------------------------------------------------- serialise real objects
def _comm(a):
    return bool(a.is_commutative)


def ser_m(expr):
    M = mats()
    from sympde.topology.space import ScalarFunction, VectorFunction
    from sympde.topology.mapping import JacobianSymbol, JacobianInverseSymbol
    from sympde.core.basic import Constant
    from sympde.calculus.core import Grad
    expr = sp.sympify(expr)
    if isinstance(expr, Integer):
        return {"k": "num", "p": int(expr), "q": 1}
    if isinstance(expr, Rational):
        return {"k": "num", "p": int(expr.p), "q": int(expr.q)}
    if isinstance(expr, Constant):
        return {"k": "sc", "t": "const", "n": expr.name}
    if isinstance(expr, ScalarFunction):
        return {"k": "sc", "t": "sf", "n": expr.name}
    if isinstance(expr, JacobianSymbol):
        if expr.axis is not None:
            raise Unsupported("JacobianSymbol with axis")
        return {"k": "mat", "t": "jac", "n": expr.mapping.name}
    if isinstance(expr, JacobianInverseSymbol):
        if expr.axis is not None:
            raise Unsupported("JacobianInverseSymbol with axis")
        return {"k": "mat", "t": "jaci", "n": expr.mapping.name}
    if isinstance(expr, Grad):
        if len(expr.args) == 1 and isinstance(expr.args[0], VectorFunction):
            return {"k": "mat", "t": "grad", "n": expr.args[0].name}
        raise Unsupported("Grad of %s" % type(expr.args[0]).__name__)
    if isinstance(expr, M.MatSymbolicAdd):
        return {"k": "add", "a": [ser_m(a) for a in expr.args]}          # the real order (sorted by str by the code)
    if isinstance(expr, Add):
        return {"k": "add", "a": [ser_m(a) for a in sorted(expr.args, key=str)]}      # sympy's own order is not modelled
    if isinstance(expr, Mul):
        cs = [a for a in expr.args if _comm(a)]
        ncs = [a for a in expr.args if not _comm(a)]
        nums = [a for a in cs if a.is_Rational]
        oth = sorted([a for a in cs if not a.is_Rational], key=str)
        return {"k": "mul", "a": [ser_m(a) for a in nums + oth + ncs]}
    if isinstance(expr, Pow):
        if not expr.exp.is_Integer:
            raise Unsupported("non-integer power")
        return {"k": "pow", "b": ser_m(expr.base), "e": int(expr.exp)}
    if isinstance(expr, M.Transpose):
        return {"k": "T", "a": ser_m(expr.arg)}
    if isinstance(expr, M.Inverse):
        return {"k": "inv", "a": ser_m(expr.arg)}
    if isinstance(expr, M.SymbolicTrace):
        return {"k": "tr", "a": ser_m(expr.args[0])}
    if isinstance(expr, M.SymbolicDeterminant):
        return {"k": "det", "a": ser_m(expr.args[0])}
    if isinstance(expr, M.MatrixElement):
        idx = expr.args[1]
        return {"k": "elem", "a": ser_m(expr.args[0]), "i": int(idx[0]), "j": int(idx[1])}
    raise Unsupported("node %s" % type(expr).__name__)


def sub_objects(e, acc, seen):
    """all sub-expressions (through .args, and through the non-Basic index tuple of MatrixElement)"""
    if not isinstance(e, sp.Basic) or e in seen:
        return
    seen.add(e)
    acc.append(e)
    for a in e.args:
        sub_objects(a, acc, seen)


# --------------------------------------------------------------------------- the oracle
class IllTyped(Exception):
    pass


class Undefined(Exception):
    pass


class MConcrete(ser.Concrete):
    """explicit polynomials for every mapping component / field, rationals for the constants; values at one point"""

    def __init__(self, rng, dim, deg=2):
        super().__init__(rng, dim=dim, deg=deg)
        self.pt = {s: Rational(self.rng.randint(3, 17), self.rng.randint(2, 7)) for s in self.syms[True]}

    def unit(self, i):
        return [1 if k == i else 0 for k in range(i + 1)]

    def at(self, e):
        v = sp.sympify(e).xreplace(self.pt)
        v = sp.nsimplify(v) if not v.is_Rational else v
        if not v.is_Rational:
            raise Undefined("value is not rational: %s" % str(v)[:60])
        return v

    def jac(self, m):
        d = self.dim
        return Matrix(d, d, lambda i, j: self.at(self.atom({"t": "map", "m": m, "i": i, "al": self.unit(j)}, True)))

    def gradv(self, F):
        d = self.dim
        return Matrix(d, d, lambda i, j: self.at(self.atom(
            {"t": "fld", "lg": True, "f": F, "c": j + 1, "s": "0", "al": self.unit(i)}, True)))

    def val(self, j):
        """exact value of a JSON mx tree at the point: Rational or d x d Matrix of Rationals"""
        k = j["k"]
        if k == "num":
            return Rational(j["p"], j["q"])
        if k == "sc":
            if j["t"] == "const":
                return self.const(j["n"])
            return self.at(self.atom({"t": "fld", "lg": True, "f": j["n"], "c": 0, "s": "0", "al": []}, True))
        if k == "mat":
            if j["t"] == "jac":
                return self.jac(j["n"])
            if j["t"] == "jaci":
                return self.inv(self.jac(j["n"]))
            return self.gradv(j["n"])
        if k == "add":
            vs = [self.val(a) for a in j["a"]]
            if not vs:
                raise IllTyped("empty sum")
            r = vs[0]
            for v in vs[1:]:
                if isinstance(r, sp.MatrixBase) != isinstance(v, sp.MatrixBase):
                    # the number 0 is also the zero matrix (MatSymbolicAdd drops it)
                    if not isinstance(v, sp.MatrixBase) and v == 0:
                        continue
                    if not isinstance(r, sp.MatrixBase) and r == 0:
                        r = v
                        continue
                    raise IllTyped("scalar + matrix")
                r = r + v
            return r
        if k == "mul":
            r = Integer(1)
            for a in j["a"]:
                r = r * self.val(a)
            return r
        if k == "pow":
            b, e = self.val(j["b"]), j["e"]
            if isinstance(b, sp.MatrixBase):
                if e < 0:
                    return self.inv(b ** (-e))
                return b ** e
            if e < 0 and b == 0:
                raise Undefined("0 ** negative")
            return b ** e
        v = self.val(j["a"])
        if not isinstance(v, sp.MatrixBase):
            raise IllTyped("%s of a scalar" % k)
        if k == "T":
            return v.T
        if k == "inv":
            return self.inv(v)
        if k == "tr":
            return v.trace()
        if k == "det":
            return v.det()
        if k == "elem":
            if not (0 <= j["i"] < self.dim and 0 <= j["j"] < self.dim):
                raise IllTyped("index out of range")
            return v[j["i"], j["j"]]
        raise Unsupported("value of node " + k)

    @staticmethod
    def inv(A):
        if A.det() == 0:
            raise Undefined("singular matrix")
        return A.inv()

    def tensor(self, t):
        """value of a serialised TerminalExpr result"""
        if isinstance(t, dict) and t.get("k") == "mat":
            return Matrix([[self.at(self.sx(e, True)) for e in row] for row in t["rows"]])
        return self.at(self.sx(t, True))


def same(a, b):
    am, bm = isinstance(a, sp.MatrixBase), isinstance(b, sp.MatrixBase)
    if am != bm:
        # TerminalExpr writes 1 x 1 matrices in places; a scalar 0 is the zero matrix
        if am and a.shape == (1, 1):
            return a[0, 0] == b
        if bm and b.shape == (1, 1):
            return b[0, 0] == a
        if am and b == 0:
            return all(x == 0 for x in a)
        if bm and a == 0:
            return all(x == 0 for x in b)
        return False
    if am:
        return a.shape == b.shape and all(x == y for x, y in zip(a, b))
    return a == b


def show(v):
    return str(v.tolist() if isinstance(v, sp.MatrixBase) else v)[:300]


# --------------------------------------------------------------------------- one case
def run_case(case):
    from sympy.core.cache import clear_cache
    clear_cache()
    d = case["dim"]
    op = case["op"]
    env = ser.Env(dim=d)
    out = {}
    try:
        args = [build(a, env) for a in case["args"]]
    except Unsupported as e:
        return {"arg_error": "unsupported", "msg": str(e)[:200]}
    except Exception as e:  # noqa
        return {"arg_error": ERR.get(type(e).__name__, "other"), "msg": "%s: %s" % (type(e).__name__, str(e)[:160])}
    try:
        out["ins"] = [ser_m(a) for a in args]
    except Unsupported as e:
        return {"arg_error": "unsupported", "msg": str(e)[:200]}
    res = None
    try:
        res = apply_op(op, args, case)
        out["out"] = ser_m(res)
        out["str"] = str(res)[:300]
        out["cls"] = type(res).__name__
    except Unsupported as e:
        out["out"] = {"err": "unsupported-node", "msg": str(e)[:200]}
    except Exception as e:  # noqa
        out["out"] = {"err": ERR.get(type(e).__name__, "other"), "msg": "%s: %s" % (type(e).__name__, str(e)[:160])}
    # str(.) of every sub-expression of the arguments and of the result
    objs, seen = [], set()
    for a in args + ([res] if res is not None and "err" not in out["out"] else []):
        sub_objects(a, objs, seen)
    strs, keys = [], set()
    for o in objs:
        if len(strs) >= 120:
            break
        try:
            sj = ser_m(o)
            st = str(o)
        except Exception:  # noqa
            continue
        kk = json.dumps(sj, sort_keys=True)
        if kk in keys or len(st) > 400 or not all(32 <= ord(ch) < 127 for ch in st):
            continue
        keys.add(kk)
        strs.append([sj, st])
    out["strs"] = strs
    # the library's own evaluation of the constructed result
    if res is not None and "err" not in out["out"]:
        try:
            from sympde.expr import TerminalExpr
            t = TerminalExpr(res, env.domain)
            out["term"] = ser.ser_any(t)
        except Unsupported as e:
            out["term"] = {"err": "unsupported-node", "msg": str(e)[:120]}
        except Exception as e:  # noqa
            out["term"] = {"err": ERR.get(type(e).__name__, "other"), "msg": "%s: %s" % (type(e).__name__, str(e)[:120])}
    # numeric (exact rational) oracle
    orc = {}
    try:
        conc = MConcrete(random.Random(case.get("seed", 0)), dim=d, deg=int(case.get("deg", 2)))
        lit = literal(op, out["ins"], case)
        try:
            vl = conc.val(lit)
            orc["lit_ok"] = True
        except IllTyped as e:
            vl = None
            orc["lit_ok"] = False
            orc["lit_msg"] = str(e)[:100]
        except Undefined as e:
            vl = None
            orc["lit_ok"] = None
            orc["lit_msg"] = str(e)[:100]
        if vl is not None and "err" not in out["out"]:
            try:
                vr = conc.val(out["out"])
                ok = same(vr, vl)
                orc["res_vs_lit"] = bool(ok)
                if not ok:
                    orc["info"] = {"point": {str(k): str(v) for k, v in conc.pt.items()}, "result": show(vr), "literal": show(vl)}
            except IllTyped as e:
                orc["res_vs_lit"] = "ill-typed"
                orc["info"] = str(e)[:100]
            except Undefined as e:
                orc["res_vs_lit"] = None
                orc["info"] = str(e)[:100]
            if "term" in out and "err" not in out["term"]:
                try:
                    vt = conc.tensor(out["term"])
                    ok = same(vt, vl)
                    orc["term_vs_lit"] = bool(ok)
                    if not ok:
                        orc["term_info"] = {"point": {str(k): str(v) for k, v in conc.pt.items()}, "lowered": show(vt), "literal": show(vl)}
                except Exception as e:  # noqa
                    orc["term_vs_lit"] = None
                    orc["term_msg"] = "%s: %s" % (type(e).__name__, str(e)[:100])
    except Exception as e:  # noqa
        orc["error"] = "%s: %s" % (type(e).__name__, str(e)[:200])
    out["oracle"] = orc
    return out


def run_isolated(case, limit):
    """run one case in a forked child (sympy can hang inside C code where no Python signal is served)"""
    import os
    import select
    import signal
    import time
    r, w = os.pipe()
    pid = os.fork()
    if pid == 0:
        os.close(r)
        try:
            try:
                out = run_case(case)
            except Exception:  # noqa
                out = {"crash": traceback.format_exc()[-1500:]}
            data = json.dumps(out).encode()
            with os.fdopen(w, "wb") as fh:
                fh.write(data)
        finally:
            os._exit(0)
    os.close(w)
    chunks = []
    deadline = time.time() + limit
    timed_out = False
    with os.fdopen(r, "rb") as fh:
        while True:
            left = deadline - time.time()
            if left <= 0:
                timed_out = True
                break
            ready, _, _ = select.select([fh], [], [], left)
            if not ready:
                timed_out = True
                break
            b = os.read(fh.fileno(), 1 << 16)
            if not b:
                break
            chunks.append(b)
    if timed_out:
        try:
            os.kill(pid, signal.SIGKILL)
        except OSError:
            pass
    os.waitpid(pid, 0)
    if timed_out:
        return {"timeout": limit}
    try:
        return json.loads(b"".join(chunks).decode())
    except Exception:  # noqa
        return {"crash": "child produced no result"}


def main():
    payload = json.load(open(sys.argv[1]))
    limit = int(payload.get("case_timeout", 45))
    import sympde.calculus.matrices  # noqa  (import once in the parent; children are forks)
    import sympde.topology.mapping  # noqa
    import sympde.expr  # noqa
    res = []
    for case in payload["cases"]:
        res.append(run_isolated(case, limit))
    json.dump({"results": res}, open(sys.argv[2], "w"))


if __name__ == "__main__":
    main()
