"""Implementation side of C15: real Domain.export -> Domain.from_file -> export through HDF5 / YAML files
written in the current working directory (the scratch directory of the run).

input : {"cases":[case..], "tag": str}  (case grammar of C13, plus "raw_min"/"raw_max" in a patch: the numbers
        handed to the constructor - int, float or "inf"/"-inf")
output: {"results":[{"dom":R, "todict":R, "export":R (file content as fdict), "reread":R (dom), "todict2":R,
                     "export2":R, "same_yaml":bool, "same_file":bool, "yaml1":text} | {"crash":trace}]}
fdict : {"name","dim","dtype":{"one":dt}|{"many":[dt..]},"interior":{"one":i}|{"many":[..]},
         "boundary":{"one":b}|{"many":[..]},"conn":[[key,b,b]..]}
"""
import json
import os
import sys
import traceback

from C13_impl import build_patch, build_join, enc_domain, errkind


def fhex(x):
    return float(x).hex()


def norm_dtype(dt):
    if not isinstance(dt, dict) or "type" not in dt:
        raise ValueError("unsupported-node:dtype %r" % (dt,))
    p = dt["parameters"]
    t = dt["type"]
    if t == "Line":
        return {"type": t, "b": [fhex(x) for x in p["bounds"]]}
    if t == "Square":
        return {"type": t, "b": [fhex(x) for x in list(p["bounds1"]) + list(p["bounds2"])]}
    if t == "Cube":
        return {"type": t, "b": [fhex(x) for x in list(p["bounds1"]) + list(p["bounds2"]) + list(p["bounds3"])]}
    if t == "NCube":
        return {"type": t, "dim": int(p["dim"]), "min": [fhex(x) for x in p["min_coords"]], "max": [fhex(x) for x in p["max_coords"]]}
    raise ValueError("unsupported-node:dtype %r" % (t,))


def norm_bnd(b):
    return {"axis": int(b["axis"]), "ext": int(b["ext"]), "name": str(b["name"]), "patch": str(b["patch"]),
            "mapping": str(b["mapping"])}


def one_or_many(x, f):
    if isinstance(x, dict):
        return {"one": f(x)}
    if isinstance(x, list):
        return {"many": [f(y) for y in x]}
    raise ValueError("unsupported-node:%r" % (type(x).__name__,))


def norm_fdict(d):
    return {"name": str(d["name"]), "dim": int(d["dim"]),
            "dtype": one_or_many(d["dtype"], norm_dtype),
            "interior": one_or_many(d["interior"], lambda i: {"name": str(i["name"]), "mapping": str(i["mapping"])}),
            "boundary": one_or_many(d["boundary"], norm_bnd),
            "conn": [[str(k), norm_bnd(v[0]), norm_bnd(v[1])] for k, v in d["connectivity"].items()]}


def guarded(f):
    try:
        return {"ok": f()}
    except Exception as e:  # noqa
        return {"err": errkind(e), "msg": str(e)[:160]}


def read_yaml_text(fn):
    import h5py
    h5 = h5py.File(fn, mode="r")
    try:
        return h5["topology.yml"][()]
    finally:
        h5.close()


def run_case(case, fname):
    import yaml
    from sympy.core.cache import clear_cache
    from sympde.topology import Domain
    clear_cache()
    cache = {}
    specs = []
    for s in case["patches"]:
        s2 = dict(s)
        if "raw_min" in s:
            s2["min"] = [float(x) if isinstance(x, str) else x for x in s["raw_min"]]
            s2["max"] = [float(x) if isinstance(x, str) else x for x in s["raw_max"]]
        specs.append(s2)
    patches = [build_patch(s, cache) for s in specs]
    out = {}
    try:
        D = patches[0] if case.get("single") else build_join(case, patches)
    except Exception as e:  # noqa
        out["dom"] = {"err": errkind(e), "msg": str(e)[:160]}
        return out
    out["dom"] = {"ok": enc_domain(D)}
    out["todict"] = guarded(lambda: norm_fdict(D.todict()))
    f1, f2 = fname + "_1.h5", fname + "_2.h5"
    for f in (f1, f2):
        if os.path.exists(f):
            os.remove(f)
    r = guarded(lambda: D.export(f1))
    if "err" in r:
        out["export"] = r
        return out
    y1 = read_yaml_text(f1)
    out["yaml1"] = y1.decode("ascii", "replace")
    out["export"] = guarded(lambda: norm_fdict(yaml.load(y1, Loader=yaml.SafeLoader)))
    holder = {}

    def reread():
        holder["R"] = Domain.from_file(f1)
        return enc_domain(holder["R"])
    out["reread"] = guarded(reread)
    if "R" not in holder:
        return out
    R = holder["R"]
    out["reread_cls"] = type(R).__name__
    out["dom_cls"] = type(D).__name__
    out["todict2"] = guarded(lambda: norm_fdict(R.todict()))
    r = guarded(lambda: R.export(f2))
    if "err" in r:
        out["export2"] = r
        return out
    y2 = read_yaml_text(f2)
    out["export2"] = guarded(lambda: norm_fdict(yaml.load(y2, Loader=yaml.SafeLoader)))
    out["same_yaml"] = bool(y1 == y2)
    out["same_file"] = open(f1, "rb").read() == open(f2, "rb").read()
    if not out["same_yaml"]:
        out["yaml2"] = y2.decode("ascii", "replace")
    for f in (f1, f2):
        os.remove(f)
    return out


def main():
    payload = json.load(open(sys.argv[1]))
    tag = payload.get("tag", "c15_%d" % os.getpid())
    res = []
    for k, case in enumerate(payload["cases"]):
        try:
            res.append(run_case(case, "%s_%d" % (tag, k)))
        except Exception:  # noqa
            res.append({"crash": traceback.format_exc()})
    json.dump({"results": res}, open(sys.argv[2], "w"))


if __name__ == "__main__":
    main()
