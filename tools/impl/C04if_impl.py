"""Implementation side of C04, interface family: integrals over an INTERFACE of a mapped multi-patch domain whose
integrand contains DERIVATIVES OF RESTRICTED FUNCTIONS (the core of DG discretisations on mapped patches).

case (in addition to the keys of C04_impl): "iform": IX  - the integrand; "integrand": sx - the coefficient g used by {"k":"g"}
  IX ::= {"k":"num","p","q"} | {"k":"g"} | {"k":"fn","f":"u"|"v","s":"-"|"+"|"0"} | {"k":"nn"}
       | {"k":"grad","a":IX} | {"k":"d","i":n,"a":IX} | {"k":"Dn","a":IX} | {"k":"dot","a":[IX,IX]}
       | {"k":"jump","a":IX} | {"k":"avg","a":IX} | {"k":"res","s":"-"|"+","a":IX}   (restriction of a compound)
       | {"k":"mul","a":[IX..]} | {"k":"add","a":[IX..]}
result: {"kernels":[{"type","target","tags":[s_u,s_v]|None,"expr":sx}], "oracle":{...}} | {"err":enum,...}

ORACLE (independent of every model): explicit maps F_minus, F_plus whose parametrisations coincide along the common
face (polynomial maps for symbolic mappings - the second one is DERIVED from the first so that the traces agree but
the normal derivative of the map jumps -, the catalogue expressions with rational parameters otherwise), explicit
polynomials for the two one-sided restrictions of u and v (four DIFFERENT polynomials: the functions of a DG space
jump), the physical integrand evaluated classically (sympy.diff in x, y, z; jump(a) = a- - a+, avg(a) = (a- + a+)/2,
Dn(a) = grad(a).n) and split into its (trial side, test side) parts by setting the other restrictions to zero.
Each kernel of the implementation is evaluated at the pair of logical points (x^-, x^+) of the two patches that are
mapped to the same physical point p of the interface: the atoms of the minus side (logical unknown u^- = u- o F_minus,
M_minus[i], coordinates x1..) at x^-, those of the plus side (u^+ = u+ o F_plus, M_plus[i], x1_plus..) at x^+, and
compared with (part of the integrand at p) x (surface element of the face).  A boundary kernel on the plus face uses
the outward normal of the plus patch (= - the normal of the interface).
"""
import random
import traceback

import sympy as sp
from sympy import Rational, Symbol

import ser
from C11_impl import err_of, rand_map

LS = [Symbol(n, real=True) for n in ser.LOGI]
XS = [Symbol(n, real=True) for n in ser.PHYS]
LP = [Symbol(n + "_P") for n in ser.LOGI]          # oracle-side names of the plus patch's logical coordinates
NS = [Symbol("N%d" % i) for i in range(3)]          # components of the normal of the interface (minus -> plus)


# ------------------------------------------------------------------------------------ building the integrand
def build_ix(j, ctx):
    from sympde.calculus import minus, plus, dot, grad, jump, avg, Dn
    from sympde.topology import dx, dy, dz
    k = j["k"]
    if k == "num":
        return Rational(j["p"], j["q"])
    if k == "g":
        return ctx["g"]
    if k == "nn":
        return ctx["nn"]
    if k == "fn":
        f = ctx[j["f"]]
        return {"-": minus, "+": plus, "0": (lambda a: a)}[j["s"]](f)
    if k == "grad":
        return grad(build_ix(j["a"], ctx))
    if k == "d":
        return [dx, dy, dz][j["i"]](build_ix(j["a"], ctx))
    if k == "Dn":
        return Dn(build_ix(j["a"], ctx))
    if k == "dot":
        return dot(build_ix(j["a"][0], ctx), build_ix(j["a"][1], ctx))
    if k == "jump":
        return jump(build_ix(j["a"], ctx))
    if k == "avg":
        return avg(build_ix(j["a"], ctx))
    if k == "res":
        return {"-": minus, "+": plus}[j["s"]](build_ix(j["a"], ctx))
    if k == "mul":
        r = build_ix(j["a"][0], ctx)
        for a in j["a"][1:]:
            r = r * build_ix(a, ctx)
        return r
    if k == "add":
        r = build_ix(j["a"][0], ctx)
        for a in j["a"][1:]:
            r = r + build_ix(a, ctx)
        return r
    raise ValueError(k)


def side_tag(t):
    from sympde.calculus.core import MinusInterfaceOperator, PlusInterfaceOperator
    if isinstance(t, MinusInterfaceOperator):
        return "-"
    if isinstance(t, PlusInterfaceOperator):
        return "+"
    return "?"


def lower_if(case, D, patches, env, C04):
    """kernels of TerminalExpr(LogicalExpr(form, D), D.logical_domain): [(type, target, tags, sympy expression)]"""
    from sympde.expr import TerminalExpr, integral, LinearForm, BilinearForm
    from sympde.topology.mapping import LogicalExpr
    from sympde.topology import ScalarFunctionSpace, VectorFunctionSpace, element_of, NormalVector
    kind = case.get("kind")            # None = H1 scalar (as before); "l2" scalar; with "vec": "hdiv" | "hcurl" | "h1" | "l2"
    if case.get("vec"):
        V = VectorFunctionSpace("V", D, kind=kind)
    else:
        V = ScalarFunctionSpace("V", D, kind=kind)
    u, v = element_of(V, "u"), element_of(V, "v")
    ctx = {"u": u, "v": v, "nn": NormalVector("nn"), "g": ser.build_sx(case["integrand"], env)}
    R = C04.region_of(case, D, patches)
    body = build_ix(case["iform"], ctx)
    if case["form"] == "linear":
        form = LinearForm(v, integral(R, body))
    else:
        form = BilinearForm((u, v), integral(R, body))
    ks = TerminalExpr(LogicalExpr(form, D), D.logical_domain)
    out = []
    for k in ks:
        typ = {"DomainExpression": "domain", "BoundaryExpression": "boundary", "InterfaceExpression": "interface"}[type(k).__name__]
        tags = None
        if typ == "interface":
            tags = [side_tag(k.trial), side_tag(k.test)]
        e = k.expr
        if isinstance(e, (sp.Matrix, sp.ImmutableDenseMatrix)) and e.shape != (1, 1):
            # vector trial / test functions: entry (i, j) keeps the terms with (v_i, u_j); the form is their sum
            e = sum(list(e), sp.S.Zero)
        else:
            e = C04.kernel_expr(k)
        out.append({"type": typ, "target": C04.ser_target(k.target), "tags": tags, "expr": e})
    return out


APPROX = [False]       # set by prep_kernel when a float literal had to be approximated / taken with its binary value


def prep_kernel(e):
    """components of the normal vector -> the constants nrm_0.. ; float literals with a short rational value -> exact"""
    from sympde.topology import NormalVector
    e = sp.sympify(e)
    rep = {}
    for a in e.atoms(sp.Indexed):
        if isinstance(a.base, NormalVector):
            rep[a] = Symbol("nrm_%d" % int(a.indices[0]))
    if rep:
        e = e.xreplace(rep)
    frep = {}
    for f in e.atoms(sp.Float):
        r = sp.nsimplify(f, rational=True)
        if abs(r.q) > 10 ** 6:
            # a float produced from the FLOAT bounds of a non-unit patch (x1 = 1.5 -> 0.1092896.. = 20/183): the simplest
            # rational within the rounding error when there is a short one, else the exact binary value; the comparison of
            # this output is then made with a relative tolerance of 1e-9 instead of 1e-25 (APPROX)
            r2 = sp.nsimplify(f, rational=True, tolerance=1e-13)
            r = r2 if abs(r2.q) <= 10 ** 6 else r
            APPROX[0] = True
        frep[f] = r
    if frep:
        e = e.xreplace(frep)
    return e


# ------------------------------------------------------------------------------------ the oracle
def iface_of(case):
    c = case["connectivity"][case["region"]["k"]]
    (im, ax, em), (ip, ax2, ep) = c[0], c[1]
    return im, ax, em, ip, ax2, ep


def face_coord(case, i, ax, e):
    """value of the logical coordinate x_ax of patch i on its face of side e (0 / 1 for the unit cube)"""
    b = case["patches"][i].get("bounds")
    if not b:
        return sp.Integer(1 if e == 1 else 0)
    lo, hi = b[ax]
    return sp.Rational(*(hi if e == 1 else lo))


def ornt_of(case):
    """orientation of the interface under test (2-D: +1 / -1; default +1)"""
    c = case["connectivity"][case["region"]["k"]]
    return int(c[2]) if len(c) > 2 else 1


def trace_and_normal(F, ax, b, d):
    """trace of the map on the face x_ax = b and its derivative across the face there"""
    tr = [f.subs(LS[ax], b) for f in F]
    nd = [sp.diff(f, LS[ax]).subs(LS[ax], b) for f in F]
    return tr, nd


def derived_map(rng, Fk, ax, bk, ek, bn, en, d, flip=False):
    """a polynomial map of the neighbouring patch: same trace on the common face as the known map Fk (face x_ax = bk,
    side ek of the known patch; face x_ax = bn, side en of the new one), but a DIFFERENT derivative across the face:
    F_new = trace + (x_ax - bn) * (alpha * dF_k/dx_ax|face + sum_j beta_j * d trace/dx_j + (x_ax - bn) * R)"""
    tr, nd = trace_and_normal(Fk, ax, bk, d)
    if flip:
        # orientation -1 (2-D): the tangential coordinate of the new patch runs the other way, t_new = 1 - t_known
        rev = {LS[j]: 1 - LS[j] for j in range(d) if j != ax}
        tr = [sp.expand(e.xreplace(rev)) for e in tr]
        nd = [sp.expand(e.xreplace(rev)) for e in nd]
    s = -sp.Integer(ek) / sp.Integer(en)                 # the new patch continues beyond the face
    while True:
        alpha = Rational(rng.choice([1, 2, 3, 5]), rng.choice([2, 3, 4]))
        if alpha != 1:                                   # det J_new = alpha * det J_known on the face: must differ
            break
    alpha = s * alpha
    tang = [j for j in range(d) if j != ax]
    beta = {j: Rational(rng.randint(-2, 2), 5) for j in tang}
    w = LS[ax] - bn
    F = []
    for i in range(d):
        G = alpha * nd[i] + sum(beta[j] * sp.diff(tr[i], LS[j]) for j in tang)
        R = Rational(rng.randint(-2, 2), 7) + sum(Rational(rng.randint(-1, 1), 6) * LS[j] for j in tang)
        F.append(sp.expand(tr[i] + w * (G + w * R)))
    return F


def analytic_map(M, base):
    F = [sp.sympify(e) for e in M.expressions]
    cs = {s: base.const(s.name) for e in F for s in e.free_symbols if s.name not in ser.LOGI}
    return [prep_kernel(e.xreplace(cs)).xreplace({Symbol(n): Symbol(n, real=True) for n in ser.LOGI}) for e in F]


def matched_maps(rng, case, maps, base):
    d = case["ldim"]
    im, ax, em, ip, _, ep = iface_of(case)
    bm, bp = face_coord(case, im, ax, em), face_coord(case, ip, ax, ep)
    kinds = [p["mapping"]["kind"] for p in case["patches"]]
    Fs = {}
    for i, (p, M) in enumerate(zip(case["patches"], maps)):
        if kinds[i] != "symbolic":
            Fs[i] = analytic_map(M, base)
    flip = ornt_of(case) == -1
    if kinds[im] == "symbolic" and kinds[ip] == "symbolic":
        Fs[im] = rand_map(rng, d, LS[:d])
        Fs[ip] = derived_map(rng, Fs[im], ax, bm, em, bp, ep, d, flip)
    elif kinds[im] == "symbolic":
        Fs[im] = derived_map(rng, Fs[ip], ax, bp, ep, bm, em, d, flip)
    elif kinds[ip] == "symbolic":
        Fs[ip] = derived_map(rng, Fs[im], ax, bm, em, bp, ep, d, flip)
    for i in range(len(case["patches"])):
        if i not in Fs:
            Fs[i] = rand_map(rng, d, LS[:d])
    return Fs


class Parts:
    """explicit polynomials of the one-sided restrictions; `zero` = the restrictions switched off"""

    def __init__(self, rng, d):
        self.rng, self.d = rng, d
        self.polys = {}
        self.zero = set()
        self.vec = False
        self.kind = None

    def poly(self, f, s, comp=0):
        if (f, s) in self.zero:
            return sp.S.Zero
        if comp:
            return self.poly("%s#%d" % (f, comp), s)
        if (f, s) not in self.polys:
            r = self.rng
            p = Rational(r.randint(1, 5))
            for _ in range(r.randint(3, 4)):
                m = Rational(r.randint(1, 7), r.randint(1, 3)) * r.choice([1, -1])
                for x in XS[: self.d]:
                    m *= x ** r.randint(0, 2)
                p += m
            mixed = Rational(r.randint(1, 5), r.randint(1, 3))       # every coordinate occurs: no gradient vanishes
            for x in XS[: self.d]:
                mixed *= x
            self.polys[(f, s)] = p + mixed + sum(Rational(r.randint(1, 3), 2) * x for x in XS[: self.d])
        return self.polys[(f, s)]


class Ambiguous(Exception):
    pass


class RestrictionLost(Exception):
    pass


def phys_ix(j, P, g, d, side=None):
    """classical value of the integrand at a point of the interface: scalar or list (vector)"""
    k = j["k"]
    if k == "num":
        return Rational(j["p"], j["q"])
    if k == "g":
        return g
    if k == "nn":
        return list(NS[:d])
    if k == "fn":
        s = j["s"] if j["s"] != "0" else side
        if s is None:
            raise Ambiguous("a function without restriction in an interface integrand")
        if P.vec:
            return [P.poly(j["f"], s, i + 1) for i in range(d)]
        return P.poly(j["f"], s)
    if k == "grad":
        a = phys_ix(j["a"], P, g, d, side)
        return [sp.diff(a, x) for x in XS[:d]]
    if k == "d":
        return sp.diff(phys_ix(j["a"], P, g, d, side), XS[j["i"]])
    if k == "Dn":
        a = phys_ix(j["a"], P, g, d, side)
        return sum(sp.diff(a, x) * n for x, n in zip(XS[:d], NS[:d]))
    if k == "dot":
        a, b = phys_ix(j["a"][0], P, g, d, side), phys_ix(j["a"][1], P, g, d, side)
        return sum(x * y for x, y in zip(a, b))
    if k == "jump":
        return vsub(phys_ix(j["a"], P, g, d, "-"), phys_ix(j["a"], P, g, d, "+"))
    if k == "avg":
        a, b = phys_ix(j["a"], P, g, d, "-"), phys_ix(j["a"], P, g, d, "+")
        return [(x + y) / 2 for x, y in zip(a, b)] if isinstance(a, list) else (a + b) / 2
    if k == "res":
        return phys_ix(j["a"], P, g, d, j["s"])
    if k == "mul":
        sc, vec = sp.S.One, None
        for a in j["a"]:
            v = phys_ix(a, P, g, d, side)
            if isinstance(v, list):
                if vec is not None:
                    raise ser.Unsupported("product of two vectors")
                vec = v
            else:
                sc = sc * v
        return [sc * x for x in vec] if vec is not None else sc
    if k == "add":
        r = phys_ix(j["a"][0], P, g, d, side)
        for a in j["a"][1:]:
            v = phys_ix(a, P, g, d, side)
            r = [x + y for x, y in zip(r, v)] if isinstance(r, list) else r + v
        return r
    raise ValueError(k)


def vsub(a, b):
    return [x - y for x, y in zip(a, b)] if isinstance(a, list) else a - b


def num(e, dps=50):
    """value of a closed expression with mpmath"""
    import mpmath
    e = sp.sympify(e)
    with mpmath.workdps(dps):
        if e.is_Rational:
            return mpmath.mpf(int(e.p)) / mpmath.mpf(int(e.q))
        f = sp.lambdify([], e, "mpmath")
        return mpmath.mpmathify(f())


class KernelValue:
    """the implementation's kernel with every atom made explicit.  `frames`: patch index -> logical symbols that the
    atoms of that patch are written in (LS for the patch the kernel lives on / the minus side, LP for the plus side)"""

    def __init__(self, case, Fs, P, base, frames, side_of_patch, normal_sign):
        self.case, self.Fs, self.P, self.base = case, Fs, P, base
        self.frames, self.side_of_patch, self.nsign = frames, side_of_patch, normal_sign
        self.byname = {p["mapping"]["name"]: i for i, p in enumerate(case["patches"])}
        self.d = case["ldim"]
        self._cache = {}

    def in_frame(self, e, i):
        syms = self.frames[i]
        return e.xreplace(dict(zip(LS, syms))) if syms is not LS else e

    def patch_of_side(self, s):
        for i, t in self.side_of_patch.items():
            if t == s and i in self.frames:
                return i
        raise ser.Unsupported("no patch of side %s in this kernel" % s)

    def atom(self, a):
        t = a["t"]
        d = self.d
        if t == "coord":
            if not a["lg"]:
                raise ser.Unsupported("physical coordinate left in the logical kernel")
            return LS[a["i"]]
        if t == "const":
            n = a["name"]
            if n.startswith("nrm_"):
                return self.nsign * NS[int(n[4:])]
            if n.endswith("_plus") and n[:-5] in ser.LOGI:
                return LP[ser.LOGI.index(n[:-5])]
            return self.base.const(n)
        if t == "map":
            i = self.byname.get(a["m"])
            if i is None or i not in self.frames:
                raise ser.Unsupported("mapping %s of a patch that the kernel does not live on" % a["m"])
            p = self.Fs[i][a["i"]]
            for k, n in enumerate(a["al"]):
                for _ in range(n):
                    p = sp.diff(p, LS[k])
            return self.in_frame(p, i)
        if t == "fld":
            if any(a["al"]) and not a["lg"]:
                raise ser.Unsupported("physical derivative left in the logical kernel")
            if a["s"] == "0":
                if len(self.frames) != 1:
                    raise RestrictionLost("the function %s appears without restriction in a kernel over the interface" % a["f"])
                i = list(self.frames)[0]
                s = self.side_of_patch[i]
            else:
                s = a["s"]
                i = self.patch_of_side(s)
            p = self.logical_unknown(a["f"], a["c"], s, i)
            for k, n in enumerate(a["al"]):
                for _ in range(n):
                    p = sp.diff(p, LS[k])
            return self.in_frame(p, i)
        raise ser.Unsupported("atom " + t)

    def logical_unknown(self, f, c, s, i):
        """the logical unknown of side s (patch i), DEFINED from the physical polynomials by the pull-back of its kind
        with the mapping of that patch: H1 u o F; L2 det J (u o F); H(curl) J^T (u o F); H(div) det J J^-1 (u o F)"""
        d, P = self.d, self.P
        F = self.Fs[i]
        comp = lambda q: q.subs(list(zip(XS[:d], F)), simultaneous=True)  # noqa
        key = (f, s, i)
        if key not in self._cache:
            J = sp.Matrix([[sp.diff(F[a], LS[b]) for b in range(d)] for a in range(d)])
            det = J.det()
            kind = P.kind
            if not P.vec:
                v0 = comp(P.poly(f, s))
                self._cache[key] = [det * v0 if kind == "l2" else v0]
            else:
                U = sp.Matrix([comp(P.poly(f, s, a + 1)) for a in range(d)])
                L = {"hcurl": J.T * U, "hdiv": det * (J.inv() * U), "l2": det * U}.get(kind, U)
                self._cache[key] = [None] + [L[a] for a in range(d)]
        vals = self._cache[key]
        if (c == 0) != (not P.vec):
            raise ser.Unsupported("scalar / vector mismatch of %s" % f)
        return vals[c]

    def sx(self, j):
        k = j["k"]
        if k == "num":
            return Rational(j["p"], j["q"])
        if k == "at":
            return self.atom(j)
        if k == "add":
            return sp.Add(*[self.sx(a) for a in j["a"]])
        if k == "mul":
            return sp.Mul(*[self.sx(a) for a in j["a"]])
        if k == "pow":
            return sp.Pow(self.sx(j["b"]), self.sx(j["e"]))
        if k == "fn":
            return ser.FN[j["f"]](self.sx(j["a"]))
        raise ser.Unsupported("node " + k)


def oracle_if(case, kernels, maps):
    import mpmath
    rng = random.Random(case.get("seed", 0))
    d = case["ldim"]
    base = ser.Concrete(rng, dim=3)
    im, ax, em, ip, _, ep = iface_of(case)
    bm, bp = face_coord(case, im, ax, em), face_coord(case, ip, ax, ep)
    Fs = matched_maps(rng, case, maps, base)
    P = Parts(rng, d)
    P.vec, P.kind = bool(case.get("vec")), case.get("kind")
    names = [p["name"] for p in case["patches"]]
    g = ser.Concrete.sx(base, case["integrand"], False) if case.get("integrand") else sp.S.One
    bil = case["form"] == "bilinear"
    out = {"kernels": [], "expected": []}
    # ---- the parts of the integrand
    pairs = [(su, sv) for su in "-+" for sv in "-+"] if bil else [(None, sv) for sv in "-+"]
    parts = {}
    for su, sv in pairs:
        P.zero = {("v", s) for s in "-+" if s != sv} | ({("u", s) for s in "-+" if s != su} if bil else set())
        try:
            T = phys_ix(case["iform"], P, g, d)
        except Ambiguous as e:
            return {"failed": "ambiguous: %s" % e}
        if isinstance(T, list):
            return {"failed": "the integrand is not a scalar"}
        if sp.expand(T) != 0:
            parts[(su, sv)] = T
    P.zero = set()
    # ---- where each part must appear
    mface = {"t": "boundary", "patch": names[im], "axis": ax, "ext": em}
    pface = {"t": "boundary", "patch": names[ip], "axis": ax, "ext": ep}
    expect = {}
    for (su, sv), T in parts.items():
        if (su is None or su == sv):
            key = ("boundary", names[im] if sv == "-" else names[ip])
        else:
            key = ("interface", su, sv)
        expect[key] = expect.get(key, 0) + T
    out["expected"] = sorted("/".join(k) for k in expect)
    # ---- the measure of the face (the two parametrisations coincide on it: the same for both patches)
    cols = [j for j in range(d) if j != ax]

    def measure(i, b):
        if d == 1:
            return sp.S.One
        Tm = sp.Matrix([[sp.diff(Fi, LS[j]) for j in cols] for Fi in Fs[i]])
        return sp.sqrt((Tm.T * Tm).det()).subs(LS[ax], b)

    def kernel_key(k):
        if k["type"] == "interface":
            return ("interface", k["tags"][0], k["tags"][1])
        if k["type"] == "boundary":
            return ("boundary", k["target"]["patch"])
        return ("domain", k["target"].get("patch", "?"))

    npts = 2
    pts = []
    for _ in range(npts):
        t = {j: Rational(rng.randint(1, 9), rng.randint(10, 13)) for j in cols}
        flip = ornt_of(case) == -1
        xm = {LS[j]: t[j] for j in cols}; xm[LS[ax]] = sp.sympify(bm)
        xp = {LS[j]: (1 - t[j] if flip else t[j]) for j in cols}; xp[LS[ax]] = sp.sympify(bp)
        nv = {n: Rational(rng.randint(-5, 5) or 1, rng.randint(2, 6)) for n in NS}
        pm = [f.xreplace(xm) for f in Fs[im]]
        pp = [f.xreplace(xp) for f in Fs[ip]]
        gap = max(abs(num(a - b)) for a, b in zip(pm, pp))
        if gap > mpmath.mpf(10) ** (-30):
            return {"failed": "the two parametrisations do not coincide on the interface (gap %s)" % mpmath.nstr(gap, 5)}
        pts.append((xm, xp, nv, pm))
    seen = set()
    for k in kernels:
        key = kernel_key(k)
        o = {"key": "/".join(key)}
        want = expect.get(key)
        seen.add(key)
        if key[0] == "interface":
            frames, nsign, home, hb = {im: LS, ip: LP}, 1, im, bm
        elif key[0] == "boundary" and key[1] == names[ip]:
            frames, nsign, home, hb = {ip: LS}, -1, ip, bp
        elif key[0] == "boundary" and key[1] == names[im]:
            frames, nsign, home, hb = {im: LS}, 1, im, bm
        else:
            o.update(ok=False, why="kernel on a region that is neither the interface nor one of its two faces")
            out["kernels"].append(o)
            continue
        kv = KernelValue(case, Fs, P, base, frames, {im: "-", ip: "+"}, nsign)
        try:
            ke = kv.sx(k["expr"])
        except RestrictionLost as e:
            o.update(ok=False, info={"why": str(e)}, unexpected=False, restriction_lost=True)
            out["kernels"].append(o)
            continue
        except ser.Unsupported as e:
            o.update(ok=None, why="unsupported: %s" % e)
            out["kernels"].append(o)
            continue
        meas = measure(home, hb)
        ok, info = True, {}
        for xm, xp, nv, pm in pts:
            sub = dict(nv)
            if key[0] == "interface":
                sub.update(xm); sub.update({LP[j]: xp[LS[j]] for j in range(d)})
            elif home == ip:
                # a boundary kernel on the plus face: its coordinates are those of the plus patch; symbols x1_plus..
                # (left there by the renaming of the interface) are READ as the same coordinates and flagged
                sub.update(xp); sub.update({LP[j]: xp[LS[j]] for j in range(d)})
            else:
                sub.update(xm); sub.update({LP[j]: xm[LS[j]] for j in range(d)})
            try:
                got = num(ke.xreplace(sub))
                ref = (want if want is not None else sp.S.Zero)
                ref = sp.sympify(ref).xreplace(dict(zip(XS[:d], pm))).xreplace(nv) * meas.xreplace(sub)
                ref = num(ref)
            except Exception as e:  # noqa
                ok, info = None, {"why": "evaluation failed: %s %s" % (type(e).__name__, str(e)[:120])}
                break
            with mpmath.workdps(50):
                dlt = abs(got - ref) / max(1, abs(got), abs(ref))
            if dlt > mpmath.mpf(10) ** (-9 if case.get("_approx") else -25):
                ok = False
                info = {"point_minus": {str(a): str(b) for a, b in xm.items()}, "point_plus": {str(a): str(b) for a, b in xp.items()},
                        "kernel_value": mpmath.nstr(got, 25), "required_value": mpmath.nstr(ref, 25),
                        "expected_part": want is not None}
                break
        o.update(ok=ok, info=info, unexpected=(want is None),
                 plus_symbols_in_boundary_kernel=bool(key[0] == "boundary" and k.get("plus_symbols")))
        out["kernels"].append(o)
    out["missing"] = sorted("/".join(k) for k in expect if k not in seen)
    return out


# ------------------------------------------------------------------------------------ one case
def run_if_case(case, C04):
    from sympy.core.cache import clear_cache
    clear_cache()
    D, patches, maps = C04.build(case)
    env = C04.EnvP(case["pdim"])
    res = {}
    if ser.build_sx(case["integrand"], env) == 0:
        return {"err": "degenerate-zero-integrand"}      # the coefficient cancels: Integral(0, region) is the number 0
    try:
        ks = lower_if(case, D, patches, env, C04)
    except Exception as e:  # noqa
        res.update(err_of(e))
        tb = traceback.extract_tb(e.__traceback__)
        res["where"] = ["%s:%d %s" % (f.filename.split("/")[-1], f.lineno, f.name) for f in tb[-3:]]
        return res
    out = []
    APPROX[0] = False
    for k in ks:
        try:
            sx = ser.ser_sx(prep_kernel(k["expr"]))
        except ser.Unsupported as e:
            return {"err": "unsupported-node", "msg": str(e)[:200], "text": str(k["expr"])[:300],
                    "target": k["target"], "tags": k["tags"]}
        names = {a.name for a in sp.sympify(k["expr"]).free_symbols if a.name.endswith("_plus")}
        real = {(a.name, bool(a.is_real)) for a in sp.sympify(k["expr"]).free_symbols if a.name.endswith("_plus")}
        out.append({"type": k["type"], "target": k["target"], "tags": k["tags"], "expr": sx,
                    "plus_symbols": sorted(names), "plus_symbol_variants": len(real) - len(names)})
    res["kernels"] = out
    fm = {}
    for p, M in zip(case["patches"], maps):
        if M.is_analytical:
            try:
                fm[p["mapping"]["name"]] = [ser.ser_sx(prep_kernel(e)) for e in M.expressions]
            except ser.Unsupported:
                fm[p["mapping"]["name"]] = None
    res["fm"] = fm
    try:
        res["approx_floats"] = APPROX[0]
        res["oracle"] = oracle_if(dict(case, _approx=APPROX[0]), out, maps)
    except Exception as e:  # noqa
        res["oracle"] = {"failed": "%s: %s" % (type(e).__name__, str(e)[:200]), "tb": traceback.format_exc()[-800:]}
    return res
