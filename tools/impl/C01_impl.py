"""Implementation side of C01: builds real sympde expressions with the real operators, lowers them with the
real TerminalExpr and checks the result against the classical definitions on explicit polynomials.

case  : {"dim":d, "mapped":bool, "tree":G, "seed":n}
          mapped = True : M = Mapping('M', dim=d); domain = M(Line|Square|Cube)  -> physical dx,dy,dz
          mapped = False: Domain('Omega', dim=d) (logical coordinates x1,x2,x3)  -> dx1,dx2,dx3
result: {"in": G'            the CONSTRUCTED object re-serialised (what TerminalExpr receives),
         "out": {"k":"sc","v":sx} | {"k":"mat","rows":[[sx]]} | {"k":"tup","items":[sx]} | {"err":kind,...},
         "oracle": {"ok":bool|None, "why":..., "shape_want":.., "shape_got":..}}
G ::= {"k":"num","p","q"} | {"k":"const","name"} | {"k":"coord","i","lg"} | {"k":"sf","name"} | {"k":"vf","name"}
    | {"k":"comp","name","i"} | {"k":"add","a":[G]} | {"k":"mul","a":[G]} | {"k":"pow","b":G,"e":G}
    | {"k":"fn","f":name,"a":G} | {"k":"op","name":Grad|Curl|Rot|Div|Laplace|Hessian|Bracket|Dot|Cross|Inner|Outer|Convect,"a":[G]}
    | {"k":"tup","a":[G]} | {"k":"mat","r","c","a":[G]}   (row-major)
error kinds (a small enum, never message text): construct:<kind> (the operator constructors refused),
  no-class (NameError: no such *_kd class), type (TypeError/IndexError/AttributeError/ValueError/ShapeError),
  not-implemented, unsupported-node (the serialiser does not know the returned object), other:<ExceptionName>
"""
import json
import random
import sys
import traceback

import ser

OPS1 = ("Grad", "Curl", "Rot", "Div", "Laplace", "Hessian")
OPS2 = ("Bracket", "Dot", "Cross", "Inner", "Outer", "Convect")


class GEnv:
    def __init__(self, dim, mapped):
        from sympde.topology import Domain, ScalarFunctionSpace, VectorFunctionSpace, Mapping, Line, Square, Cube
        self.dim, self.mapped = dim, mapped
        if mapped:
            M = Mapping("M", dim=dim)
            self.domain = M({1: Line, 2: Square, 3: Cube}[dim]("S"))
        else:
            self.domain = Domain("Omega", dim=dim)
        self.V = ScalarFunctionSpace("V", self.domain)
        self.W = VectorFunctionSpace("W", self.domain)
        self.sf, self.vf, self.cs = {}, {}, {}

    def scalar(self, n):
        from sympde.topology import element_of
        if n not in self.sf:
            self.sf[n] = element_of(self.V, name=n)
        return self.sf[n]

    def vector(self, n):
        from sympde.topology import element_of
        if n not in self.vf:
            self.vf[n] = element_of(self.W, name=n)
        return self.vf[n]

    def const(self, n):
        from sympde.core import Constant
        if n not in self.cs:
            self.cs[n] = Constant(n)
        return self.cs[n]


def build(g, env):
    import sympy as sp
    from sympde.calculus import core as C
    k = g["k"]
    if k == "num":
        return sp.Rational(g["p"], g["q"])
    if k == "const":
        return env.const(g["name"])
    if k == "coord":
        return sp.Symbol((ser.LOGI if g["lg"] else ser.PHYS)[g["i"]], real=True)
    if k == "sf":
        return env.scalar(g["name"])
    if k == "vf":
        return env.vector(g["name"])
    if k == "comp":
        return env.vector(g["name"])[g["i"]]
    if k == "add":
        args = [build(a, env) for a in g["a"]]
        o = args[0]
        for a in args[1:]:
            o = o + a
        return o
    if k == "mul":
        args = [build(a, env) for a in g["a"]]
        o = args[0]
        for a in args[1:]:
            o = o * a
        return o
    if k == "pow":
        return build(g["b"], env) ** build(g["e"], env)
    if k == "fn":
        return ser.FN[g["f"]](build(g["a"], env))
    if k == "op":
        cls = getattr(C, g["name"])
        return cls(*[build(a, env) for a in g["a"]])
    if k == "tup":
        return sp.Tuple(*[build(a, env) for a in g["a"]])
    if k == "mat":
        xs = [build(a, env) for a in g["a"]]
        return sp.ImmutableDenseMatrix(g["r"], g["c"], xs)
    raise ser.Unsupported("build " + k)


def ser_g(e):
    """constructed sympde expression -> G (fail closed)"""
    import sympy as sp
    from sympy import Integer, Rational, Symbol, Add, Mul, Pow, Tuple
    from sympde.calculus import core as C
    from sympde.topology.space import ScalarFunction, VectorFunction, IndexedVectorFunction
    from sympde.core.basic import Constant
    e = sp.sympify(e)
    if isinstance(e, Integer):
        return {"k": "num", "p": int(e), "q": 1}
    if isinstance(e, Rational):
        return {"k": "num", "p": int(e.p), "q": int(e.q)}
    if isinstance(e, ScalarFunction):
        return {"k": "sf", "name": e.name}
    if isinstance(e, VectorFunction):
        return {"k": "vf", "name": e.name}
    if isinstance(e, IndexedVectorFunction):
        if len(e.indices) != 1:
            raise ser.Unsupported("multi-index component")
        return {"k": "comp", "name": e.base.name, "i": int(e.indices[0])}
    if isinstance(e, Constant):
        return {"k": "const", "name": e.name}
    if isinstance(e, Symbol):
        if e.name in ser.PHYS:
            return {"k": "coord", "i": ser.PHYS.index(e.name), "lg": False}
        if e.name in ser.LOGI:
            return {"k": "coord", "i": ser.LOGI.index(e.name), "lg": True}
        raise ser.Unsupported("symbol %s" % e.name)
    for name in OPS1 + OPS2:
        if type(e) is getattr(C, name):
            return {"k": "op", "name": name, "a": [ser_g(a) for a in e.args]}
    if isinstance(e, Add):
        return {"k": "add", "a": [ser_g(a) for a in e.args]}
    if isinstance(e, Mul):
        return {"k": "mul", "a": [ser_g(a) for a in e.args]}
    if isinstance(e, Pow):
        return {"k": "pow", "b": ser_g(e.base), "e": ser_g(e.exp)}
    for name, f in ser.FN.items():
        if isinstance(e, f):
            return {"k": "fn", "f": name, "a": ser_g(e.args[0])}
    if isinstance(e, (sp.Matrix, sp.ImmutableDenseMatrix)):
        r, c = e.shape
        return {"k": "mat", "r": int(r), "c": int(c), "a": [ser_g(e[i, j]) for i in range(r) for j in range(c)]}
    if isinstance(e, Tuple):
        return {"k": "tup", "a": [ser_g(a) for a in e]}
    raise ser.Unsupported("node %s" % type(e).__name__)


def ser_val(r):
    from sympy import Matrix, ImmutableDenseMatrix, Tuple
    if isinstance(r, (Matrix, ImmutableDenseMatrix)):
        return {"k": "mat", "rows": ser.ser_any(r)["rows"]}
    if isinstance(r, (Tuple, tuple, list)):
        return {"k": "tup", "items": ser.ser_any(r)["rows"][0] if len(r) else []}
    j = ser.ser_any(r)
    return {"k": "sc", "v": j}


# ------------------------------------------------------------------------------------------------
# the classical definitions, written independently (explicit polynomials + sympy.diff)
class Den:
    """value of a G tree: ("s", expr) | ("v", [expr]*d) | ("m", [[expr]*d]*d)"""

    def __init__(self, conc, dim, lg):
        self.c, self.d, self.lg = conc, dim, lg
        self.x = conc.syms[lg][:dim]

    def D(self, i, e):
        import sympy as sp
        return sp.diff(e, self.x[i])

    def fld(self, name, comp):
        return self.c.poly(("fld", name, comp, "0"), self.lg)

    def ev(self, g):
        import sympy as sp
        k, d = g["k"], self.d
        if k == "num":
            return ("s", sp.Rational(g["p"], g["q"]))
        if k == "const":
            return ("s", self.c.const(g["name"]))
        if k == "coord":
            return ("s", self.c.syms[g["lg"]][g["i"]])
        if k == "sf":
            return ("s", self.fld(g["name"], 0))
        if k == "vf":
            return ("v", [self.fld(g["name"], i + 1) for i in range(d)])
        if k == "comp":
            return ("s", self.fld(g["name"], g["i"] + 1))
        if k == "add":
            vals = [self.ev(a) for a in g["a"]]
            kinds = {v[0] for v in vals}
            if len(kinds) != 1:
                raise ShapeMismatch("sum of different shapes")
            kd = vals[0][0]
            if kd == "s":
                return ("s", sum(v[1] for v in vals))
            if kd == "v":
                return ("v", [sum(v[1][i] for v in vals) for i in range(d)])
            return ("m", [[sum(v[1][i][j] for v in vals) for j in range(d)] for i in range(d)])
        if k == "mul":
            vals = [self.ev(a) for a in g["a"]]
            tens = [v for v in vals if v[0] != "s"]
            if len(tens) > 1:
                raise ShapeMismatch("product of two tensors")
            c = sp.Integer(1)
            for v in vals:
                if v[0] == "s":
                    c = c * v[1]
            if not tens:
                return ("s", c)
            t = tens[0]
            if t[0] == "v":
                return ("v", [c * x for x in t[1]])
            return ("m", [[c * x for x in r] for r in t[1]])
        if k == "pow":
            b, e = self.ev(g["b"]), self.ev(g["e"])
            if b[0] != "s" or e[0] != "s":
                raise ShapeMismatch("power of a tensor")
            return ("s", b[1] ** e[1])
        if k == "fn":
            a = self.ev(g["a"])
            if a[0] != "s":
                raise ShapeMismatch("function of a tensor")
            return ("s", ser.FN[g["f"]](a[1]))
        if k == "tup":
            vals = [self.ev(a) for a in g["a"]]
            if len(vals) != d or any(v[0] != "s" for v in vals):
                raise ShapeMismatch("tuple")
            return ("v", [v[1] for v in vals])
        if k == "mat":
            vals = [self.ev(a) for a in g["a"]]
            if any(v[0] != "s" for v in vals) or g["r"] != d:
                raise ShapeMismatch("matrix literal")
            xs = [v[1] for v in vals]
            if g["c"] == 1:
                return ("v", xs)
            if g["c"] == d:
                return ("m", [xs[i * d:(i + 1) * d] for i in range(d)])
            raise ShapeMismatch("matrix literal")
        if k == "op":
            return self.op(g["name"], [self.ev(a) for a in g["a"]])
        raise ser.Unsupported("den " + k)

    def op(self, name, a):
        d, D = self.d, self.D
        kinds = "".join(v[0] for v in a)
        v = [x[1] for x in a]
        if name == "Grad" and kinds == "s":
            return ("v", [D(i, v[0]) for i in range(d)])
        if name == "Grad" and kinds == "v":           # (grad F)_ij = d_i F_j  (library convention)
            return ("m", [[D(i, v[0][j]) for j in range(d)] for i in range(d)])
        if name == "Curl" and kinds == "v" and d == 2:
            return ("s", D(0, v[0][1]) - D(1, v[0][0]))
        if name == "Curl" and kinds == "v" and d == 3:
            F = v[0]
            return ("v", [D(1, F[2]) - D(2, F[1]), D(2, F[0]) - D(0, F[2]), D(0, F[1]) - D(1, F[0])])
        if name == "Rot" and kinds == "s" and d == 2:
            return ("v", [D(1, v[0]), -D(0, v[0])])
        if name == "Div" and kinds == "v":
            return ("s", sum(D(i, v[0][i]) for i in range(d)))
        if name == "Div" and kinds == "m":            # column-wise: div(grad F) = component-wise Laplacian
            return ("v", [sum(D(i, v[0][i][j]) for i in range(d)) for j in range(d)])
        if name == "Laplace" and kinds == "s":
            return ("s", sum(D(i, D(i, v[0])) for i in range(d)))
        if name == "Laplace" and kinds == "v":
            return ("v", [sum(D(i, D(i, c)) for i in range(d)) for c in v[0]])
        if name == "Hessian" and kinds == "s":
            return ("m", [[D(i, D(j, v[0])) for j in range(d)] for i in range(d)])
        if name == "Bracket" and kinds == "ss" and d == 2:
            return ("s", D(0, v[0]) * D(1, v[1]) - D(1, v[0]) * D(0, v[1]))
        if name in ("Dot", "Inner") and kinds == "vv":
            return ("s", sum(x * y for x, y in zip(v[0], v[1])))
        if name == "Dot" and kinds == "mv":
            return ("v", [sum(v[0][i][j] * v[1][j] for j in range(d)) for i in range(d)])
        if name == "Dot" and kinds == "vm":
            return ("v", [sum(v[0][i] * v[1][i][j] for i in range(d)) for j in range(d)])
        if name == "Inner" and kinds == "mm":
            return ("s", sum(v[0][i][j] * v[1][i][j] for i in range(d) for j in range(d)))
        if name == "Cross" and kinds == "vv" and d == 2:
            return ("s", v[0][0] * v[1][1] - v[0][1] * v[1][0])
        if name == "Cross" and kinds == "vv" and d == 3:
            a_, b_ = v
            return ("v", [a_[1] * b_[2] - a_[2] * b_[1], a_[2] * b_[0] - a_[0] * b_[2], a_[0] * b_[1] - a_[1] * b_[0]])
        if name == "Outer" and kinds == "vv":
            return ("m", [[x * y for y in v[1]] for x in v[0]])
        if name == "Convect" and kinds == "vv":
            return ("v", [sum(v[0][j] * D(j, c) for j in range(d)) for c in v[1]])
        raise ShapeMismatch("%s of %s in dimension %d" % (name, kinds, d))


class ShapeMismatch(Exception):
    pass


def flat_want(val):
    if val[0] == "s":
        return (1, 1), [val[1]]
    if val[0] == "v":
        return (len(val[1]), 1), list(val[1])
    return (len(val[1]), len(val[1][0])), [x for r in val[1] for x in r]


def flat_got(out, conc, lg):
    """canonical shape (vectors = columns = rows = tuples; 1x1 = scalar) and concrete entries of a serialised result"""
    if out["k"] == "sc":
        return (1, 1), [conc.sx(out["v"], lg)]
    if out["k"] == "tup":
        return (len(out["items"]), 1), [conc.sx(x, lg) for x in out["items"]]
    rows = out["rows"]
    r, c = len(rows), (len(rows[0]) if rows else 0)
    shp = (c, 1) if r == 1 else (r, c)
    return shp, [conc.sx(x, lg) for row in rows for x in row]


def lower_real(case):
    """-> (env, constructed expr | None, result dict)"""
    from sympy.core.cache import clear_cache
    from sympde.expr.evaluation import TerminalExpr
    clear_cache()
    env = GEnv(case["dim"], case["mapped"])
    out = {}
    try:
        expr = build(case["tree"], env)
    except Exception as e:  # noqa
        out["in"] = None
        out["out"] = {"err": "construct:" + err_kind(e), "msg": str(e)[:160]}
        return env, None, out
    try:
        out["in"] = ser_g(expr)
    except ser.Unsupported as e:
        out["in"] = None
        out["out"] = {"err": "unsupported-input", "msg": str(e)[:160]}
        return env, expr, out
    try:
        r = TerminalExpr(expr, env.domain)
    except Exception as e:  # noqa
        out["out"] = {"err": err_kind(e), "msg": str(e)[:160]}
        return env, expr, out
    try:
        out["out"] = ser_val(r)
    except ser.Unsupported as e:
        out["out"] = {"err": "unsupported-node", "msg": str(e)[:160]}
    except Exception as e:  # noqa
        out["out"] = {"err": "unsupported-node", "msg": "%s: %s" % (type(e).__name__, str(e)[:120])}
    return env, expr, out


def err_kind(e):
    n = type(e).__name__
    if isinstance(e, NameError):
        return "no-class"
    if isinstance(e, NotImplementedError):
        return "not-implemented"
    if isinstance(e, (TypeError, IndexError, AttributeError, ValueError)) or n in ("ShapeError", "NonSquareMatrixError"):
        return "type"
    return "other:" + n


def run_case(case):
    env, expr, out = lower_real(case)
    if out.get("in") is None:
        return out
    lg = not case["mapped"]
    # the property's own oracle on the implementation's output
    try:
        rng = random.Random(case.get("seed", 0))
        conc = ser.Concrete(rng, dim=case["dim"], deg=2)
        den = Den(conc, case["dim"], lg)
        try:
            want = den.ev(out["in"])
        except ShapeMismatch as e:
            out["oracle"] = {"ok": None, "why": "ill-shaped: %s" % e}
            return out
        wshape, wflat = flat_want(want)
        out["oracle"] = {"shape_want": list(wshape)}
        if "err" in out["out"]:
            out["oracle"].update({"ok": None, "why": "raised"})
            return out
        gshape, gflat = flat_got(out["out"], conc, lg)
        out["oracle"]["shape_got"] = list(gshape)
        if tuple(gshape) != tuple(wshape):
            out["oracle"].update({"ok": False, "why": "shape"})
            return out
        for i, (a, b) in enumerate(zip(gflat, wflat)):
            ok, info = ser.numeric_equal(a, b, conc)
            if not ok:
                out["oracle"].update({"ok": False, "why": "value", "entry": i, "info": info})
                return out
        out["oracle"].update({"ok": True})
    except ser.Unsupported as e:
        out["oracle"] = {"ok": None, "why": "oracle unsupported: %s" % str(e)[:120]}
    except Exception as e:  # noqa
        out["oracle"] = {"ok": None, "why": "oracle failed: %s: %s" % (type(e).__name__, str(e)[:160])}
    return out


def main():
    payload = json.load(open(sys.argv[1]))
    res = []
    for case in payload["cases"]:
        try:
            res.append(run_case(case))
        except Exception:  # noqa
            res.append({"crash": traceback.format_exc()[-1500:]})
    json.dump({"results": res}, open(sys.argv[2], "w"))


if __name__ == "__main__":
    main()
