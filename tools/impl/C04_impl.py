"""Implementation side of C04: kernels of TerminalExpr(LogicalExpr(form, D), D.logical_domain).

case  : {"ldim":d, "pdim":p,
         "patches":[{"name":"A","mapping":{"kind":"symbolic","name":"M1"} | {"kind":"catalogue","cls":..,"name":..,"params":{k:[p,q]}}}..],
         "connectivity":[[[i,axis,ext],[j,axis,ext]]..],
         "region":{"t":"domain"} | {"t":"patch","p":i} | {"t":"face","p":i,"axis":a,"ext":e} | {"t":"boundary"}
                  | {"t":"interface","k":n} | {"t":"faces","faces":[[i,a,e]..]},
         "form":"linear"|"bilinear",
         "sides": None | [s_u, s_v]  ("-"|"+"; interface integrals only),
         "integrand": sx   physical expression g (coordinates x,y,z, constants): the integrand is g*v, g*u*v, or
                          "grad": g*dot(grad(u),grad(v)),
         "grad": bool, "seed":n}
result: {"kernels":[{"type":"domain|boundary|interface","target":{..},"expr":sx,"unit":sx}..] | "err":..,
         "fm":{mapping name:[sx..]}   (catalogue mappings),
         "oracle":{"regions":{"ok":..,"expected":[..],"got":[..]}, "kernels":[{"ok":..,"unit_ok":..}..]}}
"unit" is the kernel of the same form with g = 1 and without grad (the measure times the bare functions).
The oracle is independent of the Coq model: explicit polynomial / catalogue mappings, tangent vectors by sympy.diff,
Gram determinant, explicit composition u o F for derivatives.
"""
import json
import random
import sys
import traceback

import sympy as sp

import ser
from C11_impl import err_of, Conc, rand_map, numeric_equal


def make_mapping(m, ldim, pdim):
    from sympde.topology import Mapping
    import sympde.topology.analytical_mapping as am
    if m["kind"] == "symbolic":
        if ldim == pdim:
            return Mapping(m["name"], dim=ldim)
        return Mapping(m["name"], ldim=ldim, pdim=pdim)
    if m["kind"] == "user":
        # a user-defined analytical mapping (polynomial coordinate expressions)
        ex = {"xyz"[i]: m["exprs"][i] for i in range(pdim)}
        return type("UserMapping", (Mapping,), {"_expressions": ex, "_ldim": ldim, "_pdim": pdim})(m["name"], dim=ldim)
    cls = getattr(am, m["cls"])
    kw = {k: sp.Rational(v[0], v[1]) for k, v in m.get("params", {}).items()}
    if m["cls"] in ("IdentityMapping", "AffineMapping"):
        return cls(m["name"], dim=ldim, **kw)
    return cls(m["name"], **kw)


def build(case):
    from sympde.topology import Domain, Line, Square, Cube
    d = case["ldim"]
    maps, patches = [], []
    for p in case["patches"]:
        M = make_mapping(p["mapping"], d, case["pdim"])
        if p.get("bounds"):
            # a logical patch that is not the unit cube: bounds [[p, q], [p, q]] (rationals) per axis
            bd = [(float(sp.Rational(*lo)), float(sp.Rational(*hi))) for lo, hi in p["bounds"]]
            if d == 1:
                L = Line(p["name"], bounds=bd[0])
            else:
                L = [None, Square, Cube][d - 1](p["name"], **{"bounds%d" % (i + 1): bd[i] for i in range(d)})
        else:
            L = [Line, Square, Cube][d - 1](p["name"])
        maps.append(M)
        patches.append(M(L))
    if len(patches) == 1:
        D = patches[0]
    else:
        # an interface: (minus face, plus face) or (minus face, plus face, orientation)
        conn = [tuple(tuple(x) if isinstance(x, (list, tuple)) else x for x in c) for c in case["connectivity"]]
        D = Domain.join(patches, conn, "Omega")
    return D, patches, maps


def region_of(case, D, patches):
    from sympde.topology import Union
    r = case["region"]
    t = r["t"]
    if t == "domain":
        return D
    if t == "patch":
        return patches[r["p"]].interior
    if t == "face":
        return patches[r["p"]].get_boundary(axis=r["axis"], ext=r["ext"])
    if t == "faces":
        return Union(*[patches[i].get_boundary(axis=a, ext=e) for i, a, e in r["faces"]])
    if t == "boundary":
        return D.boundary
    if t == "interface":
        I = D.interfaces
        cands = list(I.args) if isinstance(I, Union) else [I]
        c = case["connectivity"][r["k"]]
        names = {case["patches"][c[0][0]]["name"], case["patches"][c[1][0]]["name"]}
        for i in cands:
            if {i.minus.domain.logical_domain.name, i.plus.domain.logical_domain.name} == names:
                return i
        raise ValueError("interface not found")
    raise ValueError(t)


def ser_region(R):
    """the region object handed to integral(): its structure as the Integral constructor sees it"""
    from sympde.topology import Union, Domain, Boundary, Interface, InteriorDomain
    def patch(d):
        return d.logical_domain.name if d.logical_domain is not None else d.name
    if isinstance(R, Union):
        return {"t": "union", "args": [ser_region(a) for a in R.args]}
    if isinstance(R, Domain):
        ints = R.interior.args if isinstance(R.interior, Union) else [R.interior]
        return {"t": "domain", "interiors": [patch(i) for i in ints]}
    if isinstance(R, Interface):
        return {"t": "interface", "minus": ser_region(R.minus), "plus": ser_region(R.plus)}
    if isinstance(R, Boundary):
        return {"t": "boundary", "patch": patch(R.domain), "axis": int(R.axis), "ext": int(R.ext)}
    if isinstance(R, InteriorDomain):
        return {"t": "interior", "patch": patch(R)}
    raise ser.Unsupported("region %s" % type(R).__name__)


def ser_target(t):
    from sympde.topology import Boundary, Interface
    if isinstance(t, Interface):
        return {"t": "interface", "minus": ser_target(t.minus), "plus": ser_target(t.plus)}
    if isinstance(t, Boundary):
        return {"t": "boundary", "patch": t.domain.name, "axis": int(t.axis), "ext": int(t.ext)}
    return {"t": "interior", "patch": t.name}


def kernel_expr(k):
    from sympy import Matrix, ImmutableDenseMatrix
    e = k.expr
    if isinstance(e, (Matrix, ImmutableDenseMatrix)):
        if e.shape != (1, 1):
            raise ser.Unsupported("kernel of shape %s" % (e.shape,))
        e = e[0, 0]
    return e


def lower(case, D, patches, env, unit):
    from sympde.calculus import minus, plus, dot, grad
    from sympde.expr import TerminalExpr, integral, LinearForm, BilinearForm
    from sympde.topology.mapping import LogicalExpr
    from sympde.topology import ScalarFunctionSpace, element_of
    V = ScalarFunctionSpace("V", D)
    u, v = element_of(V, "u"), element_of(V, "v")
    g = sp.S.One if unit else ser.build_sx(case["integrand"], env)
    sides = case.get("sides")
    uu, vv = u, v
    if sides:
        uu = {"-": minus, "+": plus}[sides[0]](u)
        vv = {"-": minus, "+": plus}[sides[1]](v)
    R = region_of(case, D, patches)
    if case["form"] == "linear":
        body = g * vv
        form = LinearForm(v, integral(R, body))
    else:
        body = g * dot(grad(uu), grad(vv)) if (case.get("grad") and not unit) else g * uu * vv
        form = BilinearForm((u, v), integral(R, body))
    ks = TerminalExpr(LogicalExpr(form, D), D.logical_domain)
    out = []
    for k in ks:
        typ = {"DomainExpression": "domain", "BoundaryExpression": "boundary", "InterfaceExpression": "interface"}[type(k).__name__]
        out.append({"type": typ, "target": ser_target(k.target), "expr": kernel_expr(k)})
    return out


def tkey(t):
    return json.dumps(t, sort_keys=True)


# ------------------------------------------------------------------------------------ oracle
def expected_regions(case):
    """the logical twins of the leaves of the region, from the case description alone"""
    P = [p["name"] for p in case["patches"]]
    d = case["ldim"]
    r = case["region"]
    t = r["t"]
    shared = []
    for c in case.get("connectivity", []):
        shared += [tuple(c[0]), tuple(c[1])]
    if t == "domain":
        return [{"t": "interior", "patch": n} for n in P]
    if t == "patch":
        return [{"t": "interior", "patch": P[r["p"]]}]
    if t == "face":
        return [{"t": "boundary", "patch": P[r["p"]], "axis": r["axis"], "ext": r["ext"]}]
    if t == "faces":
        return [{"t": "boundary", "patch": P[i], "axis": a, "ext": e} for i, a, e in r["faces"]]
    if t == "boundary":
        return [{"t": "boundary", "patch": P[i], "axis": a, "ext": e} for i in range(len(P)) for a in range(d)
                for e in (-1, 1) if (i, a, e) not in shared]
    if t == "interface":
        c = case["connectivity"][r["k"]]
        m = {"t": "boundary", "patch": P[c[0][0]], "axis": c[0][1], "ext": c[0][2]}
        p = {"t": "boundary", "patch": P[c[1][0]], "axis": c[1][1], "ext": c[1][2]}
        s = case.get("sides") or ["-", "-"]
        if case["form"] == "linear":
            return [m if s[1] == "-" else p]
        if s[0] == s[1]:
            return [m if s[0] == "-" else p]
        return [{"t": "interface", "minus": m, "plus": p}]
    raise ValueError(t)


class ConcP(Conc):
    """several mappings by name; the composition u o F uses the mapping of the kernel under evaluation"""

    def __init__(self, rng, ldim, pdim, Fs):
        ser.Concrete.__init__(self, rng, dim=max(ldim, pdim), deg=2)
        self.ldim, self.pdim, self.Fs = ldim, pdim, Fs
        self.F = None

    def atom(self, a, fam):
        if a["t"] == "map":
            p = self.Fs[a["m"]][a["i"]]
            for i, n in enumerate(a["al"]):
                for _ in range(n):
                    p = sp.diff(p, self.syms[True][i])
            return p
        if a["t"] == "fld":
            xs, ls = self.syms[False], self.syms[True]
            p = self.poly(("fld", a["f"], a["c"], "0"), False)          # the restriction to a side is the same function
            if not any(a["al"]) and not fam:
                return p
            if any(a["al"]) and not a["lg"]:
                for i, n in enumerate(a["al"]):
                    for _ in range(n):
                        p = sp.diff(p, xs[i])
                return p
            p = p.subs(list(zip(xs[: self.pdim], self.F)), simultaneous=True)
            for i, n in enumerate(a["al"]):
                for _ in range(n):
                    p = sp.diff(p, ls[i])
            return p
        return Conc.atom(self, a, fam)


def oracle(case, res, maps):
    rng = random.Random(case.get("seed", 0))
    d, pd = case["ldim"], case["pdim"]
    base = ser.Concrete(rng, dim=3)
    ls, xs = base.syms[True], base.syms[False]
    Fs = {}
    for p, M in zip(case["patches"], maps):
        m = p["mapping"]
        if m["kind"] == "symbolic":
            F = rand_map(rng, d, ls[:d])
            for i in range(d, pd):          # surfaces / curves: the remaining physical components
                F.append(sp.Rational(1, 3 + i) * ls[0] * ls[d - 1] + sp.Rational(1, 4) * ls[0] ** 2
                         - sp.Rational(1, 5) * ls[d - 1] + sp.Rational(i, 7))
        else:
            F = [sp.sympify(e) for e in M.expressions]
            cs = {s: base.const(s.name) for e in F for s in e.free_symbols if s.name not in ser.LOGI}
            F = [e.xreplace(cs).xreplace({sp.Symbol(n): sp.Symbol(n, real=True) for n in ser.LOGI}) for e in F]
        Fs[m["name"]] = F
    byname = {p["name"]: p["mapping"]["name"] for p in case["patches"]}
    conc = ConcP(rng, d, pd, Fs)
    conc.consts = base.consts
    out = {}
    exp = sorted(tkey(t) for t in expected_regions(case))
    got = sorted(tkey(k["target"]) for k in res["kernels"])
    out["regions"] = {"ok": exp == got, "expected": exp, "got": got}
    gphys = conc.sx(case["integrand"], False)
    sides = case.get("sides")
    kos = []
    for k in res["kernels"]:
        t = k["target"]
        if t["t"] == "interface":
            patch, axis = t["minus"]["patch"], t["minus"]["axis"]            # cross terms: the minus side
        elif t["t"] == "boundary":
            patch, axis = t["patch"], t["axis"]
        else:
            patch, axis = t["patch"], None
        F = Fs[byname[patch]]
        conc.F = F
        cols = [j for j in range(d) if j != axis]
        if axis is not None and d == 1:
            meas = sp.S.One
        else:
            T = sp.Matrix([[sp.diff(Fi, ls[j]) for j in cols] for Fi in F])
            meas = sp.sqrt((T.T * T).det())
        sub = list(zip(xs[:pd], F))

        def fun(name, side):
            a = {"t": "fld", "lg": False, "f": name, "c": 0, "s": "0", "al": []}
            return conc.atom(a, False)
        up, vp = fun("u", None), fun("v", None)
        if case["form"] == "linear":
            phys_unit, phys = vp, gphys * vp
        elif case.get("grad"):
            phys_unit = up * vp
            phys = gphys * sum(sp.diff(up, x) * sp.diff(vp, x) for x in xs[:pd])
        else:
            phys_unit, phys = up * vp, gphys * up * vp
        want = phys.subs(sub, simultaneous=True) * meas
        want_unit = phys_unit.subs(sub, simultaneous=True) * meas
        o = {}
        ok, info = numeric_equal(conc.sx(k["expr"], True), want, conc)
        o["ok"], o["info"] = bool(ok), info
        ok, info = numeric_equal(conc.sx(k["unit"], True), want_unit, conc)
        o["unit_ok"], o["unit_info"] = bool(ok), info
        kos.append(o)
    out["kernels"] = kos
    return out


# ------------------------------------------------------------------------------------ one case
class EnvP(ser.Env):
    def __init__(self, dim):
        self.dim = dim
        self.fields, self.consts, self.maps, self.mapping = {}, {}, {}, None


class _Self:
    """what the interface family (C04if_impl) re-uses from this module"""
    pass


def run_case(case):
    from sympy.core.cache import clear_cache
    if case.get("iform") is not None:
        # interface integrals with derivatives of restricted functions: runner + oracle of their own
        import C04if_impl
        ns = _Self()
        ns.build, ns.region_of, ns.ser_target, ns.kernel_expr, ns.EnvP = build, region_of, ser_target, kernel_expr, EnvP
        return C04if_impl.run_if_case(case, ns)
    clear_cache()
    D, patches, maps = build(case)
    env = EnvP(case["pdim"])
    res = {}
    if ser.build_sx(case["integrand"], env) == 0:
        return {"err": "degenerate-zero-integrand"}      # Integral(0, region) is the number 0: nothing to transform
    # pre-history: other regions of the same domain lowered first in the same interpreter WITHOUT clearing sympy's
    # cache (a session that assembles volume and face terms one after the other); the result for the region under
    # test must not depend on it
    for h in case.get("history", []):
        try:
            hc = dict(case); hc["region"] = h; hc["sides"] = None; hc["grad"] = False; hc["form"] = "linear"
            lower(hc, D, patches, env, unit=True)
        except Exception:  # noqa
            pass
    try:
        full = lower(case, D, patches, env, unit=False)
        unit = lower(case, D, patches, env, unit=True)
    except Exception as e:  # noqa
        res.update(err_of(e))
        res["tb"] = traceback.format_exc()[-500:]
        return res
    ud = {tkey(k["target"]): k for k in unit}
    ks = []
    try:
        for k in full:
            un = ud.get(tkey(k["target"]))
            ks.append({"type": k["type"], "target": k["target"], "expr": ser.ser_sx(k["expr"]),
                       "unit": ser.ser_sx(un["expr"]) if un else None})
    except ser.Unsupported as e:
        return {"err": "unsupported-node", "msg": str(e)[:200]}
    res["kernels"] = ks
    res["unit_targets"] = sorted(ud)
    res["region_obj"] = ser_region(region_of(case, D, patches))
    fm = {}
    for p, M in zip(case["patches"], maps):
        if M.is_analytical:
            try:
                fm[p["mapping"]["name"]] = [ser.ser_sx(e) for e in M.expressions]
            except ser.Unsupported:
                fm[p["mapping"]["name"]] = None
    res["fm"] = fm
    if any(k["unit"] is None for k in ks):
        res["oracle"] = {"failed": "no unit kernel for some target"}
        return res
    try:
        res["oracle"] = oracle(case, res, maps)
    except Exception as e:  # noqa
        res["oracle"] = {"failed": "%s: %s" % (type(e).__name__, str(e)[:200]), "tb": traceback.format_exc()[-600:]}
    return res


def main():
    import time
    payload = json.load(open(sys.argv[1]))
    res = []
    for case in payload["cases"]:
        t0 = time.time()
        try:
            res.append(run_case(case))
        except Exception:  # noqa
            res.append({"crash": traceback.format_exc()[-1500:]})
        res[-1]["seconds"] = round(time.time() - t0, 2)
    json.dump({"results": res}, open(sys.argv[2], "w"))


if __name__ == "__main__":
    main()
