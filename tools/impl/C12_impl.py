"""Implementation side of C12: one interpreter process = one history followed by one target computation.

payload: {"history":[[op, params...]..], "target":name, "variant":{"perm":int}, "clear_at":[k..]}
output : {"result":[str..], "inputs_before":[..], "inputs_after":[..]}  or {"crash": trace}
The process environment (PYTHONHASHSEED, SYMPY_USE_CACHE) is set by the harness.
"""
import itertools
import json
import sys
import traceback


def clear():
    from sympy.core.cache import clear_cache
    clear_cache()


# ------------------------------------------------------------------ history operations
def h_domain(name, dim):
    from sympde.topology import Domain
    return Domain(name, dim=dim)


def h_space(name, domname, dim, kind, vector):
    from sympde.topology import ScalarFunctionSpace, VectorFunctionSpace
    d = h_domain(domname, dim)
    cls = VectorFunctionSpace if vector else ScalarFunctionSpace
    return cls(name, d, kind=kind)


def h_form(domname, dim, spname, names, kind, vector):
    from sympde.topology import elements_of
    from sympde.calculus import grad, dot, inner, div
    from sympde.expr import BilinearForm, integral, TerminalExpr
    V = h_space(spname, domname, dim, kind, vector)
    u, v = elements_of(V, names=names)
    d = V.domain
    e = inner(grad(u), grad(v)) + div(u) * div(v) if vector else dot(grad(u), grad(v)) + 3 * u * v
    a = BilinearForm((u, v), integral(d, e))
    return str(TerminalExpr(a, d))


def h_mapping(mname, dim, patch, spname, names):
    from sympde.topology import Mapping, Line, Square, Cube, ScalarFunctionSpace, elements_of
    from sympde.topology.mapping import LogicalExpr
    from sympde.calculus import grad, dot
    from sympde.expr import integral, TerminalExpr
    M = Mapping(mname, dim=dim)
    D = M({1: Line, 2: Square, 3: Cube}[dim](patch))
    V = ScalarFunctionSpace(spname, D, kind='h1')
    u, v = elements_of(V, names=names)
    e = LogicalExpr(integral(D, dot(grad(u), grad(v))), D)
    return str(TerminalExpr(e, D.logical_domain))


def h_join(names, dim):
    from sympde.topology import Line, Square, Cube, Domain
    cls = {1: Line, 2: Square, 3: Cube}[dim]
    ps = [cls(n) for n in names]
    conn = []
    for a, b in zip(ps[:-1], ps[1:]):
        ornt = 1 if dim < 3 else (1, 1, 1)
        conn.append(((a, 0, 1), (b, 0, -1), ornt))
    D = Domain.join(ps, conn, name='J' + names[0])
    return str(D.interfaces), str(D.boundary)


def h_union(domname, dim):
    from sympde.topology import Line, Square, Cube
    from sympde.topology.basic import Union
    d = {1: Line, 2: Square, 3: Cube}[dim](domname)
    bs = list(d.boundary.args) if hasattr(d.boundary, 'args') else [d.boundary]
    return str(Union(*bs[::-1]))


def _analytic_lowering(cls, name, params, patch, spname, names):
    """lower  int (x*y*u*v + grad u . grad v)  on an analytical mapping of the given class / name / PARAMETERS"""
    import sympde.topology.analytical_mapping as am
    from sympde.topology import Square, ScalarFunctionSpace, elements_of
    from sympde.topology.mapping import LogicalExpr
    from sympde.calculus import grad, dot
    from sympde.expr import integral, TerminalExpr
    M = getattr(am, cls)(name, dim=2, **params)
    D = M(Square(patch))
    V = ScalarFunctionSpace(spname, D, kind='h1')
    u, v = elements_of(V, names=names)
    x, y = D.coordinates
    e = LogicalExpr(integral(D, x * y * u * v + dot(grad(u), grad(v))), D)
    return M, D, V, u, v, TerminalExpr(e, D.logical_domain)


def h_amapping(cls, name, params, patch, spname, names):
    """an analytical mapping with the same class and NAME as the target's but other parameter values: a different
    input (the parameters are part of a mapping's identity), so it must not influence the target"""
    return str(_analytic_lowering(cls, name, params, patch, spname, names)[-1])


def _order_queries(which):
    """maximal derivative orders / symbol names of kernels over the SAME objects (Omega 2-D, V, u, v, alpha)"""
    from sympde.topology import Domain, ScalarFunctionSpace, elements_of
    from sympde.topology.derivatives import dx, dy, get_max_partial_derivatives
    from sympde.topology.mapping import SymbolicExpr
    from sympde.core import Constant
    D = Domain('Omega', dim=2)
    V = ScalarFunctionSpace('V', D)
    u, v = elements_of(V, names='u,v')
    alpha = Constant('alpha')
    kernels = {"small": dx(dx(u)) * v, "big": dx(dx(u)) * v + alpha * dy(u) * v + dy(dx(v)) * u, "other": dy(dy(u)) * dx(v)}
    out = []
    for w in which:
        e = kernels[w]
        out.append("%s %s %s %s" % (w, sorted(get_max_partial_derivatives(e).items()),
                                    sorted(get_max_partial_derivatives(e, u).items()), SymbolicExpr(e)))
    return out


def h_orders(which):
    """queries about other kernels over the same objects, earlier in the session"""
    return _order_queries(which)


def h_target(name, k, dim):
    """the target's own code run earlier with another dimension: the sharpest name collision"""
    return TARGETS[name](k, dim)


HOPS = {"orders": h_orders, "amapping": h_amapping, "target": h_target, "domain": h_domain, "space": h_space, "form": h_form, "mapping": h_mapping, "join": h_join,
        "union": h_union, "clear": clear}


# ------------------------------------------------------------------ targets
def perm(seq, k):
    """variant k of the order of seq: 0 = as given, k > 0 = a shuffle seeded by k (the first indices of
    itertools.permutations only move the last elements, which leaves e.g. the members of a nested union alone)"""
    if k == 0 or len(seq) < 2:
        return list(seq)
    import random
    idx = list(range(len(seq)))
    r = random.Random(1000 + k)
    for _ in range(8):
        r.shuffle(idx)
        if idx != sorted(idx):
            break
    return [seq[i] for i in idx]


def attrs(objs):
    out = []
    for o in objs:
        d = {"srepr": None, "str": str(o)}
        try:
            from sympy import srepr
            d["srepr"] = srepr(o)
        except Exception:  # noqa
            pass
        for a in ("dim", "kind", "ldim", "shape", "name"):
            try:
                d[a] = str(getattr(o, a))
            except Exception:  # noqa
                pass
        out.append(d)
    return out


def t_bilinear(k, dim=2):
    from sympde.topology import Domain, ScalarFunctionSpace, elements_of
    from sympde.calculus import grad, dot
    from sympde.core import Constant
    from sympde.expr import BilinearForm, integral, TerminalExpr
    from sympy import Add
    domain = Domain('Omega', dim=dim)
    V = ScalarFunctionSpace('V', domain)
    u, v = elements_of(V, names='u,v')
    c = Constant('c')
    terms = perm([dot(grad(u), grad(v)), c * u * v, 2 * u * v], k)
    inputs = [domain, V, u, v, c]
    before = attrs(inputs)
    a = BilinearForm((u, v), integral(domain, Add(*terms)))
    res = TerminalExpr(a, domain)
    return [str(res)], before, attrs(inputs)


def t_attributes(k):
    """public attributes whose order could come from a set: free fields / constants of a form, the space of a
    functional, the constants of an analytical mapping"""
    from sympde.topology import Square, PolarMapping, ScalarFunctionSpace, VectorFunctionSpace, element_of, elements_of
    from sympde.expr import LinearForm, BilinearForm, integral, Functional
    from sympde.core import Constant
    from sympde.calculus import dot
    from sympy import Add
    D = Square('A')
    V = ScalarFunctionSpace('V', D)
    W = VectorFunctionSpace('W', D)
    u, v, f, g, h = elements_of(V, names='u, v, f, g, h')
    w = element_of(W, 'w')
    a, b, c = [Constant(n) for n in 'abc']
    terms = perm([a * f * v, b * g * v, c * h * v], k)
    l = LinearForm(v, integral(D, Add(*terms)))
    bl = BilinearForm((u, v), integral(D, Add(*perm([a * f * u * v, b * g * u * v, c * h * u * v], k))))
    fn = Functional(Add(*perm([f * dot(w, w), g * h], k)), D)
    M = PolarMapping('F', dim=2)
    res = [str(l.fields), str(l.constants), str(bl.fields), str(bl.constants), str(fn.space), str(fn.fields),
           str(M.constants), str(sorted(l.get_free_variables()))]
    return res, [], []


def t_ring(k):
    """two patches joined along TWO faces (a ring): the result must not depend on the order of the two entries"""
    from sympde.topology import Square, Domain
    A = Square('A', bounds1=(0, 1))
    B = Square('B', bounds1=(1, 2))
    conn = perm([((A, 0, 1), (B, 0, -1), 1), ((A, 0, -1), (B, 0, 1), 1)], k)
    Om = Domain.join([A, B], conn, 'Om')
    res = sorted(str((str(i.name), str(i.minus), str(i.plus), str(i.ornt))) for i in Om.interfaces.args)
    return res + [str(Om.boundary)], [], []


def t_vector3d(k, dim=3):
    from sympde.topology import Domain, VectorFunctionSpace, elements_of
    from sympde.calculus import curl, div, dot
    from sympde.expr import BilinearForm, integral, TerminalExpr
    from sympy import Add
    domain = Domain('Omega', dim=dim)
    W = VectorFunctionSpace('V', domain)
    u, v = elements_of(W, names='u,v')
    terms = perm([dot(curl(u), curl(v)), div(u) * div(v), dot(u, v)], k)
    inputs = [domain, W, u, v]
    before = attrs(inputs)
    a = BilinearForm((u, v), integral(domain, Add(*terms)))
    res = TerminalExpr(a, domain)
    return [str(res)], before, attrs(inputs)


def t_logical(k, dim=2):
    from sympde.topology import Mapping, Square, ScalarFunctionSpace, elements_of
    from sympde.topology.mapping import LogicalExpr
    from sympde.calculus import grad, dot
    from sympde.expr import integral, TerminalExpr
    from sympy import Add
    from sympde.topology import Cube
    M = Mapping('M', dim=dim)
    D = M({2: Square, 3: Cube}[dim]('A'))
    V = ScalarFunctionSpace('V', D, kind='h1')
    u, v = elements_of(V, names='u,v')
    inputs = [D, V, u, v]
    before = attrs(inputs)
    terms = perm([dot(grad(u), grad(v)), u * v], k)
    e = LogicalExpr(integral(D, Add(*terms)), D)
    res = TerminalExpr(e, D.logical_domain)
    return [str(res)], before, attrs(inputs)


def t_join(k):
    from sympde.topology import Square, Domain
    A, B, C = Square('A'), Square('B'), Square('C')
    conn = perm([((A, 0, 1), (B, 0, -1), 1), ((B, 1, 1), (C, 1, -1), 1)], k)
    patches = perm([A, B, C], k // 2)
    inputs = [A, B, C]
    before = attrs(inputs)
    D = Domain.join(patches, conn, name='D')
    res = [str(D.interfaces), str(D.boundary), str(D.interior), str(sorted(D.connectivity.todict().items()))]
    return res, before, attrs(inputs)


def t_union(k):
    from sympde.topology import Cube
    from sympde.topology.basic import Union
    d = Cube('A')
    bs = perm(list(d.boundary.args), k)
    inputs = list(d.boundary.args)
    before = attrs(inputs)
    u = Union(*bs)
    v = Union(Union(*bs[:3]), *bs[2:])
    fixed = sorted(bs, key=str)[0]                    # the same member in every variant
    return [str(u), str(v), str(u == v), str(u.complement(fixed))], before, attrs(inputs)


def t_equation(k):
    from sympde.topology import Square, ScalarFunctionSpace, element_of
    from sympde.calculus import grad, dot
    from sympde.expr import BilinearForm, LinearForm, integral
    from sympde.expr.equation import Equation, EssentialBC
    from sympde.topology.basic import Union
    D = Square('Omega')
    V = ScalarFunctionSpace('V', D)
    u = element_of(V, 'u')
    v = element_of(V, 'v')
    a = BilinearForm((u, v), integral(D, dot(grad(u), grad(v))))
    l = LinearForm(v, integral(D, 2 * v))
    bs = perm(list(D.boundary.args)[:3], k)
    bc = EssentialBC(u, 0, Union(*bs))
    inputs = [D, V, u, v, a, l]
    before = attrs(inputs)
    eq = Equation(a, l, tests=v, trials=u, bc=bc)
    res = [str((str(b.boundary), b.position, b.order, str(b.variable))) for b in eq.bc]
    return res, before, attrs(inputs)


def t_norm(k, dim=2):
    from sympde.topology import Domain, ScalarFunctionSpace, element_of
    from sympde.expr import Norm, TerminalExpr
    from sympy import sin, Add
    domain = Domain('Omega', dim=dim)
    V = ScalarFunctionSpace('V', domain)
    u = element_of(V, 'u')
    x, y = domain.coordinates[:2]
    inputs = [domain, V, u]
    before = attrs(inputs)
    e = Add(*perm([u, -sin(x) * y, -x], k))
    n = Norm(e, domain, kind='h1')
    return [str(TerminalExpr(n, domain))], before, attrs(inputs)


def t_polar(k):
    from sympde.topology.analytical_mapping import PolarMapping
    M = PolarMapping('M', dim=2)
    return [str(M.jacobian_expr), str(M.metric_det_expr)], [], []


def t_iface_mapped(k):
    """three mapped patches in a row: the middle mapping is the plus side of one interface and the minus side of
    the next; the lowered interface kernels must not depend on the order of the connectivity entries and the
    join must not alter the mappings it is given"""
    from sympde.topology import Square, Domain, ScalarFunctionSpace, elements_of, PolarMapping
    from sympde.topology.mapping import LogicalExpr
    from sympde.calculus import grad, dot, minus, plus
    from sympde.expr import BilinearForm, integral
    from sympde.expr.evaluation import TerminalExpr
    A = Square('A', bounds1=(0, 1), bounds2=(0, 1))
    B = Square('B', bounds1=(1, 2), bounds2=(0, 1))
    C = Square('C', bounds1=(2, 3), bounds2=(0, 1))
    maps = [PolarMapping('F%d' % i, 2, c1=0, c2=0, rmin=1, rmax=2) for i in (1, 2, 3)]
    patches = [F(P) for F, P in zip(maps, (A, B, C))]

    def mattrs():
        return [{"content": repr(F._hashable_content()), "flags": str((F.is_minus, F.is_plus))} for F in maps]
    before = mattrs()
    conn = perm([((0, 0, 1), (1, 0, -1)), ((1, 0, 1), (2, 0, -1))], k)
    Omega = Domain.join(patches, conn, 'Omega')
    after = mattrs()
    V = ScalarFunctionSpace('V', Omega, kind=None)
    u, v = elements_of(V, names='u, v')
    a = BilinearForm((u, v), integral(Omega.interfaces, dot(grad(minus(u)), grad(plus(v)))))
    kernels = TerminalExpr(LogicalExpr(a, Omega), Omega.logical_domain)
    res = sorted("%s: %s" % (str(kk.target), str(kk.expr)) for kk in kernels)
    return res, before, after


def t_shared_bc(k):
    """one EssentialBC object used by two equations whose trial functions come in a different order"""
    from sympde.topology import Square, ScalarFunctionSpace, element_of
    from sympde.calculus import grad, dot
    from sympde.expr import BilinearForm, LinearForm, integral
    from sympde.expr.equation import Equation, EssentialBC
    D = Square('Omega')
    V = ScalarFunctionSpace('V', D)
    W = V * V
    u, p = element_of(V, 'u'), element_of(V, 'p')
    v, q = element_of(V, 'v'), element_of(V, 'q')
    a1 = BilinearForm(((u, p), (v, q)), integral(D, dot(grad(u), grad(v)) + p * q))
    a2 = BilinearForm(((p, u), (q, v)), integral(D, dot(grad(u), grad(v)) + p * q))
    l1 = LinearForm((v, q), integral(D, v + q))
    l2 = LinearForm((q, v), integral(D, v + q))
    bc = EssentialBC(p, 0, D.get_boundary(axis=0, ext=-1))
    eq1 = Equation(a1, l1, tests=(v, q), trials=(u, p), bc=bc)
    before = [b.position for b in eq1.bc]
    eq2 = Equation(a2, l2, tests=(q, v), trials=(p, u), bc=bc)
    after = [b.position for b in eq1.bc]
    return [str(before), str(after)], [], []


def t_analytic(k):
    """lowering on PolarMapping('M', rmin=1, rmax=3): histories use the same class and name with other parameters"""
    M, D, V, u, v, res = _analytic_lowering("PolarMapping", "M", {"c1": 0, "c2": 0, "rmin": 1, "rmax": 3}, "A", "V", "u,v")
    return [str(res), str(M.jacobian_expr)], [], []


def t_orders(k):
    return _order_queries(["small"]), [], []


TARGETS = {"orders": t_orders, "attributes": t_attributes, "ring": t_ring, "analytic": t_analytic, "iface_mapped": t_iface_mapped, "shared_bc": t_shared_bc, "bilinear": t_bilinear, "vector3d": t_vector3d, "logical": t_logical, "join": t_join, "union": t_union,
           "equation": t_equation, "norm": t_norm, "polar": t_polar}


def main():
    payload = json.load(open(sys.argv[1]))
    out = {}
    try:
        for k, op in enumerate(payload.get("history", [])):
            if k in payload.get("clear_at", []):
                clear()
            try:
                HOPS[op[0]](*op[1:])
            except Exception as e:  # noqa  (an unrelated earlier call may itself fail; it is still history)
                out.setdefault("history_errors", []).append("%s: %s" % (op[0], type(e).__name__))
        if len(payload.get("history", [])) in payload.get("clear_at", []):
            clear()
        res, before, after = TARGETS[payload["target"]](payload.get("variant", {}).get("perm", 0))
        out.update({"result": res, "inputs_before": before, "inputs_after": after})
    except Exception:  # noqa
        out["crash"] = traceback.format_exc()[-1500:]
    json.dump(out, open(sys.argv[2], "w"))


if __name__ == "__main__":
    main()
