"""Implementation side of C02: applies the real operator constructors of sympde.calculus.core to
generated argument trees.

case  : {"dim":d, "op":name, "args":[G..], "seed":n [, "getitem": i]}   (getitem: the component arm op(E)[i])
G (JSON gexpr, one grammar for recipes and for serialised real expressions; mirrors coq gexpr):
  {"k":"num","p","q"} {"k":"const","name"} {"k":"coord","i"} {"k":"sf","name"} {"k":"vf","name"}
  {"k":"comp","name","i"} {"k":"normal"} {"k":"add","a":[..]} {"k":"mul","a":[..]} {"k":"pow","b","e"}
  {"k":"fn","f","a"} {"k":"op","name","a":[G..]}
result: {"ins":[G..]   the constructed arguments the constructor really received (sympy's arg order),
         "out": G | {"err":kind},               the constructed result
         "term": tensor of sx | {"err":..},     TerminalExpr(result, domain) (the real lowering)
         "arm": tag of the outermost arm (computed with the REAL predicates), "pred": defect-relevant features,
         "oracle": {"lit_ok","res_vs_lit","term_vs_lit",...}}   numeric oracle on explicit polynomials
"""
import json
import random
import sys
import traceback

import sympy as sp
from sympy import Add, Mul, Pow, Integer, Rational, Symbol, S, Matrix

import ser
from ser import Unsupported

OP1 = {"Grad": "Grad", "Curl": "Curl", "Rot": "Rot", "Div": "Div", "Laplace": "Laplace", "Hessian": "Hessian",
       "Dn": "NormalDerivative", "Jump": "Jump", "Avg": "Average", "Minus": "MinusInterfaceOperator",
       "Plus": "PlusInterfaceOperator"}
OP2 = {"Dot": "Dot", "Cross": "Cross", "Inner": "Inner", "Outer": "Outer", "Convect": "Convect", "Bracket": "Bracket"}
IFACE = ("Dn", "Jump", "Avg", "Minus", "Plus")


def core():
    import importlib
    return importlib.import_module("sympde.calculus.core")


def cls_of(name):
    C = core()
    return getattr(C, OP1.get(name) or OP2[name])


NAME_OF = {v: k for k, v in list(OP1.items()) + list(OP2.items())}


# --------------------------------------------------------------------------- build
def build(j, env):
    k = j["k"]
    if k == "num":
        return Rational(j["p"], j["q"])
    if k == "const":
        return env.const(j["name"])
    if k == "coord":
        return Symbol(ser.LOGI[j["i"]], real=True)
    if k == "sf":
        return env.scalar(j["name"])
    if k == "vf":
        return env.vector(j["name"])
    if k == "comp":
        return env.vector(j["name"])[j["i"]]
    if k == "normal":
        from sympde.topology import NormalVector
        return NormalVector("n")
    if k == "add":
        return Add(*[build(a, env) for a in j["a"]])
    if k == "mul":
        return Mul(*[build(a, env) for a in j["a"]])
    if k == "pow":
        return Pow(build(j["b"], env), build(j["e"], env))
    if k == "fn":
        return ser.FN[j["f"]](build(j["a"], env))
    if k == "op":
        return cls_of(j["name"])(*[build(a, env) for a in j["a"]])
    raise Unsupported("recipe node " + k)


# --------------------------------------------------------------------------- serialise real expressions
def ser_g(expr):
    from sympde.topology.space import ScalarFunction, VectorFunction, IndexedVectorFunction
    from sympde.topology.domain import NormalVector, MinusNormalVector, PlusNormalVector
    from sympde.core.basic import Constant
    C = core()
    expr = sp.sympify(expr)
    if isinstance(expr, Integer):
        return {"k": "num", "p": int(expr), "q": 1}
    if isinstance(expr, Rational):
        return {"k": "num", "p": int(expr.p), "q": int(expr.q)}
    if isinstance(expr, sp.Float):
        raise Unsupported("float literal")
    if isinstance(expr, Constant):
        return {"k": "const", "name": expr.name}
    if isinstance(expr, ScalarFunction):
        return {"k": "sf", "name": expr.name}
    if isinstance(expr, VectorFunction):
        return {"k": "vf", "name": expr.name}
    if isinstance(expr, IndexedVectorFunction):
        if len(expr.indices) != 1:
            raise Unsupported("multi-index component")
        return {"k": "comp", "name": expr.base.name, "i": int(expr.indices[0])}
    if isinstance(expr, MinusNormalVector):
        return {"k": "op", "name": "Minus", "a": [{"k": "normal"}]}
    if isinstance(expr, PlusNormalVector):
        return {"k": "op", "name": "Plus", "a": [{"k": "normal"}]}
    if isinstance(expr, NormalVector):
        return {"k": "normal"}
    if isinstance(expr, Symbol):
        if expr.name in ser.LOGI:
            return {"k": "coord", "i": ser.LOGI.index(expr.name)}
        raise Unsupported("symbol " + expr.name)
    if isinstance(expr, Add):
        return {"k": "add", "a": [ser_g(a) for a in expr.args]}
    if isinstance(expr, Mul):
        return {"k": "mul", "a": [ser_g(a) for a in expr.args]}
    if isinstance(expr, Pow):
        return {"k": "pow", "b": ser_g(expr.base), "e": ser_g(expr.exp)}
    for name, f in ser.FN.items():
        if isinstance(expr, f):
            return {"k": "fn", "f": name, "a": ser_g(expr.args[0])}
    if isinstance(expr, sp.Indexed) and len(expr.indices) == 1 and isinstance(expr.base, (C.BasicOperator, C.DiffOperator)) \
            and getattr(expr.indices[0], "is_Integer", False):
        return {"k": "idx", "a": ser_g(expr.base), "i": int(expr.indices[0])}      # oracle-only node (not in the Coq grammar)
    tn = type(expr).__name__
    if tn in NAME_OF and isinstance(expr, (C.BasicOperator, C.DiffOperator)):
        return {"k": "op", "name": NAME_OF[tn], "a": [ser_g(a) for a in expr.args]}
    raise Unsupported("node %s" % tn)


# --------------------------------------------------------------------------- outermost arm with the real predicates
def real_arm(op, args, dim):
    C = core()
    from sympde.topology.space import ScalarFunction, VectorFunction
    from sympde.core.basic import _coeffs_registery
    from sympde.topology.domain import NormalVector
    types = (VectorFunction, ScalarFunction)
    has = C.has
    if op in IFACE:
        e = args[0]
        side = op in ("Minus", "Plus")
        if isinstance(e, Add):
            return "add"
        if isinstance(e, Mul):
            v = [a for a in e.args if not isinstance(a, _coeffs_registery)]
            if not v:
                return "mul-coeffs"
            if side:
                return "mul-restrict-factors"          # multiplicative, any number of factors
            if len(v) == 1:
                return "mul-one"
            if op in ("Jump", "Avg"):
                return "mul-keep-product"              # no rewriting of a product of several functions
            return "mul-two" if len(v) == 2 else "mul-many"      # NormalDerivative: Leibniz rule
        if isinstance(e, C.NormalDerivative):
            return "normal-derivative" if side else "atom"
        if isinstance(e, NormalVector):
            return "normal-vector"
        return "zero" if side and e.is_zero else "atom"
    if op in OP1:
        e = args[0]
        if not has(e, types):
            return "number" if e.is_number else "no-function"
        if isinstance(e, Add):
            return "add"
        if isinstance(e, Mul):
            if op == "Grad":
                cm = [a for a in e.args if a.is_commutative]
                ncm = [a for a in e.args if not a.is_commutative]
                free = [a for a in cm if not a.is_number and not has(a, types)]
                cm2 = [a for a in cm if not a.is_number and has(a, types)]
                if ncm:
                    return "mul-noncommutative"
                if free:
                    return "mul-free-factor"
                if len(cm2) == 1:
                    return "mul-one"
                return "mul-product-rule" if cm2 else "mul-zero"
            v = [a for a in e.args if not a.is_number]
            if op == "Div":
                if len(v) == 2:
                    return "mul-two-vectors" if any(isinstance(a, (sp.Tuple, VectorFunction)) for a in v) else "mul-two-other"
                return "mul-coeff"
            if op == "Laplace":
                return "mul-two" if len(v) == 2 and all(a.is_commutative for a in v) else "mul-coeff"
            return "mul-coeff"
        if isinstance(e, Pow):
            return "pow" if op == "Grad" else "atom"
        if isinstance(e, C.Grad) and op == "Curl":
            return "curl-grad"
        if isinstance(e, C.Curl) and op == "Div":
            return "div-curl"
        if isinstance(e, C.Cross) and op == "Div":
            return "div-cross"
        return "atom"
    a1, a2 = args
    if op == "Bracket":
        if a1.is_number or a2.is_number:
            return "number"
        if a1 == a2:
            return "equal"
        if isinstance(a1, Add):
            return "add-1"
        if isinstance(a1, Mul):
            return "mul-1"
        if isinstance(a2, Add):
            return "add-2"
        if isinstance(a2, Mul):
            return "mul-2"
        return "swap" if str(a1) > str(a2) else "keep"
    if op == "Cross" and a1 == a2:
        return "equal"
    if op == "Convect":
        if C.is_zero(a1) or a2.is_number:
            return "zero"
    elif C.is_zero(a1) or C.is_zero(a2):
        return "zero"
    if isinstance(a1, Add):
        return "add-1"
    if isinstance(a2, Add):
        return "add-2"
    fa = a1.args if isinstance(a1, Mul) else [a1]
    fb = a2.args if isinstance(a2, Mul) else [a2]
    out2 = (lambda i: i.is_commutative and i.is_number) if op == "Convect" else (lambda i: i.is_commutative)
    n1 = [i for i in fa if not i.is_commutative]
    n2 = [i for i in fb if not out2(i)]
    if not n1 or not n2:
        return "raise"
    pulled = "-factors" if ([i for i in fa if i.is_commutative] + [i for i in fb if out2(i)]) else ""
    if op in ("Dot", "Inner", "Cross"):
        from functools import reduce
        from operator import mul
        x, y = reduce(mul, n1), reduce(mul, n2)
        mbm = getattr(C, "_may_be_matrix", None)          # Dot: no canonical order when a factor may be matrix-valued
        if op == "Dot" and mbm is not None and (mbm(x) or mbm(y)):
            return "keep" + pulled
        return ("swap" if str(x) > str(y) else "keep") + pulled
    return "keep" + pulled


def pred_of(op, args, arm, dim=3):
    """Features of the input that name the confirmed defects (precise enough that another violation of C02
    has a different signature).  The constructors distribute over sums first: look through them."""
    C = core()
    from sympde.topology.space import ScalarFunction, VectorFunction
    from sympde.core.basic import _coeffs_registery
    types = (VectorFunction, ScalarFunction)

    def through_sums(terms_of):
        found = []
        for cand in terms_of:
            try:
                a = real_arm(op, cand, dim)
                p = pred_of(op, cand, a, dim)
            except Exception:  # noqa
                p = "none"
            if p != "none":
                found.append(p)
        for first in ("no-noncommutative-factor", "commutative-nonscalar-factor"):    # a raise dominates
            if first in found:
                return first
        return found[0] if found else "none"
    if arm == "add":
        return through_sums([[t] for t in args[0].args])
    if arm == "add-1":
        return through_sums([[t, args[1]] for t in args[0].args])
    if arm == "add-2":
        return through_sums([[args[0], t] for t in args[1].args])
    if arm == "raise":
        return "no-noncommutative-factor"

    def nonscalar_commutative(e):
        """a commutative factor of a product that is not a scalar (Laplace(F), Div(Grad(F)), ...): the product
        rules treat every commutative factor as a scalar coefficient"""
        if not isinstance(e, Mul):
            return False
        for a in e.args:
            if a.is_commutative and not a.is_number:
                try:
                    sh = GConcrete(random.Random(0), dim=dim, deg=1).g(ser_g(a))[0]
                except Exception:  # noqa
                    continue
                if sh != "s":
                    return True
        return False
    if op in OP2 and op != "Bracket" and any(nonscalar_commutative(a) for a in (args[:1] if op == "Convect" else args)):
        return "commutative-nonscalar-factor"
    if op == "Grad" and nonscalar_commutative(args[0]):
        return "commutative-nonscalar-factor"
    if op == "Dot":
        def shape_of(a):
            try:
                return GConcrete(random.Random(0), dim=dim, deg=1).g(ser_g(a))[0]
            except Exception:  # noqa
                return "?"
        if sorted([shape_of(args[0]), shape_of(args[1])]) == ["m", "v"]:
            return "matrix-vector-order"          # matrix . vector / vector . matrix: the order of the arguments matters

    def var_pow(e):
        if isinstance(e, Pow) and not e.exp.is_number:
            return True
        if isinstance(e, (Add, Mul, Pow)):
            return any(var_pow(a) for a in e.args)
        return False
    if op == "Grad":
        return "none"
    if op == "Div":
        e = args[0]
        return "none"
    if op == "Laplace":
        if arm == "mul-two":
            v = [a for a in args[0].args if not a.is_number]

            def nonscalar(a):
                try:
                    return GConcrete(random.Random(0), dim=dim, deg=1).g(ser_g(a))[0] != "s"
                except Exception:  # noqa
                    return not a.is_commutative
            if any(nonscalar(a) for a in v):
                return "commutative-nonscalar-factor"     # both factors are commutative here: a commutative vector
            return "none"
        return "none"
    if op in IFACE:
        # no open defect of the interface operators is known (the product / constant arms were repaired:
        # minus / plus multiplicative, jump / avg keep products, jump / Dn of constants = 0)
        return "none"
    return "none"


# --------------------------------------------------------------------------- numeric oracle: classical definitions
class IllTyped(Exception):
    pass


class GConcrete(ser.Concrete):
    """Explicit polynomial instantiation of every function; the operators are the classical definitions written
    directly with sympy.diff.  Values are tagged: ("s", expr) | ("v", [expr]*d) | ("m", [[expr]*d]*d)."""

    def xs(self):
        return self.syms[True][: self.dim]

    def fld(self, name, c, side):
        return self.poly(("fld", name, c, side), True)

    def normal(self, side):
        return [self.poly(("nrm", side, i), True) for i in range(self.dim)]

    @staticmethod
    def emap(f, v):
        sh, x = v
        if sh == "s":
            return (sh, f(x))
        if sh == "v":
            return (sh, [f(e) for e in x])
        return (sh, [[f(e) for e in row] for row in x])

    @staticmethod
    def ezip(f, a, b):
        (sa, x), (sb, y) = a, b
        if sa != sb:
            raise IllTyped("shape mismatch %s %s" % (sa, sb))
        if sa == "s":
            return (sa, f(x, y))
        if sa == "v":
            return (sa, [f(p, q) for p, q in zip(x, y)])
        return (sa, [[f(p, q) for p, q in zip(r1, r2)] for r1, r2 in zip(x, y)])

    def g(self, j, side="0"):
        k = j["k"]
        d = self.dim
        xs = self.xs()
        if k == "num":
            return ("s", Rational(j["p"], j["q"]))
        if k == "const":
            return ("s", self.const(j["name"]))
        if k == "coord":
            return ("s", self.syms[True][j["i"]])
        if k == "sf":
            return ("s", self.fld(j["name"], 0, side))
        if k == "vf":
            return ("v", [self.fld(j["name"], i + 1, side) for i in range(d)])
        if k == "comp":
            return ("s", self.fld(j["name"], j["i"] + 1, side))
        if k == "normal":
            return ("v", self.normal(side))
        if k == "add":
            vals = [self.g(a, side) for a in j["a"]]
            vals = [v for v in vals if not (v[0] == "s" and v[1] == 0)] or [("s", S.Zero)]   # the literal 0 is the zero of every shape
            r = vals[0]
            for v in vals[1:]:
                r = self.ezip(lambda p, q: p + q, r, v)
            return r
        if k == "mul":
            vals = [self.g(a, side) for a in j["a"]]
            tens = [v for v in vals if v[0] != "s"]
            if len(tens) > 1:
                raise IllTyped("product of two tensors")
            sc = Mul(*[v[1] for v in vals if v[0] == "s"])
            return self.emap(lambda e: e * sc, tens[0]) if tens else ("s", sc)
        if k == "pow":
            b, e = self.g(j["b"], side), self.g(j["e"], side)
            if b[0] != "s" or e[0] != "s":
                raise IllTyped("power of a tensor")
            return ("s", Pow(b[1], e[1]))
        if k == "fn":
            a = self.g(j["a"], side)
            if a[0] != "s":
                raise IllTyped("function of a tensor")
            return ("s", ser.FN[j["f"]](a[1]))
        if k == "idx":                                    # component of a vector-valued expression (oracle only)
            v = self.g(j["a"], side)
            if v[0] != "v" or not 0 <= j["i"] < len(v[1]):
                raise IllTyped("component %d of %s" % (j["i"], v[0]))
            return ("s", v[1][j["i"]])
        if k != "op":
            raise Unsupported("oracle node " + k)
        name = j["name"]
        if name in ("Minus", "Plus", "Jump", "Avg"):
            if side != "0":
                raise IllTyped("nested restriction")
            if name == "Minus":
                return self.g(j["a"][0], "-")
            if name == "Plus":
                return self.g(j["a"][0], "+")
            m, p = self.g(j["a"][0], "-"), self.g(j["a"][0], "+")
            if name == "Jump":
                return self.ezip(lambda a, b: a - b, m, p)
            return self.ezip(lambda a, b: (a + b) / 2, m, p)
        vals = [self.g(a, side) for a in j["a"]]
        sh = [v[0] for v in vals]
        x = [v[1] for v in vals]
        D = lambda e, i: sp.diff(e, xs[i])  # noqa
        R = range(d)
        if name == "Grad":
            if sh[0] == "s":
                return ("v", [D(x[0], i) for i in R])
            if sh[0] == "v":
                return ("m", [[D(x[0][jj], i) for jj in R] for i in R])
        elif name == "Curl" and sh[0] == "v":
            a = x[0]
            if d == 2:
                return ("s", D(a[1], 0) - D(a[0], 1))
            if d == 3:
                return ("v", [D(a[2], 1) - D(a[1], 2), D(a[0], 2) - D(a[2], 0), D(a[1], 0) - D(a[0], 1)])
        elif name == "Rot" and sh[0] == "s" and d == 2:
            return ("v", [D(x[0], 1), -D(x[0], 0)])
        elif name == "Div":
            a = x[0]
            if sh[0] == "v":
                return ("s", Add(*[D(a[i], i) for i in R]))
            if sh[0] == "m":
                return ("v", [Add(*[D(a[i][jj], i) for i in R]) for jj in R])
        elif name == "Laplace":
            lap = lambda e: Add(*[D(D(e, i), i) for i in R])  # noqa
            if sh[0] == "s":
                return ("s", lap(x[0]))
            if sh[0] == "v":
                return ("v", [lap(e) for e in x[0]])
        elif name == "Hessian" and sh[0] == "s":
            return ("m", [[D(D(x[0], jj), i) for jj in R] for i in R])
        elif name == "Dn" and sh[0] == "s":
            n = self.normal(side)
            return ("s", Add(*[D(x[0], i) * n[i] for i in R]))
        elif name == "Bracket" and sh == ["s", "s"] and d == 2:
            f, g = x
            return ("s", D(f, 0) * D(g, 1) - D(f, 1) * D(g, 0))
        elif name in ("Dot", "Inner") and sh == ["v", "v"]:
            return ("s", Add(*[x[0][i] * x[1][i] for i in R]))
        elif name == "Dot" and sh == ["m", "v"]:          # matrix . vector: contraction over the column index
            return ("v", [Add(*[x[0][i][jj] * x[1][jj] for jj in R]) for i in R])
        elif name == "Dot" and sh == ["v", "m"]:          # vector . matrix: contraction over the row index
            return ("v", [Add(*[x[0][i] * x[1][i][jj] for i in R]) for jj in R])
        elif name == "Inner" and sh == ["m", "m"]:
            return ("s", Add(*[x[0][i][jj] * x[1][i][jj] for i in R for jj in R]))
        elif name == "Cross" and sh == ["v", "v"]:
            a, b = x
            if d == 2:
                return ("s", a[0] * b[1] - a[1] * b[0])
            if d == 3:
                return ("v", [a[1] * b[2] - a[2] * b[1], a[2] * b[0] - a[0] * b[2], a[0] * b[1] - a[1] * b[0]])
        elif name == "Outer" and sh == ["v", "v"]:
            return ("m", [[x[0][i] * x[1][jj] for jj in R] for i in R])
        elif name == "Convect" and sh == ["v", "v"]:
            F, G = x
            return ("v", [Add(*[F[jj] * D(G[i], jj) for jj in R]) for i in R])
        raise IllTyped("%s on %s in dimension %d" % (name, sh, d))

    def tensor_sx(self, t):
        """value of a serialised TerminalExpr result (shape not tagged: compared entry-wise after flattening)"""
        if isinstance(t, dict) and t.get("k") == "mat":
            return ("?", [self.sx(e, True) for row in t["rows"] for e in row])
        return ("?", [self.sx(t, True)])


def num_equal(a, b, conc, npts=3, tol=1e-9):
    """compare two concrete expressions at random points.  First pass: the points are substituted as 60-digit floats
    (fast; an exact Rational**Rational makes sympy extract roots of huge integers).  Floats can fake a difference by
    cancellation (a huge power times an expression that is identically 0), so a mismatch is re-examined with EXACT
    rational points, where sympy's evalf tracks the precision; the exact verdict is the one returned."""
    worst = 0.0
    for _ in range(npts):
        ptq = conc.point()
        pt = {k: sp.Float(v, 60) for k, v in ptq.items()}
        try:
            va = sp.N(a.xreplace(pt), 40)
            vb = sp.N(b.xreplace(pt), 40)
        except Exception:  # noqa
            continue
        if not (va.is_number and vb.is_number) or va.has(sp.nan, sp.zoo, sp.oo) or vb.has(sp.nan, sp.zoo, sp.oo):
            continue
        try:
            diff = abs(sp.N(va - vb, 40))
            scale = max(1, abs(va), abs(vb))
            rel = float(diff / scale)
        except Exception:  # noqa
            continue
        if rel > tol:
            try:
                ea, eb = a.xreplace(ptq), b.xreplace(ptq)
                dd = ea - eb
                if dd.is_Rational:
                    exact_equal = (dd == 0)
                    rel = 0.0 if exact_equal else rel
                else:
                    dv = sp.N(dd, 50)
                    sc = max(1, abs(sp.N(ea, 50)), abs(sp.N(eb, 50)))
                    rel = float(abs(dv) / sc)
                    exact_equal = rel <= tol
            except Exception:  # noqa
                exact_equal = False
            if not exact_equal:
                return False, {"point": {str(k): str(v) for k, v in ptq.items()}, "lhs": str(va)[:40], "rhs": str(vb)[:40]}
        worst = max(worst, min(rel, 1.0))
    return True, {"worst_rel": worst}


def entries(v):
    sh, x = v
    if sh == "s":
        return [x]
    if sh in ("v", "?"):
        return list(x)
    return [e for row in x for e in row]


def values_equal(a, b, conc):
    """entry-wise numeric comparison; the scalar 0 equals the zero tensor of any shape"""
    ea, eb = entries(a), entries(b)
    if a[0] != b[0] and "?" not in (a[0], b[0]) or len(ea) != len(eb):
        if a[0] == "s" or (a[0] == "?" and len(ea) == 1):
            small, big = ea, eb
        elif b[0] == "s" or (b[0] == "?" and len(eb) == 1):
            small, big = eb, ea
        else:
            return False, {"shape": "%s%d vs %s%d" % (a[0], len(ea), b[0], len(eb))}
        if all(num_equal(sp.sympify(x), S.Zero, conc)[0] for x in small + big):
            return True, {}
        return False, {"shape": "%s vs %s" % (a[0], b[0])}
    for i, (x, y) in enumerate(zip(ea, eb)):
        ok, info = num_equal(sp.sympify(x), sp.sympify(y), conc)
        if not ok:
            info["entry"] = i
            return False, info
    return True, {}


ERR = {"TypeError": "type-error", "ArgumentTypeError": "argument-type", "NotImplementedError": "not-implemented",
       "ValueError": "value-error", "RecursionError": "recursion", "IndexError": "index-error",
       "AttributeError": "attribute-error", "NameError": "name-error"}


def run_case(case):
    from sympy.core.cache import clear_cache
    clear_cache()
    d = case["dim"]
    env = ser.Env(dim=d)
    out = {}
    try:
        args = [build(a, env) for a in case["args"]]
    except Unsupported as e:
        return {"arg_error": "unsupported", "msg": str(e)[:200]}
    except Exception as e:  # noqa
        return {"arg_error": ERR.get(type(e).__name__, "other"), "msg": str(e)[:200]}
    try:
        out["ins"] = [ser_g(a) for a in args]
    except Unsupported as e:
        return {"arg_error": "unsupported", "msg": str(e)[:200]}
    op = case["op"]
    # str(.) of the composite sub-expressions (the code orders the arguments of Dot/Cross/Inner/Bracket by str)
    strs, seen = [], set()
    for a in args:
        for sub in sp.preorder_traversal(a):
            if isinstance(sub, (Add, Mul, Pow)) and sub not in seen and len(strs) < 40:
                seen.add(sub)
                try:
                    st = str(sub)
                    if len(st) <= 200 and all(32 <= ord(ch) < 127 for ch in st):
                        strs.append([ser_g(sub), st])
                except Exception:  # noqa
                    pass
    out["strs"] = strs
    try:
        out["arm"] = real_arm(op, args, d)
        out["pred"] = pred_of(op, args, out["arm"], d)
    except Exception as e:  # noqa
        out["arm"], out["pred"] = "?", "none"
        out["arm_error"] = "%s: %s" % (type(e).__name__, str(e)[:100])
    res = None
    gi = case.get("getitem")
    if gi is not None:
        out["arm"], out["pred"] = "getitem", "component"
    try:
        res = cls_of(op)(*args)
        if gi is not None:
            # minus(E)[i] / plus(E)[i] ... : the object the subscript is applied to, then the subscript
            try:
                out["self"] = ser_g(res)
            except Unsupported:
                out["self"] = {"err": "unsupported-node"}
            res = res[gi]
        out["out"] = ser_g(res)
        out["str"] = str(res)[:300]
    except Unsupported as e:
        out["out"] = {"err": "unsupported-node", "msg": str(e)[:200]}
    except Exception as e:  # noqa
        out["out"] = {"err": ERR.get(type(e).__name__, "other"), "msg": "%s: %s" % (type(e).__name__, str(e)[:160])}
    if "err" in out["out"] and out["out"]["err"] == "attribute-error":
        def restricted_nonfunction(j):
            if j["k"] == "op" and j["name"] in ("Minus", "Plus"):
                a = j["a"][0]
                if not (a["k"] in ("sf", "vf", "comp", "normal") or (a["k"] == "op" and a["name"] in ("Minus", "Plus"))):
                    return True
            if j["k"] in ("add", "mul", "op"):
                return any(restricted_nonfunction(a) for a in j["a"])
            if j["k"] == "pow":
                return restricted_nonfunction(j["b"]) or restricted_nonfunction(j["e"])
            return False
        if op in ("Minus", "Plus") and out["ins"][0]["k"] == "op" and out["ins"][0]["name"] == "Dn":
            out["pred"] = "restricted-nonfunction"
        elif any(restricted_nonfunction(a) for a in out["ins"]):
            out["pred"] = "restricted-nonfunction"
    # the real lowering of the constructed result
    if res is not None and "err" not in out["out"]:
        try:
            from sympde.expr import TerminalExpr
            t = TerminalExpr(res, env.domain)
            out["term"] = ser.ser_any(t)
        except Unsupported as e:
            out["term"] = {"err": "unsupported-node", "msg": str(e)[:120]}
        except Exception as e:  # noqa
            out["term"] = {"err": ERR.get(type(e).__name__, "other"), "msg": "%s: %s" % (type(e).__name__, str(e)[:120])}
    # numeric oracle
    orc = {}
    try:
        conc = GConcrete(random.Random(case.get("seed", 0)), dim=d, deg=int(case.get("deg", 3)))
        lit = {"k": "op", "name": op, "a": out["ins"]}
        if gi is not None:
            lit = {"k": "idx", "a": lit, "i": gi}         # component i of the restriction / jump / average of E
        try:
            vl = conc.g(lit)
            orc["lit_ok"] = True
        except IllTyped as e:
            vl = None
            orc["lit_ok"] = False
            orc["lit_msg"] = str(e)[:100]
        if vl is not None and "err" not in out["out"]:
            try:
                vr = conc.g(out["out"])
                ok, info = values_equal(vr, vl, conc)
                orc["res_vs_lit"] = bool(ok)
                if not ok:
                    orc["info"] = info
            except IllTyped as e:
                orc["res_vs_lit"] = "ill-typed"
                orc["info"] = str(e)[:100]
            if "term" in out and "err" not in out["term"]:
                try:
                    vt = conc.tensor_sx(out["term"])
                    ok, info = values_equal(vt, vl, conc)
                    orc["term_vs_lit"] = bool(ok)
                except Exception as e:  # noqa
                    orc["term_vs_lit"] = None
    except Exception as e:  # noqa
        orc["error"] = "%s: %s" % (type(e).__name__, str(e)[:200])
    out["oracle"] = orc
    return out


def run_isolated(case, limit):
    """run one case in a forked child (sympy / gmp can hang inside C code where no Python signal is served)"""
    import os
    import select
    import signal
    import time
    r, w = os.pipe()
    pid = os.fork()
    if pid == 0:
        os.close(r)
        try:
            try:
                out = run_case(case)
            except Exception:  # noqa
                out = {"crash": traceback.format_exc()[-1500:]}
            data = json.dumps(out).encode()
            with os.fdopen(w, "wb") as fh:
                fh.write(data)
        finally:
            os._exit(0)
    os.close(w)
    chunks = []
    deadline = time.time() + limit
    timed_out = False
    with os.fdopen(r, "rb") as fh:
        while True:
            left = deadline - time.time()
            if left <= 0:
                timed_out = True
                break
            ready, _, _ = select.select([fh], [], [], left)
            if not ready:
                timed_out = True
                break
            b = os.read(fh.fileno(), 1 << 16)
            if not b:
                break
            chunks.append(b)
    if timed_out:
        try:
            os.kill(pid, signal.SIGKILL)
        except OSError:
            pass
    os.waitpid(pid, 0)
    if timed_out:
        return {"timeout": limit}
    try:
        return json.loads(b"".join(chunks).decode())
    except Exception:  # noqa
        return {"crash": "child produced no result"}


def main():
    payload = json.load(open(sys.argv[1]))
    limit = int(payload.get("case_timeout", 45))
    import sympde.calculus.core  # noqa  (import once in the parent; children are forks)
    import sympde.expr  # noqa
    res = []
    for case in payload["cases"]:
        res.append(run_isolated(case, limit))
    json.dump({"results": res}, open(sys.argv[2], "w"))


if __name__ == "__main__":
    main()
