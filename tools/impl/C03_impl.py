"""Implementation side of C03 (pull-back to logical coordinates).

case : {"dim":d, "mapping":MAP, "spaces":{fname:{"kind":"h1|hcurl|hdiv|l2|undef","vector":bool}},
        "tree":E, "order":"LT"|"TL", "seed":n}
  MAP ::= {"type":"symbolic"} | {"type":"catalogue","cls":name,"params":{const:[p,q]}} |
          {"type":"user","exprs":[str..]}                    (a user Mapping subclass with _expressions)
  E   ::= {"k":"num","p","q"} | {"k":"const","name"} | {"k":"coord","i"} | {"k":"sf","f"} | {"k":"vf","f"}
        | {"k":"comp","f","i"} | {"k":"add","a":[E..]} | {"k":"mul","a":[E..]} | {"k":"pow","b":E,"e":E}
        | {"k":"fn","f":name,"a":E} | {"k":"op","name":"grad|curl|div|laplace|dot|inner|outer|cross|rot|hessian","a":[E..]}
        | {"k":"d","i":0..2,"a":E} | {"k":"mat","rows":[[E..]..]}
result: {"in":E (the constructed object, re-serialised), "out":TENS | {"err":kind,...},
         "mapexprs":[sx..] (analytical mappings: the coordinate expressions), "oracle":{"ok":bool|None,...}}
  TENS ::= {"k":"sc","v":sx} | {"k":"mat","rows":[[sx..]..]}

order LT = TerminalExpr(LogicalExpr(e, D), D.logical_domain); TL = LogicalExpr(TerminalExpr(e, D), D).

Independent oracle (explicit composition): every physical field is an explicit random polynomial in (x,y,z), the mapping
an explicit map F (polynomial diffeomorphism for a symbolic mapping, the catalogue/user expressions with rational values
for the constants otherwise); the logical unknowns are DEFINED from them by the pull-back formula of their kind
(h1/undef: u o F, hcurl: J^T u o F, hdiv: det J J^-1 u o F, l2: det J u o F); the implementation's output, with its atoms
replaced by these explicit functions (sympy.diff for their logical derivatives), is compared at rational logical points
with the ORIGINAL expression evaluated classically (sympy.diff w.r.t. x,y,z on the explicit polynomials, the textbook
definitions of grad/div/curl/...) at the image point F(x^).
"""
import json
import random
import sys
import traceback

import sympy as sp
from sympy import Rational, Symbol, Matrix, ImmutableDenseMatrix, Tuple, Add, Mul, Pow, S

import ser

PHYS = ["x", "y", "z"]
LOGI = ["x1", "x2", "x3"]
KINDS = {"h1": "h1", "hcurl": "hcurl", "hdiv": "hdiv", "l2": "l2", "undef": None}
FN = {"sin": sp.sin, "cos": sp.cos, "tan": sp.tan, "exp": sp.exp, "log": sp.log, "sqrt": sp.sqrt, "Abs": sp.Abs}


class Refused(Exception):
    pass


# ------------------------------------------------------------------------------------------ environment
class World:
    def __init__(self, case):
        from sympde.topology import Domain, Mapping, ScalarFunctionSpace, VectorFunctionSpace, element_of
        import sympde.topology as top
        self.case = case
        self.dim = d = case["dim"]
        m = case["mapping"]
        if m["type"] == "symbolic":
            self.M = Mapping("M", dim=d)
        elif m["type"] == "catalogue":
            cls = getattr(top, m["cls"])
            params = {k: Rational(v[0], v[1]) for k, v in m.get("params", {}).items()}
            if case.get("prehistory") and params:
                # the same class and NAME with other parameter values, used first in the same interpreter (sympy's
                # cache is not cleared in between): a different input, which must not influence the case
                try:
                    from sympde.topology import LogicalExpr as _LE
                    from sympde.expr.evaluation import TerminalExpr as _TE
                    other = {k: v + Rational(1 + i, 2) for i, (k, v) in enumerate(sorted(params.items()))}
                    M0 = cls("M", dim=d, **other)
                    D0 = M0(Domain("Omega", dim=d))
                    f0 = element_of(ScalarFunctionSpace("V_pre", D0, kind=None), name="pre")
                    from sympde.calculus import grad as _grad, dot as _dot
                    _TE(_LE(D0.coordinates[0] * f0 + _dot(_grad(f0), _grad(f0)), D0), D0.logical_domain)
                except Exception:  # noqa
                    pass
            self.M = cls("M", dim=d, **params)
        elif m["type"] == "user":
            ex = {PHYS[i]: m["exprs"][i] for i in range(d)}
            cls = type("UserMapping", (Mapping,), {"_expressions": ex, "_ldim": d, "_pdim": d})
            self.M = cls("M", dim=d)
        else:
            raise ValueError(m["type"])
        if case.get("ncube"):
            from sympde.topology import Line, Square, Cube     # a patch with boundary faces (Trace)
            self.logical = [Line, Square, Cube][d - 1]("Omega")
        else:
            self.logical = Domain("Omega", dim=d)
        self.D = self.M(self.logical)
        self.funcs = {}
        for name, sp_ in sorted(case["spaces"].items()):
            kind = KINDS[sp_["kind"]]
            if sp_["vector"]:
                V = VectorFunctionSpace("W_" + name, self.D, kind=kind)
            else:
                V = ScalarFunctionSpace("V_" + name, self.D, kind=kind)
            self.funcs[name] = element_of(V, name=name)
        self.consts = {}

    def const(self, name):
        from sympde.core import Constant
        if name not in self.consts:
            self.consts[name] = Constant(name)
        return self.consts[name]


def build(j, w):
    from sympde.calculus import core as calc
    from sympde.topology import dx, dy, dz
    k = j["k"]
    if k == "num":
        return Rational(j["p"], j["q"])
    if k == "const":
        return w.const(j["name"])
    if k == "coord":
        return Symbol(PHYS[j["i"]], real=True)
    if k in ("sf", "vf"):
        return w.funcs[j["f"]]
    if k == "comp":
        return w.funcs[j["f"]][j["i"]]
    if k == "add":
        r = build(j["a"][0], w)
        for a in j["a"][1:]:
            r = r + build(a, w)
        return r
    if k == "mul":
        r = build(j["a"][0], w)
        for a in j["a"][1:]:
            r = r * build(a, w)
        return r
    if k == "pow":
        return build(j["b"], w) ** build(j["e"], w)
    if k == "fn":
        return FN[j["f"]](build(j["a"], w))
    if k == "op":
        if j["name"] == "transpose":           # sympde.calculus.matrices.Transpose (symmetric gradients, elasticity)
            from sympde.calculus.matrices import Transpose
            return Transpose(*[build(a, w) for a in j["a"]])
        op = getattr(calc, j["name"])
        return op(*[build(a, w) for a in j["a"]])
    if k == "d":
        return [dx, dy, dz][j["i"]](build(j["a"], w))
    if k == "mat":
        return ImmutableDenseMatrix([[build(a, w) for a in row] for row in j["rows"]])
    if k == "tuple":
        return Tuple(*[build(a, w) for a in j["a"]])
    if k == "trace":
        from sympde.topology.space import trace_0, trace_1
        B = w.D.get_boundary(axis=j["axis"], ext=j["ext"])
        return (trace_0 if j["order"] == 0 else trace_1)(build(j["a"], w), B)
    raise ValueError(k)


# ------------------------------------------------------------------------- serialise the constructed object
def ser_tree(e):
    """real sympde expression (what LogicalExpr receives) -> JSON tree E; fail closed."""
    from sympde.topology.space import ScalarFunction, VectorFunction, IndexedVectorFunction
    from sympde.core.basic import Constant
    from sympde.calculus import core as C
    from sympde.topology.derivatives import dx, dy, dz
    e = sp.sympify(e)
    if isinstance(e, sp.Integer):
        return {"k": "num", "p": int(e), "q": 1}
    if isinstance(e, sp.Rational):
        return {"k": "num", "p": int(e.p), "q": int(e.q)}
    if isinstance(e, ScalarFunction):
        return {"k": "sf", "f": e.name}
    if isinstance(e, VectorFunction):
        return {"k": "vf", "f": e.name}
    if isinstance(e, IndexedVectorFunction):
        return {"k": "comp", "f": e.base.name, "i": int(e.indices[0])}
    if isinstance(e, Constant):
        return {"k": "const", "name": e.name}
    if isinstance(e, Symbol):
        if e.name in PHYS:
            return {"k": "coord", "i": PHYS.index(e.name)}
        raise ser.Unsupported("symbol %s" % e.name)
    if isinstance(e, (dx, dy, dz)):
        return {"k": "d", "i": e.grad_index, "a": ser_tree(e.args[0])}
    ops = {C.Grad: "grad", C.Curl: "curl", C.Div: "div", C.Laplace: "laplace", C.Dot: "dot", C.Inner: "inner",
           C.Outer: "outer", C.Cross: "cross", C.Rot: "rot", C.Hessian: "hessian"}
    for cls, name in ops.items():
        if type(e) is cls:
            return {"k": "op", "name": name, "a": [ser_tree(a) for a in e.args]}
    from sympde.calculus.matrices import Transpose
    if type(e) is Transpose:
        return {"k": "op", "name": "transpose", "a": [ser_tree(e.arg)]}
    if isinstance(e, Add):
        return {"k": "add", "a": [ser_tree(a) for a in e.args]}
    if isinstance(e, Mul):
        return {"k": "mul", "a": [ser_tree(a) for a in e.args]}
    if isinstance(e, Pow):
        # general powers: the integer part of the exponent is split off exactly as ser.ser_sx does for the outputs
        # (b**(r+n) = b**r * b**n, the exponent law trusted by the serialiser), so that both sides name the same atom
        rest, n = ser._split_exponent(e.exp)
        if rest == 0 or n == 0:
            return {"k": "pow", "b": ser_tree(e.base), "e": ser_tree(e.exp)}
        return {"k": "mul", "a": [{"k": "pow", "b": ser_tree(e.base), "e": ser_tree(rest)},
                                  {"k": "pow", "b": ser_tree(e.base), "e": {"k": "num", "p": int(n), "q": 1}}]}
    for name, f in FN.items():
        if name != "sqrt" and isinstance(e, f):
            return {"k": "fn", "f": name, "a": ser_tree(e.args[0])}
    if isinstance(e, (Matrix, ImmutableDenseMatrix)):
        return {"k": "mat", "rows": [[ser_tree(e[i, j]) for j in range(e.shape[1])] for i in range(e.shape[0])]}
    if isinstance(e, Tuple):
        return {"k": "mat", "rows": [[ser_tree(a)] for a in e], "tuple": True}
    from sympde.topology.space import Trace
    if isinstance(e, Trace):
        return {"k": "trace", "order": int(e.order), "a": ser_tree(e.expr), "axis": int(e.boundary.axis), "ext": int(e.boundary.ext)}
    raise ser.Unsupported("input node %s" % type(e).__name__)


# ------------------------------------------------------------------------- serialise outputs (terminal tensors)
def _prep(e):
    """floats with an integral / short rational value -> exact; pi -> the constant 'pi' (D pi = 0)."""
    e = sp.sympify(e)
    from sympde.topology import NormalVector
    nrep = {a: Symbol("nrm_%d" % int(a.indices[0])) for a in e.atoms(sp.Indexed) if isinstance(a.base, NormalVector)}
    if nrep:
        e = e.xreplace(nrep)
    rep = {}
    for f in e.atoms(sp.Float):
        r = sp.nsimplify(f, rational=True)
        if abs(r.q) > 10 ** 6 or abs(float(r) - float(f)) > 1e-14 * max(1.0, abs(float(f))):
            raise ser.Unsupported("float literal")
        rep[f] = r
    if rep:
        e = e.xreplace(rep)
    if e.has(sp.pi):
        e = e.xreplace({sp.pi: Symbol("pi")})
    return e


def _logical_atoms(j):
    """an underived function atom carries no derivation family in ser.py (lg = false); in a logical expression it is
    the logical unknown: mark it logical so that it is the same atom as the one the derivatives refer to"""
    k = j["k"]
    if k == "at":
        if j["t"] == "fld" and not any(j["al"]):
            j["lg"] = True
    elif k in ("add", "mul"):
        for a in j["a"]:
            _logical_atoms(a)
    elif k == "pow":
        _logical_atoms(j["b"])
        _logical_atoms(j["e"])
    elif k == "fn":
        _logical_atoms(j["a"])
    return j


def ser_scalar(e):
    e = _prep(e)
    if e.has(sp.Derivative):
        raise ser.Unsupported("node Derivative")
    return _logical_atoms(ser.ser_sx(e))


def ser_out(e):
    if isinstance(e, (Matrix, ImmutableDenseMatrix)):
        return {"k": "mat", "rows": [[ser_scalar(e[i, j]) for j in range(e.shape[1])] for i in range(e.shape[0])]}
    if isinstance(e, (Tuple, tuple, list)):
        return {"k": "mat", "rows": [[ser_scalar(a)] for a in e]}
    return {"k": "sc", "v": ser_scalar(e)}


# ------------------------------------------------------------------------- the oracle
class Explicit:
    def __init__(self, w, rng):
        self.w, self.rng, self.d = w, rng, w.dim
        d = self.d
        self.X = [Symbol(n, real=True) for n in PHYS[:d]]
        self.Xh = [Symbol(n, real=True) for n in LOGI[:d]]
        self.cvals = {}
        m = w.case["mapping"]
        if m["type"] == "symbolic":
            self.F = self.random_diffeo()
        else:
            ex = list(w.M.expressions)
            self.F = [self.subs_consts(_prep(a)) for a in ex]        # exact rationals instead of float literals
        self.J = Matrix([[sp.diff(self.F[i], self.Xh[j]) for j in range(d)] for i in range(d)])
        self.det = self.J.det()
        self.phys = {}      # (name, comp) -> polynomial in X
        self.logi = {}      # (name, comp) -> explicit function of Xh
        for name, s in w.case["spaces"].items():
            self.define(name, s)

    def random_diffeo(self):
        r, d = self.rng, self.d
        while True:
            A = Matrix(d, d, lambda i, j: Rational(r.randint(-3, 3), r.randint(1, 2)) + (2 if i == j else 0))
            if A.det() != 0:
                break
        F = []
        for i in range(d):
            f = Rational(r.randint(-2, 2), 1) + sum(A[i, j] * self.Xh[j] for j in range(d))
            for _ in range(r.randint(1, 2)):
                mon = Rational(r.randint(1, 3), r.randint(2, 5)) * r.choice([1, -1])
                while True:
                    ex = [r.randint(0, 2) for _ in self.Xh]
                    if sum(ex) >= 2:
                        break
                for x, n in zip(self.Xh, ex):
                    mon *= x ** n
                f += mon
            F.append(sp.expand(f))
        return F

    def const(self, name):
        if name == "pi":
            return sp.pi
        if name not in self.cvals:
            # admissible values for the catalogue parameters, generic rationals otherwise
            fixed = {"rmin": Rational(1, 2), "rmax": Rational(3, 2), "k": Rational(3, 10), "D": Rational(1, 5),
                     "eps": Rational(1, 4), "b": Rational(7, 5), "R0": Rational(3, 1), "k1": Rational(1, 1),
                     "k2": Rational(1, 1), "a11": Rational(2), "a22": Rational(3), "a33": Rational(5, 2),
                     "a12": Rational(1, 2), "a21": Rational(-1, 3), "a13": Rational(1, 4), "a31": Rational(1, 5),
                     "a23": Rational(-1, 2), "a32": Rational(2, 3)}
            self.cvals[name] = fixed.get(name, Rational(self.rng.randint(2, 9), self.rng.randint(1, 4)))
        return self.cvals[name]

    def subs_consts(self, e):
        from sympde.core.basic import Constant
        rep = {}
        for s in e.free_symbols:
            if s.name in LOGI:
                rep[s] = Symbol(s.name, real=True)
            else:
                rep[s] = self.const(s.name)
        return e.xreplace(rep)

    def poly(self, deg=2):
        r = self.rng
        p = Rational(r.randint(1, 5))
        for _ in range(r.randint(2, 4)):
            mon = Rational(r.randint(1, 7), r.randint(1, 3)) * r.choice([1, -1])
            for x in self.X:
                mon *= x ** r.randint(0, deg)
            p += mon
        return p

    def compose(self, p):
        return p.xreplace(dict(zip(self.X, self.F)))

    def define(self, name, s):
        d = self.d
        kind = s["kind"]
        if not s["vector"]:
            p = self.poly()
            self.phys[(name, 0)] = p
            c = self.compose(p)
            if kind in ("h1", "undef"):
                self.logi[(name, 0)] = c
            elif kind == "l2":
                self.logi[(name, 0)] = self.det * c
            else:
                raise Refused("scalar space of kind %s" % kind)
            return
        ps = [self.poly() for _ in range(d)]
        for i in range(d):
            self.phys[(name, i + 1)] = ps[i]
        c = Matrix([self.compose(p) for p in ps])
        if kind in ("h1", "undef"):
            l = c
        elif kind == "hcurl":
            l = self.J.T * c
        elif kind == "hdiv":
            l = self.det * (self.J.inv() * c)
        elif kind == "l2":
            l = self.det * c
        for i in range(d):
            self.logi[(name, i + 1)] = l[i]

    # ---- classical value of the original expression (function of X)
    def classical(self, e):
        from sympde.topology.space import ScalarFunction, VectorFunction, IndexedVectorFunction
        from sympde.core.basic import Constant
        from sympde.calculus import core as C
        from sympde.topology.derivatives import dx, dy, dz
        d, X = self.d, self.X
        e = sp.sympify(e)
        if isinstance(e, (Matrix, ImmutableDenseMatrix)):
            return Matrix(e.shape[0], e.shape[1], lambda i, j: self.classical(e[i, j]))
        if isinstance(e, Tuple):
            return Matrix([self.classical(a) for a in e])
        from sympde.topology.space import Trace
        if isinstance(e, Trace):
            a = self.classical(e.expr)
            if int(e.order) == 0:
                return a
            # trace of order 1: the normal component, with the components of the normal as shared constants
            return sum(a[i] * self.const("nrm_%d" % i) for i in range(d))
        if e.is_Number:
            return e
        if isinstance(e, ScalarFunction):
            return self.phys[(e.name, 0)]
        if isinstance(e, VectorFunction):
            return Matrix([self.phys[(e.name, i + 1)] for i in range(d)])
        if isinstance(e, IndexedVectorFunction):
            return self.phys[(e.base.name, int(e.indices[0]) + 1)]
        if isinstance(e, Constant):
            return self.const(e.name)
        if isinstance(e, Symbol):
            if e.name in PHYS:
                return X[PHYS.index(e.name)]
            return self.const(e.name)
        if isinstance(e, (dx, dy, dz)):
            a = self.classical(e.args[0])
            return sp.diff(a, X[e.grad_index])
        if isinstance(e, Add):
            r = self.classical(e.args[0])
            for a in e.args[1:]:
                r = r + self.classical(a)
            return r
        if isinstance(e, Mul):
            sc, mats = S.One, []
            for a in e.args:
                v = self.classical(a)
                if isinstance(v, Matrix):
                    mats.append(v)
                else:
                    sc = sc * v
            if not mats:
                return sc
            r = mats[0]
            for m in mats[1:]:
                r = r * m
            return sc * r
        if isinstance(e, Pow):
            return self.classical(e.base) ** self.classical(e.exp)
        if isinstance(e, sp.Function) and type(e) in FN.values():
            return type(e)(self.classical(e.args[0]))
        t = type(e)
        if t is C.Grad:
            a = self.classical(e.args[0])
            if isinstance(a, Matrix):
                a = a.reshape(len(a), 1)
                return Matrix(d, len(a), lambda i, j: sp.diff(a[j], X[i]))
            return Matrix([sp.diff(a, X[i]) for i in range(d)])
        if t is C.Div:
            a = self.classical(e.args[0])
            if isinstance(a, Matrix) and a.shape[1] > 1:
                return Matrix([sum(sp.diff(a[i, j], X[i]) for i in range(d)) for j in range(a.shape[1])])
            return sum(sp.diff(a[i], X[i]) for i in range(d))
        if t is C.Curl:
            a = self.classical(e.args[0])
            if d == 2:
                return sp.diff(a[1], X[0]) - sp.diff(a[0], X[1])
            return Matrix([sp.diff(a[2], X[1]) - sp.diff(a[1], X[2]),
                           sp.diff(a[0], X[2]) - sp.diff(a[2], X[0]),
                           sp.diff(a[1], X[0]) - sp.diff(a[0], X[1])])
        if t is C.Rot:
            a = self.classical(e.args[0])
            return Matrix([sp.diff(a, X[1]), -sp.diff(a, X[0])])
        if t is C.Laplace:
            a = self.classical(e.args[0])
            if isinstance(a, Matrix):
                return a.applyfunc(lambda c: sum(sp.diff(c, x, 2) for x in X))
            return sum(sp.diff(a, x, 2) for x in X)
        if t is C.Hessian:
            a = self.classical(e.args[0])
            return Matrix(d, d, lambda i, j: sp.diff(a, X[i], X[j]))
        if t in (C.Dot, C.Inner):
            a, b = [self.classical(x) for x in e.args]
            if not isinstance(a, Matrix):
                return a * b
            return sum(x * y for x, y in zip(list(a), list(b)))
        if t is C.Outer:
            a, b = [self.classical(x) for x in e.args]
            return Matrix(len(a), len(b), lambda i, j: a[i] * b[j])
        if t is C.Cross:
            a, b = [self.classical(x) for x in e.args]
            if d == 2:
                return a[0] * b[1] - a[1] * b[0]
            return Matrix([a[1] * b[2] - a[2] * b[1], a[2] * b[0] - a[0] * b[2], a[0] * b[1] - a[1] * b[0]])
        from sympde.calculus.matrices import Transpose
        if t is Transpose:
            a = self.classical(e.arg)
            if not isinstance(a, Matrix):
                raise ser.Unsupported("classical: transpose of a scalar")
            return a.T
        raise ser.Unsupported("classical: %s" % type(e).__name__)

    # ---- the implementation's output with its atoms made explicit (function of Xh)
    def atom(self, a):
        t = a["t"]
        if t == "coord":
            if not a["lg"]:
                raise ser.Unsupported("physical coordinate left in the logical expression")
            return self.Xh[a["i"]]
        if t == "const":
            return self.const(a["name"])
        if t == "fld":
            if any(a["al"]) and not a["lg"]:
                raise ser.Unsupported("physical derivative left in the logical expression")
            p = self.logi[(a["f"], a["c"])]
            for i, n in enumerate(a["al"]):
                for _ in range(n):
                    p = sp.diff(p, self.Xh[i])
            return p
        if t == "map":
            p = self.F[a["i"]]
            for i, n in enumerate(a["al"]):
                for _ in range(n):
                    p = sp.diff(p, self.Xh[i])
            return p
        raise ser.Unsupported("atom " + t)

    def sx(self, j):
        k = j["k"]
        if k == "num":
            return Rational(j["p"], j["q"])
        if k == "at":
            return self.atom(j)
        if k == "add":
            return Add(*[self.sx(a) for a in j["a"]])
        if k == "mul":
            return Mul(*[self.sx(a) for a in j["a"]])
        if k == "pow":
            return Pow(self.sx(j["b"]), self.sx(j["e"]))
        if k == "fn":
            return FN[j["f"]](self.sx(j["a"]))
        raise ser.Unsupported("node " + k)

    def tens(self, t):
        if t["k"] == "sc":
            return [[self.sx(t["v"])]]
        return [[self.sx(a) for a in row] for row in t["rows"]]

    def point(self):
        r = self.rng
        for _ in range(50):
            pt = {x: Rational(r.randint(1, 12), r.randint(5, 13)) for x in self.Xh}
            dv = self.det.xreplace(pt)
            try:
                v = mp_value(dv)
                if v is not None and abs(v) > 1e-6:
                    return pt
            except CaseTimeout:
                raise
            except Exception:  # noqa
                pass
        return None


def as_rows(v):
    if isinstance(v, Matrix):
        return [[v[i, j] for j in range(v.shape[1])] for i in range(v.shape[0])]
    return [[v]]


def mp_value(e):
    """value of a closed sympy expression with mpmath at two FIXED working precisions; None when the two disagree
    (cancellation ate the digits).  sympy's own evalf is not used: its adaptive precision returned wrong values
    (silently, even with strict=True) on the large nested radicals / trigonometric sums of the Czarny mapping."""
    import mpmath
    f = sp.lambdify([], e, "mpmath")
    vals = []
    for dps in (60, 140):
        with mpmath.workdps(dps):
            v = mpmath.mpmathify(f())
            vals.append(mpmath.mpc(v))
    a, b = vals
    with mpmath.workdps(140):
        scale = max(1, abs(a), abs(b))
        if not (mpmath.isfinite(a.real) and mpmath.isfinite(a.imag) and mpmath.isfinite(b.real) and mpmath.isfinite(b.imag)):
            return None
        if abs(a - b) / scale > mpmath.mpf(10) ** (-30):
            return None
    return b


def compare(exp, out, expr, npts=2, tol=1e-12):
    """value of the implementation's logical expression at x^  vs  classical value of the original at F(x^)"""
    import mpmath
    got = exp.tens(out)
    want = as_rows(exp.classical(expr))
    flat_g = [c for r in got for c in r]
    flat_w = [c for r in want for c in r]
    shape_g = (len(got), len(got[0]))
    shape_w = (len(want), len(want[0]))
    if len(flat_g) != len(flat_w) or (shape_g != shape_w and 1 not in shape_g):
        return False, {"why": "shape", "got": list(shape_g), "want": list(shape_w)}
    worst = 0.0
    used = 0
    for _ in range(npts):
        pt = exp.point()
        if pt is None:
            continue
        img = {x: f.xreplace(pt) for x, f in zip(exp.X, exp.F)}
        for idx, (g, wv) in enumerate(zip(flat_g, flat_w)):
            try:
                vg = mp_value(sp.sympify(g).xreplace(pt))
                vw = mp_value(sp.sympify(wv).xreplace(img))
            except CaseTimeout:
                raise
            except Exception:  # noqa
                continue
            if vg is None or vw is None:
                continue
            used += 1
            with mpmath.workdps(60):
                dlt = float(abs(vg - vw) / max(1, abs(vg), abs(vw)))
            worst = max(worst, dlt)
            if dlt > tol:
                return False, {"why": "value", "entry": idx, "point": {str(k): str(v) for k, v in pt.items()},
                               "logical_value": mpmath.nstr(vg, 25), "physical_value": mpmath.nstr(vw, 25)}
    if used == 0:
        return None, {"why": "no point could be evaluated"}
    return True, {"worst_rel": worst, "evaluated": used}


# ------------------------------------------------------------------------- one case
def classify(ex):
    n = type(ex).__name__
    if isinstance(ex, NotImplementedError):
        return "not-implemented"
    if n == "ArgumentTypeError":
        return "refused:type"
    if isinstance(ex, ser.Unsupported):
        return "unsupported-node"
    if isinstance(ex, AssertionError):
        return "assertion"
    return "other:" + n


def run_case(case):
    from sympy.core.cache import clear_cache
    if case.get("iface") is not None:
        # expressions of restricted functions on an interface of a mapped two-patch domain: runner + oracle of their own
        import C03if_impl
        return C03if_impl.run_if_case(case, sys.modules[__name__])
    if case.get("dc") is not None:
        # direct calls of Jacobian / Covariant / Contravariant
        import C03dc_impl
        return C03dc_impl.run_dc_case(case, sys.modules[__name__])
    clear_cache()
    from sympde.topology import LogicalExpr
    from sympde.expr.evaluation import TerminalExpr
    out = {}
    w = World(case)
    try:
        expr = build(case["tree"], w)
    except Exception as ex:  # noqa
        out["in"] = None
        out["out"] = {"err": "constructor:" + classify(ex), "msg": str(ex)[:200]}
        return out
    try:
        out["in"] = ser_tree(expr)
    except ser.Unsupported as ex:
        out["in"] = None
        out["out"] = {"err": "unsupported-input", "msg": str(ex)[:200]}
        return out
    if w.M.is_analytical:
        try:
            out["mapexprs"] = [ser_scalar(a) for a in w.M.expressions]
        except ser.Unsupported as ex:
            out["mapexprs"] = None
            out["mapexprs_err"] = str(ex)[:200]
    try:
        if case.get("order", "LT") == "LT":
            le = LogicalExpr(expr, w.D)
            res = TerminalExpr(le, w.D.logical_domain)
        else:
            te = TerminalExpr(expr, w.D)
            # what LogicalExpr receives in this order (the model is applied to it; the oracle keeps the original)
            try:
                out["in0"] = out["in"]
                out["in"] = ser_tree(te)
            except ser.Unsupported as ex:
                out["in"] = None
                out["in_err"] = str(ex)[:200]
            res = LogicalExpr(te, w.D)
            res = TerminalExpr(res, w.D.logical_domain)
    except Exception as ex:  # noqa
        out["out"] = {"err": classify(ex), "msg": str(ex)[:200]}
        return out
    try:
        out["out"] = ser_out(res)
    except ser.Unsupported as ex:
        out["out"] = {"err": "unsupported-node", "msg": str(ex)[:200], "text": str(res)[:400]}
        return out
    except Exception as ex:  # noqa
        out["out"] = {"err": "serialise:" + type(ex).__name__, "msg": str(ex)[:200]}
        return out
    try:
        rng = random.Random(case.get("seed", 0))
        exp = Explicit(w, rng)
        ok, info = compare(exp, out["out"], expr)
        out["oracle"] = {"ok": ok, "info": info}
    except Exception as ex:  # noqa
        out["oracle"] = {"ok": None, "info": "oracle failed: %s %s" % (type(ex).__name__, str(ex)[:300])}
    return out


class CaseTimeout(BaseException):
    # BaseException: the broad `except Exception` handlers inside sympy / the oracle must not swallow it; the timer
    # repeats every few seconds in case a bare `except:` (sympde's cancel()) does
    pass


def _alarm(signum, frame):
    raise CaseTimeout()


def run_case_guarded(case, limit):
    import signal
    signal.signal(signal.SIGALRM, _alarm)
    signal.setitimer(signal.ITIMER_REAL, float(limit), 3.0)
    import time
    t0 = time.time()
    try:
        r = run_case(case)
        r["secs"] = round(time.time() - t0, 2)
        return r
    except CaseTimeout:
        return {"in": None, "out": {"err": "timeout", "msg": "case exceeded %ss" % limit}, "secs": round(time.time() - t0, 2)}
    finally:
        signal.setitimer(signal.ITIMER_REAL, 0)


def main():
    payload = json.load(open(sys.argv[1]))
    limit = payload.get("case_timeout", 120)
    res = []
    for case in payload["cases"]:
        try:
            res.append(run_case_guarded(case, limit))
        except CaseTimeout:
            res.append({"in": None, "out": {"err": "timeout", "msg": "late alarm"}})
        except Exception:  # noqa
            res.append({"crash": traceback.format_exc()[-1500:]})
    json.dump({"results": res}, open(sys.argv[2], "w"))


if __name__ == "__main__":
    main()
