"""Shared machinery of the /verif checks (see DESIGN.md section 3).

One `Run` object per invocation of ./check: it rebuilds the Coq development,
reads the proof obligations of Props/<id>.v, runs the implementation in a
subprocess against /repo's working tree, evaluates the model inside Coq,
reports violations / known findings and writes the evidence file.
"""
import fcntl
import hashlib
import json
import os
import random
import re
import shutil
import subprocess
import sys
import time
from pathlib import Path

VERIF = Path(__file__).resolve().parents[1]
REPO = Path(os.environ.get("VERIF_REPO", "/repo"))
COQ = VERIF / "coq"
PY = os.environ.get("VERIF_PY", "/venv/bin/python")
NPROC = int(os.environ.get("VERIF_JOBS", "16"))
QFLAGS = " ".join("-Q %s/%s V.%s" % (COQ, d, d) for d in ("Core", "Gen", "Model", "Proofs", "Props"))

# axioms declared by the standard library itself that a theorem may depend on
# (each one that actually occurs is copied into the evidence / trusted base)
STDLIB_AXIOMS = {
    "functional_extensionality_dep", "FunctionalExtensionality.functional_extensionality_dep",
    "classic", "Classical_Prop.classic", "proof_irrelevance", "ProofIrrelevance.proof_irrelevance",
    "JMeq_eq", "JMeq.JMeq_eq", "Eqdep.Eq_rect_eq.eq_rect_eq", "eq_rect_eq",
    "propositional_extensionality", "PropExtensionality.propositional_extensionality",
    "constructive_indefinite_description", "constructive_definite_description",
    "ClassicalDedekindReals.sig_forall_dec", "ClassicalDedekindReals.sig_not_dec",
    "sig_forall_dec", "sig_not_dec",
}

FORBIDDEN = re.compile(
    r"\b(Admitted|admit|Axiom|Axioms|Parameter|Parameters|Conjecture|Conjectures)\b"
    r"|Unset\s+Guard|bypass_check|type-in-type|impredicative-set|Admit\s+Obligations"
    r"|Unset\s+Positivity|Unset\s+Universe\s+Checking"
)


def sh(cmd, timeout=600, cwd=None, env=None, inp=None):
    """Run a command; returns (rc, stdout+stderr) with conda noise removed.
    The command runs in its own process group, which is killed as a whole on timeout
    (a timed-out `make` must not leave a coqc behind that keeps the build lock busy)."""
    import signal
    e = dict(os.environ)
    if env:
        e.update(env)
    p = subprocess.Popen(cmd, shell=isinstance(cmd, str), cwd=cwd, env=e,
                         stdin=subprocess.PIPE if inp is not None else None,
                         stdout=subprocess.PIPE, stderr=subprocess.STDOUT, text=True, start_new_session=True)
    try:
        out, _ = p.communicate(inp, timeout=timeout)
        rc = p.returncode
    except subprocess.TimeoutExpired:
        try:
            os.killpg(p.pid, signal.SIGKILL)
        except Exception:  # noqa
            pass
        try:
            out, _ = p.communicate(timeout=10)
        except Exception:  # noqa
            out = ""
        out = (out or "") + "\n<<timeout after %ss>>" % timeout
        rc = 124
    out = "\n".join(l for l in out.splitlines() if "WARNING conda" not in l)
    return rc, out


def strip_coq_comments(s):
    out, depth, i = [], 0, 0
    while i < len(s):
        if s.startswith("(*", i):
            depth += 1; i += 2
        elif s.startswith("*)", i) and depth:
            depth -= 1; i += 2
        else:
            if not depth:
                out.append(s[i])
            i += 1
    return "".join(out)


def coq_str(s):
    assert all(32 <= ord(c) < 127 for c in s), s
    return '"' + s.replace('"', '""') + '"'


def coq_list(items):
    return "[" + "; ".join(items) + "]"


def canon_hash(obj):
    return hashlib.sha1(json.dumps(obj, sort_keys=True).encode()).hexdigest()[:16]


class Run:
    def __init__(self, pid, tier, seed):
        self.pid, self.tier, self.seed = pid, tier, seed
        self.t0 = time.time()
        self.rng = random.Random(seed)
        self.work = VERIF / ".work" / ("%s-%d" % (pid, os.getpid()))
        if self.work.exists():
            shutil.rmtree(self.work)
        self.work.mkdir(parents=True)
        (VERIF / "evidence" / "replays").mkdir(parents=True, exist_ok=True)
        self.violations = []       # printed VIOLATION lines
        self.known_hits = []
        self.obligations = []      # [{"name","discharged","assumptions"}]
        self.build_log = ""
        self.proof_ok = False
        self.cov = {}
        self.notes = []
        self.known = [k for k in json.load(open(VERIF / "known_findings.json"))["findings"]
                      if k["property"] == pid]
        self.repo_state0 = self.repo_state()
        # arm coverage of the anchored functions of the implementation (tools/impl/_cover.py)
        self.armcov = {}
        self.cover_spec = None
        try:
            spec = json.load(open(VERIF / "tools" / "armcov_spec.json")).get(pid)
            if spec and os.environ.get("VERIF_ARMCOV", "1") != "0":
                self.cover_spec = self.work / "armcov_spec.json"
                self.cover_spec.write_text(json.dumps(spec))
        except Exception:  # noqa
            self.cover_spec = None

    @staticmethod
    def repo_state():
        """(HEAD, digest of the uncommitted diff) of the implementation under test"""
        rc1, head = sh("git -C %s rev-parse --short HEAD" % REPO, timeout=60)
        rc2, diff = sh("git -C %s diff HEAD -- sympde" % REPO, timeout=60)
        return {"repo": str(REPO), "head": head.strip() if rc1 == 0 else "?",
                "worktree_diff_sha1": hashlib.sha1(diff.encode()).hexdigest()[:12] if diff.strip() else "clean"}

    # ------------------------------------------------------------------ coq
    def write_coqproject(self):
        files = []
        for d in ("Core", "Gen", "Model", "Proofs", "Props"):
            files += sorted(str(p.relative_to(COQ)) for p in (COQ / d).glob("*.v"))
        # one -Q per project directory: `-Q . V` would also map scratch copies under coq/wip
        txt = "".join("-Q %s V.%s\n" % (d, d) for d in ("Core", "Gen", "Model", "Proofs", "Props")) \
            + "-arg -w -arg none\n" + "\n".join(files) + "\n"
        cp = COQ / "_CoqProject"
        if not cp.exists() or cp.read_text() != txt:
            cp.write_text(txt)
            return True
        return False

    def grep_gate(self):
        bad = []
        files = []
        for d in ("Core", "Gen", "Model", "Proofs", "Props"):     # exactly what _CoqProject lists
            files += sorted((COQ / d).glob("*.v"))
        for p in files:
            src = strip_coq_comments(p.read_text())
            for m in FORBIDDEN.finditer(src):
                bad.append("%s: %s" % (p.relative_to(COQ), m.group(0)))
            depth = 0
            for line in src.splitlines():
                if re.match(r"\s*(Section|Module)\s+\w+", line) and ":=" not in line:
                    depth += 1
                elif re.match(r"\s*End\s+\w+\s*\.", line):
                    depth = max(0, depth - 1)
                elif depth == 0 and re.match(r"\s*(Variable|Variables|Hypothesis|Hypotheses|Context)\b", line):
                    bad.append("%s: %s outside a section" % (p.relative_to(COQ), line.strip()))
        return bad

    def coq_build(self, targets, timeout=1800):
        """Full (.vo) build of the given targets under a lock.  Returns ok."""
        with open(VERIF / ".work" / "make.lock", "w") as lk:
            fcntl.flock(lk, fcntl.LOCK_EX)
            changed = self.write_coqproject()
            if changed or not (COQ / "Makefile").exists():
                rc, out = sh("coq_makefile -f _CoqProject -o Makefile", cwd=COQ, timeout=120)
                if rc:
                    self.build_log = out
                    return False
            rc, out = sh("make -j%d %s" % (NPROC, " ".join(targets)), cwd=COQ, timeout=timeout)
        self.build_log = out
        return rc == 0

    def coq_props(self, extra_targets=()):
        """Build Props/<id>.vo (with everything it depends on), then re-run coqc on
        Props/<id>.v to read Print Assumptions.  Fills self.obligations."""
        props = COQ / "Props" / ("%s.v" % self.pid)
        units = [self.pid]
        # further theorem files of the same property (Props/C02m.v next to Props/C02.v): same treatment
        units += sorted(q.stem for q in (COQ / "Props").glob("%s[a-z]*.v" % self.pid))
        if "dfield" in strip_coq_comments(props.read_text()) and (COQ / "Props" / "Domain.v").exists():
            # theorems quantified over the abstract differential field: the inhabitedness of that structure
            # (Props/Domain.v, instance in Core/DFieldInst.v) is an obligation of the same run
            units.append("Domain")
        gate = self.grep_gate()
        ok = self.coq_build(["Props/%s.vo" % u for u in units] + list(extra_targets))
        for u in units:
            src = strip_coq_comments((COQ / "Props" / ("%s.v" % u)).read_text())
            names = re.findall(r"^\s*(?:Theorem|Example)\s+(\w+)", src, re.M)
            printed = re.findall(r"Print Assumptions\s+(\w+)\s*\.", src)
            assum = {}
            uok = ok
            if ok:
                rc, out = sh("coqc %s -w none Props/%s.v" % (QFLAGS, u), cwd=COQ, timeout=900)
                uok = rc == 0
                blocks = re.split(r"(?m)^(?=Closed under the global context|Axioms:)", out)
                blocks = [b for b in blocks if b.startswith("Closed under") or b.startswith("Axioms:")]
                for n, b in zip(printed, blocks):
                    assum[n] = b.strip()
                if len(blocks) != len(printed):
                    uok = False
                    self.notes.append("%s: Print Assumptions blocks %d != expected %d" % (u, len(blocks), len(printed)))
                if not uok:
                    self.build_log += "\n" + out
                    ok = False
            for n in names:
                a = assum.get(n)
                disch = uok and not gate
                axioms = []
                if a and a.startswith("Axioms:"):
                    axioms = re.findall(r"^(\S+)\s*:", a[len("Axioms:"):], re.M)
                    if any(x not in STDLIB_AXIOMS for x in axioms):
                        disch = False
                if n in printed and a is None:
                    disch = False
                self.obligations.append({"name": n, "discharged": bool(disch),
                                         "assumptions": a if a is not None else "(not printed)",
                                         "axioms": axioms})
        self.gate = gate
        self.proof_ok = ok and not gate and all(o["discharged"] for o in self.obligations) \
            and len(self.obligations) > 0
        self.coqchk = None
        if self.proof_ok and self.tier == "thorough":
            # independent re-check of the compiled theorems and of everything they depend on
            rc, out = sh("coqchk -silent -o %s %s" % (QFLAGS, " ".join("V.Props.%s" % u for u in units)), cwd=COQ,
                         timeout=3600)
            m = re.search(r"\* Axioms:(.*?)\n\s*\n", out + "\n\n", re.S)
            axioms = (m.group(1).strip() if m else "?")
            self.coqchk = {"rc": rc, "axioms": axioms[:1500],
                           "type_in_type": "type-in-type: <none>" in out,
                           "summary": out[out.find("CONTEXT SUMMARY"):][:1200]}
            if rc != 0:
                self.proof_ok = False
                self.build_log += "\ncoqchk failed:\n" + out[-1500:]
        return self.proof_ok

    def failing_obligation(self):
        m = re.search(r'File "\./([^"]+)", line (\d+)', self.build_log)
        where = "%s:%s" % (m.group(1), m.group(2)) if m else "?"
        err = self.build_log.strip().splitlines()[-6:]
        lemma = None
        if m:
            try:
                lines = (COQ / m.group(1)).read_text().splitlines()[: int(m.group(2))]
                for l in reversed(lines):
                    mm = re.match(r"\s*(?:Lemma|Theorem|Corollary|Example|Definition|Fixpoint)\s+(\w+)", l)
                    if mm:
                        lemma = mm.group(1); break
            except Exception:
                pass
        return {"where": where, "lemma": lemma, "error_tail": err, "grep_gate": getattr(self, "gate", [])}

    def coq_eval(self, name, text, timeout=900):
        """Compile a generated case file in the work dir; returns (rc, stdout)."""
        f = self.work / ("%s.v" % name)
        f.write_text(text)
        return sh("coqc %s -w none %s" % (QFLAGS, f.name), cwd=self.work, timeout=timeout)

    def coq_eval_many(self, files, timeout=900, mem_kb=None):
        """files: {name: text}; compiled in parallel. Returns {name: (rc, out)}."""
        for n, t in files.items():
            (self.work / ("%s.v" % n)).write_text(t)
        procs = {}
        names = list(files)
        res = {}
        i = 0
        running = {}
        e = dict(os.environ)
        while i < len(names) or running:
            while i < len(names) and len(running) < NPROC:
                n = names[i]; i += 1
                running[n] = subprocess.Popen(
                    ("ulimit -v %d; " % mem_kb if mem_kb else "") +
                    "timeout %d coqc %s -w none %s.v" % (timeout, QFLAGS, n), shell=True, cwd=self.work,
                    stdout=subprocess.PIPE, stderr=subprocess.STDOUT, text=True, env=e)
            done = [n for n, p in running.items() if p.poll() is not None]
            for n in done:
                p = running.pop(n)
                out = p.stdout.read()
                out = "\n".join(l for l in out.splitlines() if "WARNING conda" not in l)
                res[n] = (p.returncode, out)
            if not done:
                time.sleep(0.05)
        return res

    def coq_eval_terms(self, header, terms, per=60, timeout=600, mem_kb=6000000, tag="t"):
        """Evaluate `Eval vm_compute in [t1; t2; ...]` robustly: chunks of `per` terms in parallel (memory-limited);
        a chunk that fails (time-out, out of memory, killed) is split in halves down to single terms.
        Returns a list with one parsed value (string) per term, or None where Coq could not decide."""
        res = [None] * len(terms)
        work = [list(range(k, min(k + per, len(terms)))) for k in range(0, len(terms), per)]
        rnd = 0
        while work:
            files = {}
            for j, idxs in enumerate(work):
                files["%s_%s_%d_%d" % (tag, self.pid, rnd, j)] = header + "Eval vm_compute in %s.\n" % coq_list([terms[i] for i in idxs])
            outs = self.coq_eval_many(files, timeout=timeout, mem_kb=mem_kb)
            nxt = []
            for j, idxs in enumerate(work):
                rc, out = outs["%s_%s_%d_%d" % (tag, self.pid, rnd, j)]
                vals = self.parse_list_output(out) if rc == 0 else None
                if vals is not None and len(vals) == len(idxs):
                    for i, v in zip(idxs, vals):
                        res[i] = v
                elif len(idxs) > 1:
                    h = len(idxs) // 2
                    nxt += [idxs[:h], idxs[h:]]
                else:
                    self.coq_undecided = getattr(self, "coq_undecided", 0) + 1
                    if "Error" in out and "Killed" not in out and "imeout" not in out and "Out of memory" not in out \
                            and "Stack overflow" not in out:
                        self.coq_errors = getattr(self, "coq_errors", []) + [out[-600:]]
            work = nxt
            rnd += 1
            timeout = max(120, timeout // 2)
        return res

    @staticmethod
    def parse_list_output(out):
        """Parse the `= [a; b; ...] : list T` block printed by Eval vm_compute."""
        m = re.search(r"=\s*\[(.*?)\]\s*:\s*list", out, re.S)
        if not m:
            return None
        body = m.group(1).strip()
        if not body:
            return []
        return [x.strip() for x in body.split(";")]

    # ----------------------------------------------------------------- impl
    def _runner_cmd(self, script, inp, outp):
        """command line of a runner; with arm coverage it goes through tools/impl/_cover.py (same behaviour)"""
        path = str(VERIF / "tools" / "impl" / ("%s.py" % script))
        if self.cover_spec is None:
            return [PY, path, str(inp), str(outp)], None
        cov = Path(str(outp) + ".cov")
        return [PY, str(VERIF / "tools" / "impl" / "_cover.py"), str(cov), path, str(inp), str(outp)], cov

    def _merge_cov(self, cov):
        if cov is None:
            return
        import glob
        for f in glob.glob(str(cov) + "*"):        # the runner's own file and those of its forked children
            try:
                d = json.loads(Path(f).read_text())
                Path(f).unlink()
            except Exception:  # noqa
                continue
            for rel, fns in d.items():
                for q, v in fns.items():
                    e = self.armcov.setdefault(rel, {}).setdefault(q, {"lines": set(), "hit": set()})
                    e["lines"] |= set(v["lines"])
                    e["hit"] |= set(v["hit"])

    def armcov_summary(self):
        """{"functions", "lines", "hit", "ratio", "per_function": {...}, "missed": [{"where","src"}]}"""
        if not self.armcov:
            return None
        per, missed, tl, th = {}, [], 0, 0
        for rel in sorted(self.armcov):
            try:
                src = (REPO / rel).read_text().splitlines()
            except Exception:  # noqa
                src = []
            for q in sorted(self.armcov[rel]):
                e = self.armcov[rel][q]
                lines, hit = e["lines"], e["hit"] & e["lines"]
                tl += len(lines); th += len(hit)
                per["%s::%s" % (rel, q)] = "%d/%d" % (len(hit), len(lines))
                if hit:        # a function never entered is listed once, not line by line
                    for ln in sorted(lines - hit):
                        missed.append({"where": "%s:%d (%s)" % (rel, ln, q),
                                       "src": src[ln - 1].strip()[:110] if 0 < ln <= len(src) else ""})
        never = sorted(k for k, v in per.items() if v.startswith("0/"))
        return {"functions": len(per), "functions_never_entered": never, "lines": tl, "hit": th,
                "ratio": round(th / tl, 3) if tl else None, "per_function": per,
                "missed_lines_of_entered_functions": missed[:400],
                "meaning": "source lines of the property's anchored functions executed by the runner processes of this "
                           "run (sys.monitoring); an arm that was not reached is not covered by the correspondence"}

    def impl(self, script, payload, timeout=1800, env=None, hashseed="0"):
        """Run tools/impl/<script> with the implementation from /repo's working tree."""
        e = {"PYTHONPATH": "%s:%s" % (REPO, VERIF / "tools" / "impl"), "PYTHONHASHSEED": str(hashseed),
             "SYMPDE_VERIF": "1", "PYTHONDONTWRITEBYTECODE": "1"}
        if env:
            e.update(env)
        inp = self.work / ("impl_in_%s_%d.json" % (script, random.getrandbits(32)))
        outp = Path(str(inp).replace("impl_in_", "impl_out_"))
        inp.write_text(json.dumps(payload))
        cmd, cov = self._runner_cmd(script, inp, outp)
        if cov is not None:
            e["VERIF_COVER_SPEC"] = str(self.cover_spec)
        rc, out = sh(cmd, timeout=timeout, env=e, cwd=str(self.work))
        self._merge_cov(cov)
        if rc != 0 or not outp.exists():
            return None, out
        return json.loads(outp.read_text()), out

    def impl_parallel(self, script, payloads, timeout=1800, env=None, hashseed="0"):
        """Run several batches concurrently. Returns list of (result, log)."""
        e = dict(os.environ)
        e.update({"PYTHONPATH": "%s:%s" % (REPO, VERIF / "tools" / "impl"), "PYTHONHASHSEED": str(hashseed),
                  "SYMPDE_VERIF": "1", "PYTHONDONTWRITEBYTECODE": "1"})
        if env:
            e.update(env)
        procs = []
        for k, payload in enumerate(payloads):
            inp = self.work / ("pimpl_in_%s_%d.json" % (script, k))
            outp = self.work / ("pimpl_out_%s_%d.json" % (script, k))
            if outp.exists():
                outp.unlink()
            inp.write_text(json.dumps(payload))
            cmd, cov = self._runner_cmd(script, inp, outp)
            if cov is not None:
                e["VERIF_COVER_SPEC"] = str(self.cover_spec)
            p = subprocess.Popen(["timeout", str(timeout)] + cmd, env=e, cwd=str(self.work),
                                 stdout=subprocess.PIPE, stderr=subprocess.STDOUT, text=True)
            procs.append((p, outp, cov))
        res = []
        for p, outp, cov in procs:
            out = p.communicate()[0]
            self._merge_cov(cov)
            if p.returncode != 0 or not outp.exists():
                res.append((None, out))
            else:
                res.append((json.loads(outp.read_text()), out))
        return res

    # ------------------------------------------------------------ reporting
    def match_known(self, sig):
        for k in self.known:
            if k.get("status") != "known":
                continue
            m = k.get("match", {})
            if m and all(sig.get(a) == b for a, b in m.items()):
                return k
        return None

    def report(self, sig, what, case, observed=None, required=None, python=None,
               theorem_or_case=None, found_input=True):
        """Report one failing input.  `sig` is matched against known_findings.json."""
        k = self.match_known(sig)
        if k is not None:
            if k["id"] not in [h["id"] for h in self.known_hits]:
                self.known_hits.append(k)
                print("KNOWN-FINDING: property=%s %s" % (self.pid, k["what"]))
            return False
        replay = {"property": self.pid, "tier": self.tier, "seed": self.seed, "signature": sig,
                  "what": what, "case": case, "observed": observed, "required": required,
                  "theorem_or_case": theorem_or_case, "python": python,
                  "failing_input_found": bool(found_input)}
        h = canon_hash([sig, case])
        path = VERIF / "evidence" / "replays" / ("%s_%s.json" % (self.pid, h))
        path.write_text(json.dumps(replay, indent=1, sort_keys=True))
        line = "VIOLATION property=%s replay=%s" % (self.pid, path)
        if not found_input:
            line += " no-failing-input-found"
        if len(self.violations) < 20:
            print(line)
        self.violations.append({"line": line, "what": what})
        sys.stdout.flush()
        return True

    def finish(self, coverage, assumptions, level="proof"):
        cov = dict(coverage)
        nob = len(self.obligations)
        cov.setdefault("obligations", nob)
        cov.setdefault("discharged", sum(1 for o in self.obligations if o["discharged"]))
        cov.setdefault("checker_cmd", "cd /verif/coq && make Props/%s.vo && coqc -Q . V Props/%s.v "
                                      "(full .vo build, Coq 8.16.1 kernel; Print Assumptions under each theorem)"
                       % (self.pid, self.pid))
        axioms = sorted({a for o in self.obligations for a in o["axioms"]})
        tb = cov.setdefault("trusted_base", [])
        tb += ["Coq 8.16.1 kernel + vm_compute (no native_compute)",
               "axioms reported by Print Assumptions: %s" % (", ".join(axioms) if axioms else "none (all theorems closed under the global context)")]
        cov["obligation_list"] = [{"name": o["name"], "discharged": o["discharged"],
                                   "assumptions": o["assumptions"][:400]} for o in self.obligations]
        cov["known_findings_hit"] = [k["id"] for k in self.known_hits]
        if getattr(self, "coqchk", None):
            cov["coqchk"] = self.coqchk
            tb.append("coqchk -o (independent checker) axioms: %s" % self.coqchk["axioms"])
        ac = self.armcov_summary()
        if ac is not None:
            cov["implementation_arm_coverage"] = ac
        end_state = self.repo_state()
        cov["implementation_under_test"] = self.repo_state0
        if end_state != self.repo_state0:
            self.notes.append("the implementation's working tree changed while this check was running: %s -> %s"
                              % (self.repo_state0, end_state))
        if self.notes:
            cov["notes"] = self.notes
        ev = {"property_id": self.pid, "tier": self.tier, "seed": self.seed, "level": level,
              "coverage": cov, "assumptions": assumptions,
              "wall_s": round(time.time() - self.t0, 2), "violations": len(self.violations)}
        (VERIF / "evidence" / ("%s.json" % self.pid)).write_text(json.dumps(ev, indent=1, sort_keys=True))
        shutil.rmtree(self.work, ignore_errors=True)
        if self.violations:
            print("%s: %d violation(s)" % (self.pid, len(self.violations)))
            return 1
        print("%s: ok  (%d/%d obligations discharged, %s evaluations, %.0fs%s)" % (
            self.pid, cov["discharged"], cov["obligations"], cov.get("evaluations", 0), time.time() - self.t0,
            "; anchored code lines reached %d/%d" % (ac["hit"], ac["lines"]) if ac else ""))
        return 0
