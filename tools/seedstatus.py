#!/usr/bin/env python3
"""tools/seedstatus.py : for every archived seeded change record in meta.json the newest /repo commit its patch.diff
still applies to (`applies_to_repo_commit`, `applies_to_repo_head`).  Repairs of genuine defects move the code under some
of the archived patches; such a change stays in the archive as a record of what was tried against which tree."""
import glob, json, os, subprocess
VERIF = os.path.dirname(os.path.dirname(os.path.abspath(__file__)))
wt = "/tmp/seedstatus-wt"
sh = lambda c: subprocess.run(c, shell=True, capture_output=True, text=True)
sh("git -C /repo worktree remove --force %s" % wt)
sh("git -C /repo worktree add -f --detach %s HEAD" % wt)
commits = sh("git -C /repo log --format=%h").stdout.split()
try:
    for d in sorted(glob.glob(os.path.join(VERIF, "seeded", "*"))):
        mp = os.path.join(d, "meta.json")
        if not os.path.exists(mp):
            continue
        m = json.load(open(mp))
        found = None
        for c in commits:
            sh("git -C %s checkout -q --detach %s" % (wt, c))
            if sh("git -C %s apply --check %s/patch.diff" % (wt, d)).returncode == 0:
                found = c
                break
        m["applies_to_repo_commit"] = found
        m["applies_to_repo_head"] = (found == commits[0])
        json.dump(m, open(mp, "w"), indent=1)
        if found != commits[0]:
            print(os.path.basename(d), "applies up to", found)
finally:
    sh("git -C /repo worktree remove --force %s" % wt)
