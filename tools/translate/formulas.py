"""T-formulas / T-dispatch: extract the literal component tables of the dimension-specific operator
classes that TerminalExpr dispatches to, and write them to coq/Gen/Formulas.v.

For every name  [Logical]{Grad,Curl,Rot,Div,Laplace,Hessian,Bracket}_{1,2,3}d  and
{Dot,Cross,Inner,Outer,Convect}_{1,2,3}d  that is *defined in the namespace of sympde.expr.evaluation*
(that is what `eval('{0}_{1}d'.format(op, dim))` in TerminalExpr.eval resolves):

 (a) an `ast` pass over the class' `eval` in the module that defines it checks the control-flow
     skeleton: only the recognised guards (type / shape tests on the arguments), the recognised loops
     and calls.  Anything else -> the table is replaced by the marker `GenBad "<reason>"`, which makes
     the dependent lemma of Proofs/LowerP.v fail (fail closed, never guessed).
 (b) the real `eval` is EXECUTED (subprocess, /venv/bin/python, PYTHONPATH=<repo>) on generic atom
     arguments of every argument kind
         s  a scalar field u (v)                     k  (1-D only) a bare derivative atom  d(u)
         c  the column of a vector field's components (what TerminalExpr makes of a VectorFunction)
         t  the same components as a sympy Tuple     m  a generic d x d matrix of scalar fields A_ij (B_ij)
     and the returned expression is serialised with ser.ser_any (fail closed).  A straight-line,
     argument-parametric function IS its value on the generic argument, so this is an exact
     extraction that does not depend on how the formula is spelled.

Also extracted: the members of `_diff_ops` / `_generic_ops` and the three format strings of the
name-based dispatch in TerminalExpr.eval.

The translator itself runs under the system python3 (no sympde).  Output is written only when the
content changed.
"""
import ast
import json
import os
import re
import subprocess
import sys

HERE = os.path.dirname(os.path.abspath(__file__))
sys.path.insert(0, os.path.dirname(HERE))
import vlib  # noqa: E402
from translate import write_if_changed  # noqa: E402

OUT = str(vlib.COQ / "Gen" / "Formulas.v")

DIFF = ["Grad", "Curl", "Rot", "Div", "Laplace", "Hessian", "Bracket"]
GENERIC = ["Dot", "Cross", "Inner", "Outer", "Convect"]
BINARY = {"Bracket", "Dot", "Cross", "Inner", "Outer", "Convect"}

# ------------------------------------------------------------------------------------------------
# (b) executed inside the implementation's interpreter
EXEC = r'''
import json, sys, re
sys.path.insert(0, sys.argv[1])
import ser
from sympy import Tuple, ImmutableDenseMatrix, Matrix
from sympy.core.cache import clear_cache
import sympde.expr.evaluation as EV
from sympde.calculus.core import _diff_ops, _generic_ops
from sympde.topology import Domain, ScalarFunctionSpace, VectorFunctionSpace, element_of
from sympde.topology.derivatives import dx, dx1

DIFF = %(DIFF)r; GENERIC = %(GENERIC)r; BINARY = %(BINARY)r

def ser_val(r):
    if isinstance(r, (Matrix, ImmutableDenseMatrix)):
        return {"k": "mat", "rows": ser.ser_any(r)["rows"]}
    if isinstance(r, (Tuple, tuple, list)):
        return {"k": "tup", "items": ser.ser_any(r)["rows"][0]}
    j = ser.ser_any(r)
    if j.get("k") == "mat":
        raise ser.Unsupported("matrix-like result of type %%s" %% type(r).__name__)
    return {"k": "sc", "v": j}

def args_for(d, which, logical):
    """generic arguments of every kind; `which` = 0 (first) / 1 (second argument)"""
    dom = Domain("Gd", dim=d)
    V = ScalarFunctionSpace("GV", dom); W = VectorFunctionSpace("GW", dom)
    sn, vn, mn = [("u", "F", "A"), ("v", "G", "B")][which]
    u = element_of(V, name=sn); F = element_of(W, name=vn)
    A = [[element_of(V, name="%%s%%d%%d" %% (mn, i, j)) for j in range(d)] for i in range(d)]
    out = {"s": u,
           "c": ImmutableDenseMatrix([[F[i]] for i in range(d)]),
           "t": Tuple(*[F[i] for i in range(d)]),
           "m": ImmutableDenseMatrix(A)}
    if d == 1:
        ud = element_of(V, name=sn + "_d")
        out["k"] = (dx1 if logical else dx)(ud)
    return out

def undo_k(j, names):
    """kind k: the generic argument was d(u_d); rewrite every atom  d^al(u_d)  (al[0] >= 1) into
    d^(al - e0)(u): the table in terms of the argument itself.  Fail closed otherwise."""
    if isinstance(j, list):
        return [undo_k(x, names) for x in j]
    if not isinstance(j, dict):
        return j
    if j.get("k") == "at" and j.get("t") == "fld" and j["f"] in names:
        al = list(j["al"])
        if not al or al[0] < 1:
            raise ser.Unsupported("kind k: underived generic atom")
        al[0] -= 1
        while al and al[-1] == 0:
            al.pop()
        return dict(j, f=j["f"][:-2], al=al)
    return {a: undo_k(b, names) for a, b in j.items()}

res = {"tables": {}, "diff_ops": [c.__name__ for c in _diff_ops], "generic_ops": [c.__name__ for c in _generic_ops],
       "defined_in": {}}
for op in DIFF + GENERIC:
    for d in (1, 2, 3):
        for pre in (("", "Logical") if op in DIFF else ("",)):
            name = "%%s%%s_%%dd" %% (pre, op, d)
            cls = getattr(EV, name, None)
            if cls is None:
                continue
            res["defined_in"][name] = [cls.__module__, cls.__name__]
            logical = pre == "Logical"
            tab = {}
            kinds = ["s", "c", "t", "m"] + (["k"] if d == 1 else [])
            if op in BINARY:
                pairs = [(a, b) for a in kinds for b in kinds]
            else:
                pairs = [(a, None) for a in kinds]
            for ka, kb in pairs:
                clear_cache()
                a0 = args_for(d, 0, logical)[ka]
                args = [a0] if kb is None else [a0, args_for(d, 1, logical)[kb]]
                key = ka if kb is None else ka + kb
                try:
                    r = cls.eval(*args)
                    v = ser_val(r)
                    if "k" in key:
                        v = undo_k(v, ["u_d", "v_d"])
                    tab[key] = {"ok": v}
                except NotImplementedError:
                    tab[key] = {"err": "not-implemented"}
                except ser.Unsupported as e:
                    tab[key] = {"err": "unsupported-node"}
                except (TypeError, IndexError, ValueError, AttributeError) as e:
                    tab[key] = {"err": "type"}
                except Exception as e:
                    tab[key] = {"err": "other:" + type(e).__name__}
            res["tables"][name] = tab
json.dump(res, sys.stdout)
'''

# ------------------------------------------------------------------------------------------------
# (a) control-flow skeleton
ALLOWED_CALLS = {"dx", "dy", "dz", "dx1", "dx2", "dx3", "Tuple", "Matrix", "ImmutableDenseMatrix", "list", "range",
                 "len", "isinstance", "simplify", "ValueError", "NotImplementedError",
                 # module-level selector that looks only at the TYPE of its argument (u[0] for a container, u itself
                 # for a scalar expression): constant behaviour within one argument kind, like the type guards
                 "_first_component"}
ALLOWED_METHODS = {"append", "atoms", "subs", "transpose", "trace"}
TYPE_NAMES = {"Matrix", "ImmutableDenseMatrix", "Tuple", "VectorFunction", "Add", "Mul"}


def _is_isinstance(n):
    """isinstance(<name or name[0]>, T | (T, ...)) with T among the recognised type names"""
    if not (isinstance(n, ast.Call) and isinstance(n.func, ast.Name) and n.func.id == "isinstance" and len(n.args) == 2):
        return False
    a, t = n.args
    if isinstance(a, ast.Subscript):
        a = a.value
    if not isinstance(a, ast.Name):
        return False
    ts = t.elts if isinstance(t, ast.Tuple) else [t]
    return all(isinstance(x, ast.Name) and x.id in TYPE_NAMES for x in ts)


def _is_shape_test(n):
    """<name>.shape[1] > 1"""
    return (isinstance(n, ast.Compare) and len(n.ops) == 1 and isinstance(n.ops[0], ast.Gt)
            and isinstance(n.left, ast.Subscript) and isinstance(n.left.value, ast.Attribute)
            and n.left.value.attr == "shape" and isinstance(n.left.value.value, ast.Name)
            and isinstance(n.comparators[0], ast.Constant) and n.comparators[0].value == 1)


def _is_type_helper(n):
    """_is_matrix(<name>): a module-level helper that only tests the type / shape of its argument"""
    return (isinstance(n, ast.Call) and isinstance(n.func, ast.Name) and n.func.id in ("_is_matrix",) and len(n.args) == 1
            and isinstance(n.args[0], ast.Name) and not n.keywords)


def _guard_ok(t):
    """Recognised guards: tests of the TYPE or SHAPE of an argument only (never of its entries), combined
    with not / and / or; plus the two arity tests on _args.  Within one argument kind such a guard is
    constant, so the function is parametric in the entries of its arguments."""
    if isinstance(t, ast.UnaryOp) and isinstance(t.op, ast.Not):
        o = t.operand
        if isinstance(o, ast.Name) and o.id == "_args":
            return True
        # not (len(_args) == 2)
        if (isinstance(o, ast.Compare) and isinstance(o.left, ast.Call) and isinstance(o.left.func, ast.Name)
                and o.left.func.id == "len" and len(o.ops) == 1 and isinstance(o.ops[0], ast.Eq)
                and isinstance(o.comparators[0], ast.Constant)):
            return True
        return _guard_ok(o)
    if _is_isinstance(t) or _is_shape_test(t) or _is_type_helper(t):
        return True
    if isinstance(t, ast.BoolOp) and isinstance(t.op, (ast.And, ast.Or)):
        return all(_guard_ok(v) for v in t.values)
    return False


class Skeleton(ast.NodeVisitor):
    """Collects reasons why a function body is outside the recognised straight-line-with-type-guards shape."""

    def __init__(self):
        self.bad = []
        self.guard_nodes = set()

    def flag(self, node, why):
        self.bad.append("%s (line %d)" % (why, getattr(node, "lineno", 0)))

    def visit_If(self, node):
        if not _guard_ok(node.test):
            self.flag(node, "unrecognised guard")
        for sub in ast.walk(node.test):
            self.guard_nodes.add(id(sub))
        for s in node.body + node.orelse:
            self.visit(s)
        # calls inside the guard are checked by _guard_ok only

    def visit_For(self, node):
        it = node.iter
        ok = (isinstance(it, ast.Call) and isinstance(it.func, ast.Name) and it.func.id == "range") or isinstance(it, ast.Name)
        if not ok or node.orelse:
            self.flag(node, "unrecognised loop")
        self.generic_visit(node)

    def visit_Call(self, node):
        if id(node) in self.guard_nodes:
            return
        f = node.func
        if isinstance(f, ast.Name):
            if f.id not in ALLOWED_CALLS:
                self.flag(node, "call of %s" % f.id)
        elif isinstance(f, ast.Attribute):
            if f.attr not in ALLOWED_METHODS:
                self.flag(node, "method %s" % f.attr)
        else:
            self.flag(node, "computed call")
        self.generic_visit(node)

    def _no(self, node):
        self.flag(node, type(node).__name__)

    visit_While = visit_Try = visit_With = visit_Lambda = visit_IfExp = visit_Global = visit_Nonlocal = _no
    visit_Yield = visit_YieldFrom = visit_Await = visit_FunctionDef = visit_ClassDef = visit_Import = _no
    visit_ImportFrom = visit_Delete = visit_Assert = visit_NamedExpr = visit_Starred = _no

    def visit_Compare(self, node):
        if id(node) not in self.guard_nodes:
            self.flag(node, "comparison outside a guard")
        self.generic_visit(node)

    def visit_BoolOp(self, node):
        if id(node) not in self.guard_nodes:
            self.flag(node, "boolean operator outside a guard")
        self.generic_visit(node)

    def visit_comprehension(self, node):
        if node.ifs:
            self.flag(node.iter, "filtered comprehension")
        self.generic_visit(node)


def skeleton_of(path, clsname):
    """None when the eval of class `clsname` in file `path` has the recognised shape, else a reason."""
    try:
        tree = ast.parse(open(path).read())
    except Exception as e:  # noqa
        return "cannot parse %s: %s" % (os.path.basename(path), e)
    for node in tree.body:
        if isinstance(node, ast.ClassDef) and node.name == clsname:
            for item in node.body:
                if isinstance(item, ast.FunctionDef) and item.name == "eval":
                    decos = [d.id if isinstance(d, ast.Name) else getattr(d, "attr", "?") for d in item.decorator_list]
                    if any(d not in ("classmethod", "cacheit") for d in decos):
                        return "unrecognised decorator %s" % decos
                    if not (item.args.vararg and item.args.vararg.arg == "_args" and len(item.args.args) == 1
                            and not item.args.kwonlyargs and not item.args.kwarg):
                        return "unrecognised signature"
                    sk = Skeleton()
                    for s in item.body:
                        sk.visit(s)
                    return "; ".join(sk.bad) if sk.bad else None
            return "class %s has no eval" % clsname
    return "class %s not found in %s" % (clsname, os.path.basename(path))


def dispatch_formats(path):
    """The format strings of the name-based dispatch in TerminalExpr.eval:
    (logical diff-op, physical diff-op, generic-op), or a reason (str)."""
    try:
        tree = ast.parse(open(path).read())
    except Exception as e:  # noqa
        return "cannot parse evaluation.py: %s" % e
    fn = None
    for node in tree.body:
        if isinstance(node, ast.ClassDef) and node.name == "TerminalExpr":
            for item in node.body:
                if isinstance(item, ast.FunctionDef) and item.name == "eval":
                    fn = item
    if fn is None:
        return "TerminalExpr.eval not found"
    found = {}

    def fmt_of(call):
        # eval('<fmt>'.format(op, dim))
        if (isinstance(call, ast.Call) and isinstance(call.func, ast.Name) and call.func.id == "eval" and len(call.args) == 1):
            a = call.args[0]
            if (isinstance(a, ast.Call) and isinstance(a.func, ast.Attribute) and a.func.attr == "format"
                    and isinstance(a.func.value, ast.Constant) and isinstance(a.func.value.value, str)
                    and [getattr(x, "id", None) for x in a.args] == ["op", "dim"]):
                return a.func.value.value
        return None

    def arm_of(test):
        if (isinstance(test, ast.Call) and isinstance(test.func, ast.Name) and test.func.id == "isinstance"
                and isinstance(test.args[1], ast.Name) and test.args[1].id in ("_diff_ops", "_generic_ops")):
            return test.args[1].id
        return None

    for node in ast.walk(fn):
        if isinstance(node, ast.If):
            arm = arm_of(node.test)
            if arm is None:
                continue
            fmts = []
            for s in node.body:
                for sub in ast.walk(s):
                    f = fmt_of(sub)
                    if f is not None:
                        fmts.append((sub.lineno, f))
            # the diff arm: `if domain.mapping is None: Logical... else: ...`
            if arm == "_diff_ops":
                inner = [s for s in node.body if isinstance(s, ast.If)]
                if len(inner) != 1:
                    return "diff-op arm: unrecognised shape"
                t = inner[0].test
                is_none = (isinstance(t, ast.Compare) and isinstance(t.ops[0], ast.Is) and isinstance(t.left, ast.Attribute)
                           and t.left.attr == "mapping" and isinstance(t.comparators[0], ast.Constant)
                           and t.comparators[0].value is None)
                if not is_none:
                    return "diff-op arm: unrecognised mapping test"
                fl = [fmt_of(x) for s in inner[0].body for x in ast.walk(s) if fmt_of(x)]
                fp = [fmt_of(x) for s in inner[0].orelse for x in ast.walk(s) if fmt_of(x)]
                if len(fl) != 1 or len(fp) != 1:
                    return "diff-op arm: format strings not found"
                found["logical"], found["physical"] = fl[0], fp[0]
            else:
                if len(fmts) != 1:
                    return "generic-op arm: format string not found"
                found["generic"] = fmts[0][1]
    if set(found) != {"logical", "physical", "generic"}:
        return "dispatch arms not found (%s)" % sorted(found)
    return found


# ------------------------------------------------------------------------------------------------
# JSON sx -> texpr text
SIDE = {"0": "SNone", "-": "SMinus", "+": "SPlus"}


def coq_str(s):
    assert all(32 <= ord(c) < 127 for c in s), s
    return '"' + s.replace('"', '""') + '"'


def texpr(j):
    k = j["k"]
    if k == "num":
        if j["q"] == 1:
            return "(TZ (%d))" % j["p"]
        return "(TQ (%d) %d)" % (j["p"], j["q"])
    if k == "at":
        if j["t"] != "fld":
            raise ValueError("non-field atom in a table")
        return "(TAt (AFld %s %s %d %s [%s]))" % ("true" if j["lg"] else "false", coq_str(j["f"]), j["c"], SIDE[j["s"]],
                                                 "; ".join(str(x) for x in j["al"]))
    if k in ("add", "mul"):
        c = "TAdd" if k == "add" else "TMul"
        xs = [texpr(a) for a in j["a"]]
        if not xs:
            return "(TZ 0)" if k == "add" else "(TZ 1)"
        out = xs[-1]
        for x in reversed(xs[:-1]):
            out = "(%s %s %s)" % (c, x, out)
        return out
    if k == "pow":
        e = j["e"]
        if e["k"] == "num" and e["q"] == 1 and e["p"] >= 0:
            return "(TPowN %s %d)" % (texpr(j["b"]), e["p"])
        raise ValueError("non-polynomial power in a table")
    raise ValueError("node %s in a table" % k)


def tensor(v):
    if v["k"] == "sc":
        return "Sc %s" % texpr(v["v"])
    if v["k"] == "tup":
        return "Vec [%s]" % "; ".join(texpr(x) for x in v["items"])
    return "Mat [%s]" % "; ".join("[" + "; ".join(texpr(x) for x in r) + "]" for r in v["rows"])


HEADER = """(* GENERATED by tools/translate/formulas.py from the working tree of the implementation -- do not edit.
   Component tables of the dimension-specific operator classes TerminalExpr dispatches to
   (sympde/topology/derivatives.py, sympde/core/algebra.py), obtained by executing the real `eval`
   on generic atom arguments (kinds: s scalar field u|v, c column of F|G, t tuple of F|G, m matrix A|B,
   k (1-D) bare derivative atom); GenErr = the real eval raised; GenBad = the source is outside the
   recognised shape (fail closed: the dependent lemma of Proofs/LowerP.v does not build). *)
From Coq Require Import String ZArith List.
From V Require Import Core.Terminal Core.Classical.
Import ListNotations. Open Scope string_scope.

Inductive gres := GenOk (t : tensor) | GenErr (kind : string) | GenBad (why : string).
"""


def render(data, skel, fmts):
    out = [HEADER]
    names = sorted(data["tables"])
    for name in names:
        tab = data["tables"][name]
        bad = skel.get(name)
        for key in sorted(tab):
            ent = tab[key]
            ident = "T_%s_%s" % (name, key)
            if bad:
                body = "GenBad %s" % coq_str(bad[:200])
            elif "ok" in ent:
                try:
                    body = "GenOk (%s)" % tensor(ent["ok"])
                except ValueError as e:
                    body = "GenBad %s" % coq_str(str(e))
            else:
                body = "GenErr %s" % coq_str(ent["err"])
            out.append("Definition %s : gres := %s." % (ident, body))
        out.append("")
    out.append("(* name (as resolved in the namespace of sympde.expr.evaluation) -> argument kinds -> table *)")
    out.append("Definition tables : list (string * list (string * gres)) := [")
    rows = []
    for name in names:
        ents = "; ".join("(%s, T_%s_%s)" % (coq_str(k), name, k) for k in sorted(data["tables"][name]))
        rows.append("  (%s, [%s])" % (coq_str(name), ents))
    out.append(";\n".join(rows))
    out.append("].")
    out.append("")
    out.append("(* where each dispatched name is defined: module, class *)")
    out.append("Definition defined_in : list (string * (string * string)) := [")
    out.append(";\n".join("  (%s, (%s, %s))" % (coq_str(n), coq_str(m), coq_str(c))
                          for n, (m, c) in sorted(data["defined_in"].items())))
    out.append("].")
    out.append("")
    out.append("Definition diff_ops : list string := [%s]." % "; ".join(coq_str(x) for x in data["diff_ops"]))
    out.append("Definition generic_ops : list string := [%s]." % "; ".join(coq_str(x) for x in data["generic_ops"]))
    if isinstance(fmts, dict):
        out.append("Definition fmt_logical : string := %s." % coq_str(fmts["logical"]))
        out.append("Definition fmt_physical : string := %s." % coq_str(fmts["physical"]))
        out.append("Definition fmt_generic : string := %s." % coq_str(fmts["generic"]))
    else:
        w = coq_str("UNRECOGNISED: " + str(fmts)[:200])
        out.append("Definition fmt_logical : string := %s." % w)
        out.append("Definition fmt_physical : string := %s." % w)
        out.append("Definition fmt_generic : string := %s." % w)
    return "\n".join(out) + "\n"


def extract(repo=None):
    repo = str(repo or vlib.REPO)
    script = EXEC % {"DIFF": DIFF, "GENERIC": GENERIC, "BINARY": sorted(BINARY)}
    env = dict(os.environ)
    env.update({"PYTHONPATH": repo, "PYTHONHASHSEED": "0", "PYTHONDONTWRITEBYTECODE": "1"})
    p = subprocess.run([vlib.PY, "-", str(vlib.VERIF / "tools" / "impl")], input=script, env=env, text=True,
                       stdout=subprocess.PIPE, stderr=subprocess.PIPE, timeout=900)
    if p.returncode != 0:
        raise RuntimeError("formula extraction failed:\n" + p.stderr[-3000:])
    data = json.loads(p.stdout[p.stdout.index("{"):])
    skel = {}
    for name, (mod, cls) in data["defined_in"].items():
        path = os.path.join(repo, *mod.split(".")) + ".py"
        why = skeleton_of(path, cls)
        if why:
            skel[name] = why
    fmts = dispatch_formats(os.path.join(repo, "sympde", "expr", "evaluation.py"))
    return data, skel, fmts


def generate(verbose=False):
    """(Re)write coq/Gen/Formulas.v.  On a failure of the extraction itself a file consisting of markers
    is written, so that dependent lemmas fail instead of silently using a stale table."""
    try:
        data, skel, fmts = extract()
        text = render(data, skel, fmts)
    except Exception as e:  # noqa
        msg = coq_str(("extraction failed: %s" % e)[:300].replace("\n", " "))
        text = HEADER + "\nDefinition tables : list (string * list (string * gres)) := [(\"EXTRACTION-FAILED\", [(%s, GenBad %s)])].\n" % (msg, msg) + \
            "Definition defined_in : list (string * (string * string)) := [].\n" \
            "Definition diff_ops : list string := [].\nDefinition generic_ops : list string := [].\n" \
            "Definition fmt_logical : string := \"\".\nDefinition fmt_physical : string := \"\".\nDefinition fmt_generic : string := \"\".\n"
        skel = {"*": str(e)}
    changed = write_if_changed(OUT, text)
    if verbose:
        print("translate.formulas: %s (%s)%s" % (OUT, "rewritten" if changed else "unchanged",
                                                 "" if not skel else "  MARKERS: %s" % skel))
    return {"changed": changed, "markers": skel}


def translate(run=None):
    """entry point used by tools/props/C01.py before run.coq_props()"""
    return generate(verbose=False)


if __name__ == "__main__":
    generate(verbose=True)
