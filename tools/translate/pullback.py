"""T-pullback: sympde/topology/mapping.py `PullBack.__new__` (space kind -> formula) and the literal tables
`LogicalGrad_kd`, `LogicalCurl_kd`, `LogicalDiv_kd` of sympde/topology/derivatives.py  ->  coq/Gen/PullBack.v.

Fail-closed, in two steps (DESIGN 3.2):
 1. an `ast` pass checks the control-flow skeleton of the functions: `PullBack.__new__` may only contain the
    recognised guards (type of u, mapped domain, broken space) and ONE if/elif chain whose tests are
    `isinstance(kind, <SpaceType names>)` with bodies `expr = <formula>` and a raising `else`; the `Logical*_kd.eval`
    functions may only contain the `if not _args: return` guard, the recognised matrix guard and straight-line code;
 2. the real code is EXECUTED (subprocess, /venv/bin/python, PYTHONPATH = the repository under test) on generic
    arguments (a scalar / vector function of each kind on a symbolic mapping; a generic column of atoms) and the value
    returned is serialised: for a straight-line, argument-parametric function the value on the generic argument is the
    function, however the formula is spelled.
On any unrecognised shape the table is replaced by a marker (`pullback_ok := false`, tables `None`) so that the
dependent lemmas of Proofs/LogicalP.v do not build.
"""
import ast
import json
import os
import subprocess
import sys

HERE = os.path.dirname(os.path.abspath(__file__))
sys.path.insert(0, os.path.dirname(HERE))
import vlib  # noqa: E402
from translate import write_if_changed  # noqa: E402

OUT = str(vlib.COQ / "Gen" / "PullBack.v")

KINDS = ["h1", "hcurl", "hdiv", "l2", "undef"]
COQKIND = {"h1": "KH1", "hcurl": "KHcurl", "hdiv": "KHdiv", "l2": "KL2", "undef": "KUndef"}

TYPES = """Inductive kind := KH1 | KHcurl | KHdiv | KL2 | KUndef.

(* symbolic matrix expressions as LogicalExpr builds them (sympde/calculus/matrices.py) *)
Inductive mexpr :=
| MEl                         (* the logical unknown (scalar, or the column of its components) *)
| MJ                          (* JacobianSymbol(mapping) *)
| MJinv                       (* JacobianInverseSymbol(mapping) *)
| MT (a : mexpr)              (* Transpose *)
| MInv (a : mexpr)            (* Inverse *)
| MDet (a : mexpr)            (* SymbolicDeterminant *)
| MPowZ (a : mexpr) (z : Z)   (* power with an integer literal exponent *)
| MMul (l : list mexpr)       (* product, stored argument order *)
| MNum (z : Z).
"""


class Closed(Exception):
    pass


# ------------------------------------------------------------------------------------------ step 1: skeletons
def _find_class(tree, name):
    for n in tree.body:
        if isinstance(n, ast.ClassDef) and n.name == name:
            return n
    raise Closed("class %s not found" % name)


def _find_func(cls, name):
    for n in cls.body:
        if isinstance(n, ast.FunctionDef) and n.name == name:
            return n
    raise Closed("%s.%s not found" % (cls.name, name))


def _is_isinstance_of(test, var):
    return (isinstance(test, ast.Call) and isinstance(test.func, ast.Name) and test.func.id == "isinstance"
            and len(test.args) == 2 and isinstance(test.args[0], ast.Name) and test.args[0].id == var)


def _raises(body):
    return len(body) >= 1 and isinstance(body[-1], ast.Raise)


def check_pullback_skeleton(src):
    tree = ast.parse(src)
    fn = _find_func(_find_class(tree, "PullBack"), "__new__")
    chains = 0
    for st in fn.body:
        if isinstance(st, (ast.Assign, ast.Return, ast.Expr)):
            continue
        if isinstance(st, ast.If):
            t = st.test
            # guard: if not isinstance(u, (...)): raise
            if isinstance(t, ast.UnaryOp) and isinstance(t.op, ast.Not) and _is_isinstance_of(t.operand, "u") and _raises(st.body) \
                    and not st.orelse:
                continue
            # guard: if u.space.domain.mapping is None: raise
            if isinstance(t, ast.Compare) and len(t.ops) == 1 and isinstance(t.ops[0], ast.Is) and _raises(st.body) \
                    and not st.orelse:
                continue
            # guard: if space.is_broken: assert ... else: mapping = ...
            if isinstance(t, ast.Attribute) and t.attr == "is_broken":
                ok = all(isinstance(s, (ast.Assert, ast.Assign)) for s in st.body + st.orelse)
                if ok:
                    continue
                raise Closed("PullBack.__new__: unexpected statements in the is_broken guard")
            # the kind chain
            if _is_isinstance_of(t, "kind"):
                chains += 1
                node = st
                while True:
                    if not _is_isinstance_of(node.test, "kind"):
                        raise Closed("PullBack.__new__: a test of the kind chain is not isinstance(kind, ...)")
                    if not (len(node.body) == 1 and isinstance(node.body[0], ast.Assign)
                            and len(node.body[0].targets) == 1 and isinstance(node.body[0].targets[0], ast.Name)
                            and node.body[0].targets[0].id == "expr"):
                        raise Closed("PullBack.__new__: an arm of the kind chain is not `expr = <formula>`")
                    if len(node.orelse) == 1 and isinstance(node.orelse[0], ast.If):
                        node = node.orelse[0]
                        continue
                    if not _raises(node.orelse):
                        raise Closed("PullBack.__new__: the kind chain does not end with a raising else")
                    break
                continue
            raise Closed("PullBack.__new__: unrecognised branch at line %d" % st.lineno)
        raise Closed("PullBack.__new__: unrecognised statement %s at line %d" % (type(st).__name__, st.lineno))
    if chains != 1:
        raise Closed("PullBack.__new__: expected exactly one kind chain, found %d" % chains)


def check_table_skeleton(src, names):
    tree = ast.parse(src)
    for name in names:
        fn = _find_func(_find_class(tree, name), "eval")
        for st in fn.body:
            if isinstance(st, (ast.Assign, ast.Return, ast.Expr)):
                continue
            if isinstance(st, ast.If):
                t = st.test
                # if not _args: return
                if isinstance(t, ast.UnaryOp) and isinstance(t.op, ast.Not) and isinstance(t.operand, ast.Name) \
                        and t.operand.id == "_args" and not st.orelse:
                    continue
                # recognised guards: a test on the TYPE / SHAPE of the argument or of the computed derivative
                # (isinstance(du[0], (Tuple, Matrix, ...)), isinstance(u, Matrix) and u.shape[1] > 1); both arms are
                # exercised by executing the function on a scalar AND on a column argument
                names_in = {n.id for n in ast.walk(t) if isinstance(n, ast.Name)}
                if names_in <= {"isinstance", "u", "du", "Tuple", "Matrix", "ImmutableDenseMatrix"}:
                    continue
                raise Closed("%s.eval: unrecognised branch at line %d" % (name, st.lineno))
            raise Closed("%s.eval: unrecognised statement %s at line %d" % (name, type(st).__name__, st.lineno))


# ------------------------------------------------------------------------------------------ step 2: execution
EXEC = r'''
import json, sys
from sympy import Mul, Pow, Add, Integer, Matrix, ImmutableDenseMatrix, Tuple
from sympde.topology import Domain, Mapping, ScalarFunctionSpace, VectorFunctionSpace, element_of
from sympde.topology.mapping import PullBack, JacobianSymbol, JacobianInverseSymbol
from sympde.calculus.matrices import Transpose, Inverse, SymbolicDeterminant, MatSymbolicMul
from sympde.topology.space import ScalarFunction, VectorFunction, IndexedVectorFunction
from sympde.topology import derivatives as DV
from sympde.topology.derivatives import dx1, dx2, dx3

def mser(e, el):
    if e == el: return ["el"]
    if isinstance(e, JacobianSymbol):
        if e.axis is not None: raise ValueError("axis")
        return ["J"]
    if isinstance(e, JacobianInverseSymbol):
        if e.axis is not None: raise ValueError("axis")
        return ["Jinv"]
    if isinstance(e, Transpose): return ["T", mser(e.arg, el)]
    if isinstance(e, Inverse): return ["Inv", mser(e.arg, el)]
    if isinstance(e, SymbolicDeterminant): return ["Det", mser(e.arg, el)]
    if isinstance(e, Integer): return ["Num", int(e)]
    if isinstance(e, Pow) and isinstance(e.exp, Integer): return ["PowZ", mser(e.base, el), int(e.exp)]
    if isinstance(e, (Mul, MatSymbolicMul)): return ["Mul", [mser(a, el) for a in e.args]]
    raise ValueError("node %s" % type(e).__name__)

out = {"pullback": {}, "tables": {}}
KIND = {"h1": "h1", "hcurl": "hcurl", "hdiv": "hdiv", "l2": "l2", "undef": None}
for dim in (2, 3):
    M = Mapping("M", dim=dim)
    D = M(Domain("Omega", dim=dim))
    for kn, kv in KIND.items():
        for vector in (False, True):
            V = (VectorFunctionSpace if vector else ScalarFunctionSpace)("V%s%d%d" % (kn, dim, vector), D, kind=kv)
            u = element_of(V, name="u")
            try:
                pb = PullBack(u, M)
                if pb.test.name != u.name or type(pb.test) is not type(u):
                    raise ValueError("test function")
                r = mser(pb.expr, pb.test)
            except Exception as ex:
                r = {"error": "%s: %s" % (type(ex).__name__, str(ex)[:100])}
            out["pullback"]["%s/%d/%d" % (kn, int(vector), dim)] = r

def lin(e, comps):
    """e = sum coef * dxk(atom)  ->  [[coef, k, index of atom]]"""
    terms = []
    for t in Add.make_args(e):
        c, rest = t.as_coeff_Mul()
        if not isinstance(c, Integer): raise ValueError("coefficient")
        if not isinstance(rest, (dx1, dx2, dx3)): raise ValueError("not a first derivative: %s" % rest)
        a = rest.args[0]
        if a not in comps: raise ValueError("unknown atom")
        terms.append([int(c), int(rest.grad_index), comps.index(a)])
    return terms

for dim in (1, 2, 3):
    L = Domain("L%d" % dim, dim=dim)
    W = VectorFunctionSpace("W%d" % dim, L)
    S = ScalarFunctionSpace("S%d" % dim, L)
    F = element_of(W, name="F"); s = element_of(S, name="s")
    col = ImmutableDenseMatrix([[F[i]] for i in range(dim)])
    comps = [F[i] for i in range(dim)]
    try:
        g = getattr(DV, "LogicalGrad_%dd" % dim)(s)
        rows = [g] if dim == 1 else [g[i, 0] for i in range(dim)]
        if dim > 1 and g.shape != (dim, 1): raise ValueError("shape")
        out["tables"]["grad/%d" % dim] = [[[c, k] for c, k, _ in lin(r, [s])] for r in rows]
        # on a column: entry (i, j) must be the same combination applied to component j
        if dim > 1:
            gm = getattr(DV, "LogicalGrad_%dd" % dim)(col)
            if gm.shape != (dim, dim): raise ValueError("shape of the gradient of a column")
            for i in range(dim):
                for j in range(dim):
                    if [[c, k] for c, k, jj in lin(gm[i, j], comps) if jj == j] != out["tables"]["grad/%d" % dim][i] or \
                       any(jj != j for _, _, jj in lin(gm[i, j], comps)):
                        raise ValueError("gradient of a column is not component-wise")
    except Exception as ex:
        out["tables"]["grad/%d" % dim] = {"error": "%s: %s" % (type(ex).__name__, str(ex)[:100])}
    try:
        dv = getattr(DV, "LogicalDiv_%dd" % dim)(col)
        out["tables"]["div/%d" % dim] = lin(dv, comps)
    except Exception as ex:
        out["tables"]["div/%d" % dim] = {"error": "%s: %s" % (type(ex).__name__, str(ex)[:100])}
    if dim >= 2:
        try:
            c = getattr(DV, "LogicalCurl_%dd" % dim)(col)
            rows = [c] if dim == 2 else [c[i, 0] for i in range(3)]
            out["tables"]["curl/%d" % dim] = [lin(r, comps) for r in rows]
        except Exception as ex:
            out["tables"]["curl/%d" % dim] = {"error": "%s: %s" % (type(ex).__name__, str(ex)[:100])}
json.dump(out, open(sys.argv[1], "w"))
'''


def execute():
    import tempfile
    work = vlib.VERIF / ".work"
    work.mkdir(exist_ok=True)
    with tempfile.TemporaryDirectory(dir=str(work)) as td:
        script = os.path.join(td, "tpb.py")
        outp = os.path.join(td, "out.json")
        open(script, "w").write(EXEC)
        env = dict(os.environ)
        env.update({"PYTHONPATH": str(vlib.REPO), "PYTHONHASHSEED": "0", "PYTHONDONTWRITEBYTECODE": "1"})
        p = subprocess.run([vlib.PY, script, outp], env=env, stdout=subprocess.PIPE, stderr=subprocess.STDOUT,
                           text=True, timeout=600)
        if p.returncode != 0 or not os.path.exists(outp):
            raise Closed("execution failed: " + p.stdout[-300:])
        return json.load(open(outp))


# ------------------------------------------------------------------------------------------ emission
def coq_mexpr(m):
    h = m[0]
    if h == "el":
        return "MEl"
    if h == "J":
        return "MJ"
    if h == "Jinv":
        return "MJinv"
    if h in ("T", "Inv", "Det"):
        return "(M%s %s)" % (h, coq_mexpr(m[1]))
    if h == "Num":
        return "(MNum (%d)%%Z)" % m[1]
    if h == "PowZ":
        return "(MPowZ %s (%d)%%Z)" % (coq_mexpr(m[1]), m[2])
    if h == "Mul":
        return "(MMul [%s])" % "; ".join(coq_mexpr(a) for a in m[1])
    raise Closed("mexpr " + str(h))


def emit(data, problems):
    lines = ["(* GENERATED by tools/translate/pullback.py from sympde/topology/mapping.py (PullBack.__new__) and",
             "   sympde/topology/derivatives.py (LogicalGrad/Curl/Div_kd).  Do not edit: rewritten on every run. *)",
             "From Coq Require Import String ZArith List.", "Import ListNotations.", "", TYPES]
    ok = not problems
    pb = {}
    if ok:
        for kn in KINDS:
            for vector in (0, 1):
                f2, f3 = data["pullback"]["%s/%d/2" % (kn, vector)], data["pullback"]["%s/%d/3" % (kn, vector)]
                if isinstance(f2, dict) or isinstance(f3, dict):
                    # a scalar function of a vector-valued kind may be refused; only the table entry is absent
                    pb[(kn, vector)] = None
                    if vector or kn in ("h1", "l2", "undef"):
                        problems.append("PullBack raised for kind %s (vector=%d): %s" % (kn, vector, f2))
                    continue
                if f2 != f3:
                    problems.append("PullBack formula depends on the dimension for kind %s" % kn)
                pb[(kn, vector)] = f2
        ok = not problems
    if ok:
        for key, v in data["tables"].items():
            if isinstance(v, dict):
                problems.append("table %s: %s" % (key, v["error"]))
        ok = not problems
    lines.append("Definition pullback_ok : bool := %s." % ("true" if ok else "false"))
    if not ok:
        lines.append("(* FAIL-CLOSED MARKER: the source has a shape the translator does not recognise:")
        for p in problems:
            lines.append("     %s" % p.replace("*)", "* )"))
        lines.append("*)")
        lines.append("Definition pullback_formula (k : kind) (vector : bool) : option mexpr := None.")
        lines.append("Definition lgrad_table (d : nat) : option (list (list (Z * nat))) := None.")
        lines.append("Definition lcurl_table (d : nat) : option (list (list (Z * nat * nat))) := None.")
        lines.append("Definition ldiv_table (d : nat) : option (list (Z * nat * nat)) := None.")
        return "\n".join(lines) + "\n"
    lines.append("")
    lines.append("(* PullBack(u, mapping).expr in terms of the logical unknown, by space kind *)")
    lines.append("Definition pullback_formula (k : kind) (vector : bool) : option mexpr :=")
    lines.append("  match k, vector with")
    for kn in KINDS:
        for vector in (0, 1):
            f = pb[(kn, vector)]
            lines.append("  | %s, %s => %s" % (COQKIND[kn], "true" if vector else "false",
                                               "Some %s" % coq_mexpr(f) if f is not None else "None"))
    lines.append("  end.")
    lines.append("")

    def z(c):
        return "(%d)%%Z" % c
    lines.append("(* LogicalGrad_kd(u): row i = sum of coef * d_k u, as (coef, k) *)")
    lines.append("Definition lgrad_table (d : nat) : option (list (list (Z * nat))) :=")
    lines.append("  match d with")
    for dim in (1, 2, 3):
        rows = data["tables"]["grad/%d" % dim]
        lines.append("  | %d => Some [%s]" % (dim, "; ".join("[" + "; ".join("(%s, %d)" % (z(c), k) for c, k in r) + "]" for r in rows)))
    lines.append("  | _ => None\n  end.\n")
    lines.append("(* LogicalCurl_kd(u): row i = sum of coef * d_k u_c, as (coef, k, c) *)")
    lines.append("Definition lcurl_table (d : nat) : option (list (list (Z * nat * nat))) :=")
    lines.append("  match d with")
    for dim in (2, 3):
        rows = data["tables"]["curl/%d" % dim]
        lines.append("  | %d => Some [%s]" % (dim, "; ".join("[" + "; ".join("(%s, %d, %d)" % (z(c), k, j) for c, k, j in r) + "]" for r in rows)))
    lines.append("  | _ => None\n  end.\n")
    lines.append("(* LogicalDiv_kd(u) = sum of coef * d_k u_c *)")
    lines.append("Definition ldiv_table (d : nat) : option (list (Z * nat * nat)) :=")
    lines.append("  match d with")
    for dim in (1, 2, 3):
        r = data["tables"]["div/%d" % dim]
        lines.append("  | %d => Some [%s]" % (dim, "; ".join("(%s, %d, %d)" % (z(c), k, j) for c, k, j in r)))
    lines.append("  | _ => None\n  end.")
    return "\n".join(lines) + "\n"


def generate(verbose=False):
    problems = []
    data = None
    try:
        check_pullback_skeleton(open(vlib.REPO / "sympde" / "topology" / "mapping.py").read())
        check_table_skeleton(open(vlib.REPO / "sympde" / "topology" / "derivatives.py").read(),
                             ["LogicalGrad_1d", "LogicalGrad_2d", "LogicalGrad_3d", "LogicalCurl_2d", "LogicalCurl_3d",
                              "LogicalDiv_1d", "LogicalDiv_2d", "LogicalDiv_3d"])
        data = execute()
    except Closed as ex:
        problems.append(str(ex))
    except Exception as ex:  # noqa
        problems.append("%s: %s" % (type(ex).__name__, str(ex)[:200]))
    text = emit(data, problems)
    changed = write_if_changed(OUT, text)
    info = {"ok": not problems, "problems": problems, "rewritten": bool(changed), "file": OUT}
    if verbose:
        print("translate.pullback:", info)
    return info


def translate(run=None):
    return generate()


if __name__ == "__main__":
    print(generate(verbose=True))
