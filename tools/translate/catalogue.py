"""T-catalogue: sympde/topology/analytical_mapping.py  ->  coq/Gen/Catalogue.v   (C16)

Fail-closed translator, run on every `./check C16` and by tools/setup.py:
  1. `ast` pass over analytical_mapping.py: the module may contain only imports, docstrings and classes
     `class X(Mapping)` whose body is a docstring plus literal assignments `_expressions = {'x': '...', ...}`,
     `_ldim = n`, `_pdim = n`.  Anything else (a method, `_jac = ...`, a computed expression) is an
     unrecognised shape: it is recorded as a problem and `translation_ok` becomes `false`, which breaks the
     lemma `translation_complete` of Proofs/CatalogueP.v (nothing is guessed).
  2. the class list is cross-checked against the imported module (same names, same literal attributes).
  3. every class is INSTANTIATED for every admissible dimension with symbolic parameters by the real code
     (subprocess: /venv/bin/python, PYTHONPATH=<repo>; tools/impl/C16_impl.py mode "entry"; per-entry timeout) and
     the expressions / jacobian_expr / jacobian_inv_expr / metric_expr / metric_det_expr of the real object are
     written as Gallina terms (sympy-shaped `sx` trees turned into `texpr` by `sx2t`).
Nothing is cached across runs; the output file is rewritten only when its content changed.
"""
import ast
import json
import os
import subprocess
import sys
import tempfile
import time

HERE = os.path.dirname(os.path.abspath(__file__))
sys.path.insert(0, os.path.dirname(HERE))
import vlib                      # noqa: E402
import exprlib as X              # noqa: E402
from translate import write_if_changed   # noqa: E402

SRC_REL = "sympde/topology/analytical_mapping.py"
ENTRY_TIMEOUT = int(os.environ.get("VERIF_C16_ENTRY_TIMEOUT", "1200"))
COORDS = ["x", "y", "z"]

# Admissible parameter ranges used by the generators of the C16 check (parameter name -> (lo, hi)); inside these
# ranges the catalogue mappings are regular (non-vanishing Jacobian, real square roots) for x1 in (0.1, 0.95).
# A class that is not listed (a new catalogue entry) gets DEFAULT_RANGE for every parameter.
DEFAULT_RANGE = (0.25, 2.0)
ADMISSIBLE = {
    "AffineMapping": {},
    "PolarMapping": {"rmin": (0.1, 0.5), "rmax": (1.0, 2.0), "c1": (-1.0, 1.0), "c2": (-1.0, 1.0)},
    "TargetMapping": {"k": (0.1, 0.5), "D": (0.05, 0.3), "c1": (-1.0, 1.0), "c2": (-1.0, 1.0)},
    "CzarnyMapping": {"eps": (0.05, 0.9), "b": (0.5, 2.0), "c2": (-1.0, 1.0)},
    "CollelaMapping2D": {"eps": (0.02, 0.1), "k1": (0.5, 1.5), "k2": (0.5, 1.5)},
    "TorusMapping": {"R0": (2.0, 4.0)},
    "TorusSurfaceMapping": {"R0": (2.0, 4.0), "a": (0.3, 1.0)},
    "TwistedTargetSurfaceMapping": {"k": (0.1, 0.5), "D": (0.05, 0.3), "c1": (-1.0, 1.0), "c2": (-1.0, 1.0), "c3": (-1.0, 1.0)},
    "TwistedTargetMapping": {"k": (0.1, 0.5), "D": (0.05, 0.3), "c1": (-1.0, 1.0), "c2": (-1.0, 1.0), "c3": (-1.0, 1.0)},
    "SphericalMapping": {},
}


def ranges_for(cls):
    return dict(ADMISSIBLE.get(cls, {}))


# ------------------------------------------------------------------------------------------- 1. ast pass
def parse_source(path):
    """-> (classes, problems); classes = [{"name","expressions":{..},"ldim","pdim","line"}]"""
    problems, classes = [], []
    try:
        tree = ast.parse(open(path).read())
    except Exception as e:  # noqa
        return [], ["cannot parse %s: %s" % (path, e)]
    for node in tree.body:
        if isinstance(node, (ast.Import, ast.ImportFrom)):
            continue
        if isinstance(node, ast.Expr) and isinstance(node.value, ast.Constant) and isinstance(node.value.value, str):
            continue
        if isinstance(node, ast.Assign) and len(node.targets) == 1 and isinstance(node.targets[0], ast.Name) \
                and node.targets[0].id == "__all__":
            continue
        if not isinstance(node, ast.ClassDef):
            problems.append("line %d: unrecognised module-level statement %s" % (node.lineno, type(node).__name__))
            continue
        bases = [b.id if isinstance(b, ast.Name) else None for b in node.bases]
        if bases != ["Mapping"] or node.keywords or node.decorator_list:
            problems.append("line %d: class %s: bases/decorators not of the form `class X(Mapping)`" % (node.lineno, node.name))
            continue
        c = {"name": node.name, "expressions": None, "ldim": None, "pdim": None, "line": node.lineno}
        ok = True
        for st in node.body:
            if isinstance(st, ast.Expr) and isinstance(st.value, ast.Constant) and isinstance(st.value.value, str):
                continue
            if isinstance(st, ast.Pass):
                continue
            if isinstance(st, ast.Assign) and len(st.targets) == 1 and isinstance(st.targets[0], ast.Name):
                tgt, val = st.targets[0].id, st.value
                if tgt == "_expressions" and isinstance(val, ast.Dict) and all(
                        isinstance(k, ast.Constant) and isinstance(k.value, str) and
                        isinstance(v, ast.Constant) and isinstance(v.value, str) for k, v in zip(val.keys, val.values)):
                    c["expressions"] = {k.value: v.value for k, v in zip(val.keys, val.values)}
                    if len(c["expressions"]) != len(val.keys):
                        ok = False
                        problems.append("line %d: class %s: duplicate key in _expressions" % (st.lineno, node.name))
                    continue
                if tgt in ("_ldim", "_pdim") and isinstance(val, ast.Constant) and isinstance(val.value, int) \
                        and not isinstance(val.value, bool):
                    c[tgt[1:]] = val.value
                    continue
            ok = False
            problems.append("line %d: class %s: unrecognised statement (%s)" % (st.lineno, node.name, ast.dump(st)[:80]))
        if c["expressions"] is None:
            ok = False
            problems.append("line %d: class %s: no literal _expressions" % (node.lineno, node.name))
        elif list(c["expressions"]) != COORDS[:len(c["expressions"])]:
            ok = False
            problems.append("line %d: class %s: _expressions keys %s are not x[,y[,z]]" % (node.lineno, node.name, list(c["expressions"])))
        if (c["ldim"] is None) != (c["pdim"] is None):
            ok = False
            problems.append("line %d: class %s: only one of _ldim/_pdim" % (node.lineno, node.name))
        if ok and c["pdim"] is not None and not (1 <= c["ldim"] <= c["pdim"] == len(c["expressions"])):
            ok = False
            problems.append("line %d: class %s: _ldim/_pdim inconsistent with _expressions" % (node.lineno, node.name))
        if ok:
            classes.append(c)
    return classes, problems


def admissible(c):
    """[(label, case-args)] : every way the class can be instantiated (dim= for the dimension-free classes,
    plus the non-square ldim<pdim combinations they accept)."""
    if c["pdim"] is not None:
        return [("%d_%d" % (c["ldim"], c["pdim"]), {})]
    n = len(c["expressions"])
    out = [("%d_%d" % (d, d), {"dim": d}) for d in range(1, n + 1)]
    out += [("%d_%d" % (l, p), {"ldim": l, "pdim": p}) for p in range(2, n + 1) for l in range(1, p)]
    return out


# ------------------------------------------------------------------------------------------- 2./3. real code
def _env(repo):
    e = dict(os.environ)
    e.update({"PYTHONPATH": "%s:%s" % (repo, vlib.VERIF / "tools" / "impl"), "PYTHONHASHSEED": "0",
              "PYTHONDONTWRITEBYTECODE": "1", "SYMPDE_VERIF": "1"})
    return e


def run_impl_many(payloads, repo, timeout, jobs=8):
    """One subprocess per payload, at most `jobs` at a time. -> [(result|None, log)]"""
    tmp = tempfile.mkdtemp(prefix="cat-", dir=str(vlib.VERIF / ".work")) if (vlib.VERIF / ".work").exists() \
        else tempfile.mkdtemp(prefix="cat-")
    script = str(vlib.VERIF / "tools" / "impl" / "C16_impl.py")
    res = [None] * len(payloads)
    pending = list(range(len(payloads)))
    running = {}
    try:
        while pending or running:
            while pending and len(running) < jobs:
                i = pending.pop(0)
                inp, outp = os.path.join(tmp, "in%d.json" % i), os.path.join(tmp, "out%d.json" % i)
                json.dump(payloads[i], open(inp, "w"))
                p = subprocess.Popen(["timeout", str(timeout), vlib.PY, script, inp, outp], env=_env(repo), cwd=tmp,
                                     stdout=subprocess.PIPE, stderr=subprocess.STDOUT, text=True)
                running[i] = (p, outp)
            done = [i for i, (p, _) in running.items() if p.poll() is not None]
            for i in done:
                p, outp = running.pop(i)
                log = "\n".join(l for l in p.stdout.read().splitlines() if "WARNING conda" not in l)
                if p.returncode == 0 and os.path.exists(outp):
                    res[i] = (json.load(open(outp)), log)
                else:
                    res[i] = (None, ("timeout after %ds\n" % timeout if p.returncode == 124 else "rc=%s\n" % p.returncode) + log[-1500:])
            if not done:
                time.sleep(0.05)
    finally:
        import shutil
        shutil.rmtree(tmp, ignore_errors=True)
    return res


# ------------------------------------------------------------------------------------------- Gallina
def coq_mat(m):
    return vlib.coq_list([vlib.coq_list([X.coq_sx(x) for x in row]) for row in m])


def coq_entry(name, d):
    jinv = "None" if d["jinv"] is None else "(Some %s)" % coq_mat(d["jinv"])
    return ("Definition E_%s : entry :=\n  mk_entry %s %d %d\n    %s\n    %s\n    %s\n    %s\n    %s.\n" % (
        name, vlib.coq_str(name), d["ldim"], d["pdim"], vlib.coq_list([X.coq_sx(x) for x in d["expr"]]),
        coq_mat(d["jac"]), jinv, coq_mat(d["metric"]), X.coq_sx(d["mdet"])))


def build(repo=None, verbose=False, jobs=8, oracle_seed=None, refs=None):
    """-> {"text", "entries":[{"name","cls","args","data"}], "problems":[str], "skipped":[..], "seconds"}"""
    repo = str(repo or vlib.REPO)
    t0 = time.time()
    src = os.path.join(repo, SRC_REL)
    classes, problems = parse_source(src)
    # cross-check against the imported module
    (r, log), = run_impl_many([{"cases": [{"mode": "classes"}]}], repo, 120, 1)
    rt = None
    if r is None or "crash" in r["results"][0]:
        problems.append("cannot import sympde.topology.analytical_mapping: %s" % (log if r is None else r["results"][0]["crash"])[-400:])
    else:
        rt = {c["name"]: c for c in r["results"][0]["classes"]}
        if sorted(rt) != sorted(c["name"] for c in classes):
            problems.append("classes seen by ast %s differ from the Mapping subclasses of the imported module %s"
                            % (sorted(c["name"] for c in classes), sorted(rt)))
        for c in classes:
            q = rt.get(c["name"])
            if q is None:
                continue
            if q["expressions"] != c["expressions"] or q["ldim"] != c["ldim"] or q["pdim"] != c["pdim"] or q["jac"] or q["inv_jac"]:
                problems.append("class %s: attributes of the imported class differ from the literal ones" % c["name"])
    todo = []
    for c in classes:
        if rt is not None and c["name"] not in rt:
            continue
        for label, args in admissible(c):
            todo.append({"name": "%s_%s" % (c["name"], label), "cls": c["name"], "args": args})
    payloads = []
    for t in todo:
        case = dict(t["args"], mode="entry", cls=t["cls"])
        if oracle_seed is not None:   # the property's own numeric oracle, evaluated on the same real object
            case["oracle"] = {"seed": int(oracle_seed), "nparams": 2, "npoints": 2, "ranges": ranges_for(t["cls"])}
            if refs and t["name"] in refs:   # numeric comparison with the pinned reference definition
                case["ref"] = refs[t["name"]]
        payloads.append({"cases": [case], "timeout": ENTRY_TIMEOUT})
    # slow ones first so that they overlap with the rest
    order = sorted(range(len(todo)), key=lambda i: (0 if "Czarny" in todo[i]["cls"] else 1, i))
    outs_o = run_impl_many([payloads[i] for i in order], repo, ENTRY_TIMEOUT, jobs) if todo else []
    outs = [None] * len(todo)
    for k, i in enumerate(order):
        outs[i] = outs_o[k]
    entries, skipped = [], []
    for t, (r, log) in zip(todo, outs):
        if r is None:
            problems.append("entry %s: the real class did not build (%s)" % (t["name"], log.strip()[:300]))
            skipped.append(t["name"])
            continue
        d = r["results"][0]
        if "crash" in d:
            problems.append("entry %s: the real class raised %s" % (t["name"], d["crash"].strip().splitlines()[-1][:300]))
            skipped.append(t["name"])
            continue
        if "err" in d:
            problems.append("entry %s: %s (%s)" % (t["name"], d["err"], d.get("msg", "")[:200]))
            skipped.append(t["name"])
            continue
        entries.append(dict(t, data=d))
    head = ("(* GENERATED by tools/translate/catalogue.py from %s -- do not edit.\n"
            "   One entry per catalogue class x admissible dimension: what the REAL object stores when it is built with\n"
            "   symbolic parameters (logical coordinates = ACoord true i, parameters = AConst name). *)\n"
            "From Coq Require Import String ZArith List Bool.\n"
            "From V Require Import Core.Terminal Core.SExpr Model.CatalogueM.\n"
            "Import ListNotations. Local Open Scope string_scope.\n\n" % SRC_REL)
    body = "(* false = an unrecognised source shape or a class that did not build: nothing is guessed *)\n"
    body += "Definition translation_ok : bool := %s.\n" % ("true" if not problems else "false")
    body += "Definition translation_problems : list string := %s.\n\n" % vlib.coq_list(
        [vlib.coq_str("".join(ch if 32 <= ord(ch) < 127 and ch != '"' else "?" for ch in p)) for p in problems])
    for e in entries:
        body += coq_entry(e["name"], e["data"]) + "\n"
    body += "Definition all_entries : list entry := %s.\n" % vlib.coq_list(["E_%s" % e["name"] for e in entries])
    body += "Definition entry_names : list string := %s.\n" % vlib.coq_list([vlib.coq_str(e["name"]) for e in entries])
    return {"text": head + body, "entries": entries, "problems": problems, "skipped": skipped,
            "classes": classes, "seconds": round(time.time() - t0, 1)}


def generate(verbose=False, repo=None, out=None, oracle_seed=None, jobs=8, refs=None):
    info = build(repo=repo, verbose=verbose, oracle_seed=oracle_seed, jobs=jobs, refs=refs)
    path = str(out or (vlib.COQ / "Gen" / "Catalogue.v"))
    info["changed"] = write_if_changed(path, info["text"])
    info["path"] = path
    if verbose:
        print("catalogue: %d entries, %d problems, %.1fs, %s" % (len(info["entries"]), len(info["problems"]),
                                                                   info["seconds"], "rewritten" if info["changed"] else "unchanged"))
        for p in info["problems"]:
            print("  problem:", p)
    return info


if __name__ == "__main__":
    generate(verbose=True, out=sys.argv[1] if len(sys.argv) > 1 else None)
