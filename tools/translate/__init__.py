"""Translators: regenerate coq/Gen/*.v from /repo's working tree.

Plug-in convention: every module tools/translate/<name>.py that defines a function
`generate(verbose=False)` is called by run_all() (used by tools/setup.py).  A translator writes
its output file only when the content changed (so `make` stays incremental) and FAILS CLOSED:
on an unrecognised source shape it emits a marker definition that makes the dependent lemma
fail to build instead of guessing.
"""
import importlib
import os
import pkgutil


def run_all(verbose=False):
    here = os.path.dirname(os.path.abspath(__file__))
    done = []
    for m in sorted(pkgutil.iter_modules([here]), key=lambda m: m.name):
        mod = importlib.import_module("translate.%s" % m.name)
        if hasattr(mod, "generate"):
            mod.generate(verbose=verbose)
            done.append(m.name)
    if verbose:
        print("translators run:", done)
    return done


def write_if_changed(path, text):
    try:
        old = open(path).read()
    except FileNotFoundError:
        old = None
    if old != text:
        os.makedirs(os.path.dirname(path), exist_ok=True)
        with open(path, "w") as f:
            f.write(text)
        return True
    return False
