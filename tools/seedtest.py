#!/usr/bin/env python3
"""Confirm a seeded breaking change and run the check against it.

usage: tools/seedtest.py Cxx <worktree> <seed-dir> [--suite] [--seeds 0,1]

In the scratch worktree (never /repo): apply <seed-dir>/patch.diff, run the demonstration (must fail),
optionally the repository's test-suite (must pass), run `VERIF_REPO=<worktree> ./check Cxx --tier quick`
for the given seeds (a VIOLATION is expected), undo the patch, run the demonstration again (must pass).
Writes <seed-dir>/result.json and prints a one-line verdict.
"""
import json
import os
import subprocess
import sys

VERIF = os.path.dirname(os.path.dirname(os.path.abspath(__file__)))


def sh(cmd, cwd=None, env=None, timeout=3600):
    e = dict(os.environ)
    if env:
        e.update(env)
    p = subprocess.run(cmd, shell=True, cwd=cwd, env=e, stdout=subprocess.PIPE, stderr=subprocess.STDOUT, text=True,
                       timeout=timeout)
    out = "\n".join(l for l in p.stdout.splitlines() if "WARNING conda" not in l)
    return p.returncode, out


def main():
    pid, wt, sd = sys.argv[1:4]
    suite = "--suite" in sys.argv
    seeds = [0]
    if "--seeds" in sys.argv:
        seeds = [int(x) for x in sys.argv[sys.argv.index("--seeds") + 1].split(",")]
    res = {"property": pid, "worktree": wt, "seed_dir": sd}
    env = {"PYTHONPATH": wt, "PYTHONHASHSEED": "0"}
    sh("git -C %s checkout -- sympde" % wt)
    rc, out = sh("/venv/bin/python %s/demo.py" % sd, cwd=wt, env=env, timeout=900)
    res["demo_without_change"] = {"rc": rc, "tail": out[-300:]}
    rc, out = sh("git -C %s apply %s/patch.diff" % (wt, sd))
    res["apply"] = {"rc": rc, "out": out[-300:]}
    if rc != 0:
        json.dump(res, open(os.path.join(sd, "result.json"), "w"), indent=1)
        print("%s %s: patch does not apply" % (pid, sd)); return 2
    try:
        rc, out = sh("/venv/bin/python %s/demo.py" % sd, cwd=wt, env=env, timeout=900)
        res["demo_with_change"] = {"rc": rc, "tail": out[-300:]}
        if suite:
            rc, out = sh("/venv/bin/python -m pytest -q -p no:cacheprovider --timeout=900 --continue-on-collection-errors sympde",
                         cwd=wt, env={"PYTHONPATH": wt}, timeout=3000)
            res["suite_with_change"] = {"rc": rc, "tail": out[-300:]}
        res["checks"] = []
        evf = os.path.join(VERIF, "evidence", "%s.json" % pid)     # evidence belongs to runs against /repo itself
        saved = open(evf).read() if os.path.exists(evf) else None
        for s in seeds:
            rc, out = sh("./check %s --tier quick --seed %d" % (pid, s), cwd=VERIF, env={"VERIF_REPO": wt}, timeout=3000)
            lines = [l for l in out.splitlines() if l.startswith("VIOLATION") or l.startswith("KNOWN-FINDING")]
            replay = None
            for l in lines:
                if l.startswith("VIOLATION") and "replay=" in l:
                    path = l.split("replay=")[1].split()[0]
                    try:
                        rp = json.load(open(path))
                        replay = {"signature": rp.get("signature"), "what": rp.get("what"), "found_input": rp.get("failing_input_found")}
                        os.remove(path)          # replays of seeded runs do not belong to the evidence of /repo
                    except Exception:  # noqa
                        pass
                    break
            viol = [l for l in lines if l.startswith("VIOLATION")]
            res["checks"].append({"seed": s, "rc": rc, "violations": len(viol),
                                  "lines": viol[:4] + [l for l in lines if not l.startswith("VIOLATION")][:4],
                                  "first_replay": replay, "tail": out[-200:]})
        if saved is not None:
            open(evf, "w").write(saved)
    finally:
        sh("git -C %s checkout -- sympde" % wt)
    detected = any(c["rc"] == 1 and c["violations"] > 0 for c in res["checks"])
    res["detected"] = detected
    res["confirmed"] = (res["demo_without_change"]["rc"] == 0 and res["demo_with_change"]["rc"] != 0
                        and (not suite or "failed" not in res["suite_with_change"]["tail"].split("passed")[0][-40:]))
    json.dump(res, open(os.path.join(sd, "result.json"), "w"), indent=1)
    print("%s %s: confirmed=%s detected=%s" % (pid, sd, res["confirmed"], detected))
    return 0


if __name__ == "__main__":
    sys.exit(main())
