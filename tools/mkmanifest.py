#!/usr/bin/env python3
"""Regenerates /verif/MANIFEST.json from the table below (one entry per claimed property)."""
import json
import os
import sys

HERE = os.path.dirname(os.path.abspath(__file__))
VERIF = os.path.dirname(HERE)

PENDING_REASON = "check not built yet (work in progress; DESIGN.md section 9 gives the build order)"

CLAIMED = {
    "C05": {
        "text": "Theorem dop_sound in Coq (coq/Props/C05.v, 10 obligations, closed under the global context): the executable "
                "model of DifferentialOperator.eval (atoms kept as canonical derivative atoms, function-free expressions by "
                "symbolic differentiation incl. the chain rule through mapping components, Add, Mul with coefficient "
                "extraction and 1/2/n-factor Leibniz, Pow by the logarithmic rule, refusal otherwise) returns an expression "
                "that denotes D_i of its argument for EVERY expression tree, every operator dx..dz/dx1..dx3 and every "
                "differential field (the abstract structure standing for all smooth functions and points); corollaries: "
                "additivity, Leibniz, linearity over constants, vanishing on constants, commuting mixed partials, canonical "
                "atoms for re-ordered chains, refusal of unsupported functions of fields. Tie to the code: on every run the "
                "real operators are applied to generated expressions and their output is proved equal (kernel-checked, per "
                "case, by the verified field-equality checker tequiv) both to the model's output and to the reference "
                "derivative; an independent numeric oracle (explicit polynomials + sympy.diff) searches failing inputs.",
        "design_ref": "DESIGN.md section 5 C05",
        "note": "Trusted: Coq kernel + vm_compute; hand model tied by correspondence only; serialiser tools/impl/ser.py (incl. "
                "exponent law for integer shifts of general powers); sympy arithmetic and sympy.diff are modelled, not "
                "verified; the reading of 'all smooth functions/points' as 'every dfield' (DESIGN 4.2, inhabitedness of "
                "dfield is a mathematical meta-argument, not formalised); only scalar arguments (vectors/matrices are "
                "entry-wise); mixed physical/logical chains not modelled.",
        "technique": "Coq proof by structural induction over expression trees in an abstract differential field + "
                     "per-case kernel-checked equivalence (reflexive field normaliser) against the implementation",
    },
    "C12": {
        "text": "Two layers. (1) Theorems in Coq (coq/Props/C12.v, closed under the global context) about a model in which "
                "objects are seen by ==/hash/the caches only through their key: a memoised computation returns the pure "
                "result for EVERY history, every correct cache content and every clearing point provided names are "
                "hygienic (equal keys => equal attributes); the statement is refuted without hygiene (witness: 'Omega' as a "
                "2-D then 3-D domain); results obtained by canonical sorting do not depend on the order of members (hence not "
                "on set iteration order / hash seed) when printed names are injective, refuted otherwise; boundary-condition "
                "positions are stable unless a condition object is shared between equations (refuted witness). (2) The "
                "runtime part - CPython's hash seed, sympy's cache configuration, earlier history in the interpreter - "
                "cannot be exhibited by a theorem: it is EXPLORED by running 9 target computations of the real library in "
                "separate interpreter processes (fresh vs after random hygienic / name-colliding histories, cache on/off/"
                "cleared at random points, several PYTHONHASHSEED values, permuted operands / union members / "
                "connectivity entries) and comparing with the fresh baseline; the hygiene label of each generated history "
                "is decided inside Coq by the proved-sound test faithful_b.",
        "design_ref": "DESIGN.md section 5 C12",
        "note": "Partial by nature: the proof covers the memoisation / canonical-order / in-place-mutation logic of the model; "
                "the interpreter-level behaviour is sampled, not proved (labelled in the evidence). Trusted: Coq kernel, the "
                "runner tools/impl/C12_impl.py (targets, history operations), the digest of attributes used for the hygiene "
                "test. Known findings: identity by name (stale cache after a same-name different-dimension history) and "
                "the shared EssentialBC position write.",
        "technique": "Coq proof (refinement of a memoised computation by induction over histories; canonical sorting) + "
                     "multi-process differential exploration of the real runtime",
    },
    "C14": {
        "text": "Theorems in Coq (coq/Props/C14.v, 16 obligations, closed under the global context) about an executable model "
                "of Union.__new__/complement/iteration: the result is the sorted duplicate-free list of exactly the supplied "
                "members, is a function of the SET of members (commutativity incl. refusals, idempotence, flattening), "
                "degenerate cases, refusal of mixed dimensions and non-domains, complement = set difference, and every "
                "iterator yields each member exactly once under ANY interleaving of iter()/next() - all for unbounded "
                "families and operation sequences. The model is tied to sympde/topology/basic.py by a correspondence run "
                "(real Union vs model, decided inside Coq by vm_compute) plus a direct oracle of the property on the "
                "implementation's outputs.",
        "design_ref": "DESIGN.md section 5 C14",
        "note": "Trusted: Coq kernel + vm_compute; the hand-written model (tied by correspondence only); the runner/generator/"
                "serialiser in tools/; atoms enter the model with the str/dim/== class observed on the real objects; "
                "well-formed families (== is identity, str injective) - collisions belong to C12.",
        "technique": "Coq proof (induction over lists / operation sequences) + model-vs-implementation correspondence",
    },
}


def main():
    props = [json.loads(l) for l in open(os.path.join(VERIF, "properties.jsonl"))]
    checks, na = [], []
    for p in props:
        pid = p["id"]
        c = CLAIMED.get(pid)
        if c is None:
            na.append({"property_id": pid, "reason": PENDING_REASON})
            continue
        checks.append({
            "property_id": pid,
            "quick_cmd": "./check %s --tier quick" % pid,
            "thorough_cmd": "./check %s --tier thorough" % pid,
            "evidence_file": "/verif/evidence/%s.json" % pid,
            "replay_cmd_template": "./check %s --replay {path}" % pid,
            "engine": "coq-proof",
            "level_claimed": {"category": "proof", "text": c["text"], "design_ref": c["design_ref"]},
            "level_note": c["note"],
            "technique": c["technique"],
        })
    m = {
        "version": 1,
        "setup_cmd": "python3 tools/setup.py",
        "hooks": {
            "guard": "SYMPDE_VERIF",
            "enable": "no source hooks are needed: every check runs /repo's working tree through PYTHONPATH=/repo "
                      "(SYMPDE_VERIF=1 is exported for the runner processes but nothing in /repo reads it)",
            "baseline_off_cmd": "cd /repo && /venv/bin/python -m pytest -ra -q -p no:cacheprovider --timeout=900 "
                                "--continue-on-collection-errors",
            "source_commits": [],
            "add_only": True,
        },
        "engines": [{"name": "coq-proof", "path": "/verif/coq",
                     "serves_properties": sorted(CLAIMED),
                     "kind_free_text": "Coq 8.16.1 development (Core/ Model/ Proofs/ Props/ Gen/), full .vo build; "
                                       "models evaluated by vm_compute in generated case files; Python harness in tools/"}],
        "checks": checks,
        "not_applicable": na,
        "notes": "Technique family: machine-checked proof in Coq. See DESIGN.md. known_findings.json lists genuine defects "
                 "(known / fixed).",
    }
    json.dump(m, open(os.path.join(VERIF, "MANIFEST.json"), "w"), indent=1)
    print("claimed:", sorted(CLAIMED), "pending:", len(na))


if __name__ == "__main__":
    main()
