#!/usr/bin/env python3
"""Regenerates /verif/MANIFEST.json from the table below (one entry per claimed property)."""
import json
import os
import sys

HERE = os.path.dirname(os.path.abspath(__file__))
VERIF = os.path.dirname(HERE)

PENDING_REASON = "check not built yet (work in progress; DESIGN.md section 9 gives the build order)"

CLAIMED = json.load(open(os.path.join(HERE, "manifest_entries.json")))


def main():
    props = [json.loads(l) for l in open(os.path.join(VERIF, "properties.jsonl"))]
    checks, na = [], []
    for p in props:
        pid = p["id"]
        c = CLAIMED.get(pid)
        if c is None:
            na.append({"property_id": pid, "reason": PENDING_REASON})
            continue
        checks.append({
            "property_id": pid,
            "quick_cmd": "./check %s --tier quick" % pid,
            "thorough_cmd": "./check %s --tier thorough" % pid,
            "evidence_file": "/verif/evidence/%s.json" % pid,
            "replay_cmd_template": "./check %s --replay {path}" % pid,
            "engine": "coq-proof",
            "level_claimed": {"category": "proof", "text": c["text"], "design_ref": c["design_ref"]},
            "level_note": c["note"],
            "technique": c["technique"],
        })
    m = {
        "version": 1,
        "setup_cmd": "python3 tools/setup.py",
        "hooks": {
            "guard": "SYMPDE_VERIF",
            "enable": "no source hooks are needed: every check runs /repo's working tree through PYTHONPATH=/repo "
                      "(SYMPDE_VERIF=1 is exported for the runner processes but nothing in /repo reads it)",
            "baseline_off_cmd": "cd /repo && /venv/bin/python -m pytest -ra -q -p no:cacheprovider --timeout=900 "
                                "--continue-on-collection-errors",
            "source_commits": [],
            "add_only": True,
        },
        "engines": [{"name": "coq-proof", "path": "/verif/coq",
                     "serves_properties": sorted(CLAIMED),
                     "kind_free_text": "Coq 8.16.1 development (Core/ Model/ Proofs/ Props/ Gen/), full .vo build; "
                                       "models evaluated by vm_compute in generated case files; Python harness in tools/"}],
        "checks": checks,
        "not_applicable": na,
        "notes": "Technique family: machine-checked proof in Coq. See DESIGN.md. known_findings.json lists genuine defects "
                 "(known / fixed).",
    }
    json.dump(m, open(os.path.join(VERIF, "MANIFEST.json"), "w"), indent=1)
    print("claimed:", sorted(CLAIMED), "pending:", len(na))


if __name__ == "__main__":
    main()
