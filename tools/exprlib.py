"""Harness-side helpers for the expression properties: JSON sx trees -> Gallina, generators."""
from vlib import coq_str, coq_list

SIDE = {"0": "SNone", "-": "SMinus", "+": "SPlus"}
FNAME = {"sin": "Fsin", "cos": "Fcos", "tan": "Ftan", "exp": "Fexp", "log": "Flog", "sqrt": "Fsqrt", "Abs": "Fabs"}


def coq_bool(b):
    return "true" if b else "false"


def coq_nat_list(l):
    return coq_list(["%d" % x for x in l])


def coq_atom(a):
    t = a["t"]
    if t == "coord":
        return "(ACoord %s %d)" % (coq_bool(a["lg"]), a["i"])
    if t == "const":
        return "(AConst %s)" % coq_str(a["name"])
    if t == "fld":
        return "(AFld %s %s %d %s %s)" % (coq_bool(a["lg"]), coq_str(a["f"]), a["c"], SIDE[a["s"]], coq_nat_list(a["al"]))
    if t == "map":
        return "(AMap %s %d %s)" % (coq_str(a["m"]), a["i"], coq_nat_list(a["al"]))
    if t == "normal":
        return "(ANormal %s %d)" % (SIDE[a["s"]], a["i"])
    raise ValueError(t)


def coq_sx(j):
    k = j["k"]
    if k == "num":
        return "(SNum (%d)%%Z %d%%positive)" % (j["p"], j["q"])
    if k == "at":
        return "(SAt %s)" % coq_atom(j)
    if k == "add":
        return "(SAdd %s)" % coq_list([coq_sx(a) for a in j["a"]])
    if k == "mul":
        return "(SMul %s)" % coq_list([coq_sx(a) for a in j["a"]])
    if k == "pow":
        return "(SPow %s %s)" % (coq_sx(j["b"]), coq_sx(j["e"]))
    if k == "fn":
        f = FNAME.get(j["f"])
        return "(SFn %s %s)" % (f if f else "(Fother %s)" % coq_str(j["f"]), coq_sx(j["a"]))
    raise ValueError(k)


def sx_size(j):
    k = j["k"]
    if k in ("num", "at"):
        return 1
    if k in ("add", "mul"):
        return 1 + sum(sx_size(a) for a in j["a"])
    if k == "pow":
        return 1 + sx_size(j["b"]) + sx_size(j["e"])
    return 1 + sx_size(j["a"])


def sx_atoms(j, acc=None):
    acc = [] if acc is None else acc
    k = j["k"]
    if k == "at":
        acc.append(j)
    elif k in ("add", "mul"):
        for a in j["a"]:
            sx_atoms(a, acc)
    elif k == "pow":
        sx_atoms(j["b"], acc); sx_atoms(j["e"], acc)
    elif k == "fn":
        sx_atoms(j["a"], acc)
    return acc


def sx_ops(j, acc=None):
    acc = {} if acc is None else acc
    k = j["k"]
    acc[k] = acc.get(k, 0) + 1
    if k in ("add", "mul"):
        for a in j["a"]:
            sx_ops(a, acc)
    elif k == "pow":
        sx_ops(j["b"], acc); sx_ops(j["e"], acc)
    elif k == "fn":
        acc["fn:" + j["f"]] = acc.get("fn:" + j["f"], 0) + 1
        sx_ops(j["a"], acc)
    return acc


def num(p, q=1):
    return {"k": "num", "p": p, "q": q}


class SxGen:
    """Random scalar expressions over fields, components, coordinates, constants."""

    def __init__(self, rng, dim=3, lg=False, scalars=("u", "v"), vectors=("F",), consts=("alpha", "beta"),
                 maps=(), allow_fn_of_field=False, max_order=1):
        self.rng, self.dim, self.lg = rng, dim, lg
        self.scalars, self.vectors, self.consts, self.maps = scalars, vectors, consts, maps
        self.allow_fn_of_field = allow_fn_of_field
        self.max_order = max_order

    def fld(self):
        r = self.rng
        al = [0] * self.dim
        if r.random() < 0.35:
            for _ in range(r.randint(1, self.max_order)):
                al[r.randrange(self.dim)] += 1
        while al and al[-1] == 0:
            al.pop()
        if self.vectors and r.random() < 0.35:
            return {"k": "at", "t": "fld", "lg": self.lg, "f": r.choice(self.vectors), "c": 1 + r.randrange(self.dim),
                    "s": "0", "al": al}
        return {"k": "at", "t": "fld", "lg": self.lg, "f": r.choice(self.scalars), "c": 0, "s": "0", "al": al}

    def coord(self):
        return {"k": "at", "t": "coord", "lg": self.lg, "i": self.rng.randrange(self.dim)}

    def const(self):
        return {"k": "at", "t": "const", "name": self.rng.choice(self.consts)}

    def number(self):
        r = self.rng
        if r.random() < 0.25:
            return num(r.choice([1, -1, 3, 5]), r.choice([2, 3, 4]))
        return num(r.choice([2, 3, -1, -2, 5, 7]))

    def free(self, depth):
        """function-free expression (coordinates, constants, numbers, mapping components)"""
        r = self.rng
        if depth <= 0 or r.random() < 0.3:
            c = r.random()
            if c < 0.5:
                return self.coord()
            if c < 0.7:
                return self.const()
            if c < 0.8 and self.maps and self.lg:
                return {"k": "at", "t": "map", "m": r.choice(self.maps), "i": r.randrange(self.dim), "al": []}
            return self.number()
        c = r.random()
        if c < 0.3:
            return {"k": "add", "a": [self.free(depth - 1) for _ in range(r.randint(2, 3))]}
        if c < 0.6:
            return {"k": "mul", "a": [self.free(depth - 1) for _ in range(r.randint(2, 3))]}
        if c < 0.75:
            return {"k": "pow", "b": self.free(depth - 1), "e": num(r.choice([2, 3, -1, -2]))}
        return {"k": "fn", "f": r.choice(["sin", "cos", "exp", "log", "tan"]), "a": self.free(depth - 1)}

    def expr(self, depth):
        r = self.rng
        if depth <= 0 or r.random() < 0.2:
            c = r.random()
            if c < 0.6:
                return self.fld()
            if c < 0.75:
                return self.coord()
            if c < 0.9:
                return self.const()
            return self.number()
        c = r.random()
        if c < 0.25:
            return {"k": "add", "a": [self.expr(depth - 1) for _ in range(r.randint(2, 4))]}
        if c < 0.6:
            return {"k": "mul", "a": [self.expr(depth - 1) for _ in range(r.randint(2, 4))]}
        if c < 0.72:
            return {"k": "pow", "b": self.expr(depth - 1), "e": num(r.choice([2, 3, -1, -2, 4]))}
        if c < 0.80:   # variable / symbolic / fractional exponent (no integer shift, see ser.py)
            # exponents: constants, fields, fractions, and function-free expressions of the coordinates
            e = r.choice([self.const(), self.fld(), num(1, 2), num(3, 2),
                          {"k": "mul", "a": [self.const(), self.const()]},
                          self.coord(), {"k": "mul", "a": [self.const(), self.coord()]},
                          {"k": "mul", "a": [self.coord(), self.coord()]}])
            # the base is never a bare (possibly negative) number: (-2)**(1/2) is not a real expression
            b = r.choice([self.fld(), {"k": "add", "a": [self.fld(), self.coord(), num(r.choice([1, 2, 3]))]},
                          {"k": "mul", "a": [self.fld(), self.fld()]}])
            return {"k": "pow", "b": b, "e": e}
        if c < 0.92:
            return self.free(depth)
        if self.allow_fn_of_field:
            return {"k": "fn", "f": r.choice(["sin", "cos", "exp"]), "a": self.expr(depth - 1)}
        return self.fld()
